#!/bin/bash
# Offline build of the whole Coq development (full .vo build) from files on disk.
set -e
HERE="$(cd "$(dirname "$0")" && pwd)"
cd "$HERE"
export PYTHONPATH="/repo:$HERE/harness" PYTHONDONTWRITEBYTECODE=1
mkdir -p build evidence replays
/venv/bin/python - <<'PY'
import sys, os
sys.path.insert(0, os.path.join(os.getcwd(), "harness"))
import common
bad = common.gate_sources()
if bad:
    print("source gate failed:", bad); sys.exit(1)
common.ensure_makefile()
PY
cd coq
timeout 3000 make -j16 -k || { echo "setup: some Coq files failed to build (the checks that need them will report it)"; }
echo "setup done"
