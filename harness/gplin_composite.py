"""C08 helper: composite kernels of the property's quantifier ("with warping, product / exponential-decay
resource kernels where they are plain kernels") checked against an INDEPENDENT numpy implementation:

  warp      WarpedKernel(Matern52, [Warping ...])   1..3 Warping blocks, contiguous and non-contiguous
            coordinate ranges, Kumaraswamy parameters a, b in [0.25, 4] set through the public set_params
  product   ProductKernelFunction(Matern52, Matern52), optionally with one factor wrapped in a WarpedKernel
  range     RangeKernelFunction(D, Matern52, start)
  expdecay  ExponentialDecayResourcesKernelFunction(Matern52, mean_x) with ExponentialDecayResourcesMeanFunction

For every case: kernel matrices K(X,X), K(X,Xtest), diagonal(Xtest), the mean function, then
GaussProcPosteriorState.predict / neg_log_likelihood, one IncrementalUpdateGPPosteriorState.update and the
from-scratch state on the extended data are compared with dense numpy expressions (np.linalg.solve / slogdet)
built from the independent kernel.  No Coq model is involved here (the model of model/GPLin.v covers
Matern-5/2 and the linear algebra; composition with a warping is a change of inputs)."""
import math

import numpy as np

EPS = 2.0 ** -52
JITTER = 1e-9     # NUMERICAL_JITTER: inside the Matern square root and in the warping's rescaling
C_TOL = 64.0


def loguniform(rng, lo, hi):
    return math.exp(rng.uniform(math.log(lo), math.log(hi)))


# --------------------------------------------------------------------------
# independent formulas
# --------------------------------------------------------------------------
def ref_matern(ib, cs, A, B):
    A = np.asarray(A, dtype=float)
    B = np.asarray(B, dtype=float)
    ib = np.asarray(ib, dtype=float).reshape(1, 1, -1)
    diff = (A[:, None, :] - B[None, :, :]) * ib
    D = 5.0 * np.sum(diff * diff, axis=2)
    Bm = np.sqrt(D + JITTER)
    return cs * (1.0 + Bm + D / 3.0) * np.exp(-Bm)


def ref_warp(X, blocks):
    """blocks: list of (lower, upper, a list, b list); Kumaraswamy CDF on the rescaled coordinate,
    identity elsewhere; every block acts on its own coordinates of the SAME point"""
    X = np.array(X, dtype=float)
    out = X.copy()
    for lo, up, a, b in blocks:
        for k in range(lo, up):
            r = (1.0 - 2 * JITTER) * X[:, k] + JITTER
            out[:, k] = 1.0 - np.power(1.0 - np.power(r, a[k - lo]), b[k - lo])
    return out


def ref_kappa(r, alpha, mean_lam):
    beta = alpha / mean_lam
    return np.power(beta / (r + beta), alpha)


class RefMatern:
    def __init__(self, ib, cs):
        self.ib, self.cs = list(ib), float(cs)

    def k(self, A, B):
        return ref_matern(self.ib, self.cs, A, B)

    def diag(self, A):
        return np.full(len(A), self.cs)

    def tol(self, A, B):
        ib = np.asarray(self.ib).reshape(1, -1)
        A, B = np.asarray(A) * ib, np.asarray(B) * ib
        s = float(np.max(np.sum(A * A, axis=1))) + float(np.max(np.sum(B * B, axis=1)))
        return C_TOL * EPS * self.cs * (1.0 + 5.0 * s) * (2 + A.shape[1])


class RefWarped:
    def __init__(self, inner, blocks):
        self.inner, self.blocks = inner, blocks

    def k(self, A, B):
        return self.inner.k(ref_warp(A, self.blocks), ref_warp(B, self.blocks))

    def diag(self, A):
        return self.inner.diag(ref_warp(A, self.blocks))

    def tol(self, A, B):
        # pow() may differ by a few ulp between evaluations (measured deviation on the clean tree: < 1% of this)
        ab = max([max(a) * max(b) for _, _, a, b in self.blocks] + [1.0])
        return self.inner.tol(ref_warp(A, self.blocks), ref_warp(B, self.blocks)) * (2 + 0.25 * ab)


class RefSlice:
    def __init__(self, inner, start, stop):
        self.inner, self.start, self.stop = inner, start, stop

    def k(self, A, B):
        return self.inner.k(np.asarray(A)[:, self.start:self.stop], np.asarray(B)[:, self.start:self.stop])

    def diag(self, A):
        return self.inner.diag(np.asarray(A)[:, self.start:self.stop])

    def tol(self, A, B):
        return self.inner.tol(np.asarray(A)[:, self.start:self.stop], np.asarray(B)[:, self.start:self.stop])


class RefProduct:
    def __init__(self, k1, k2):
        self.k1, self.k2 = k1, k2

    def k(self, A, B):
        return self.k1.k(A, B) * self.k2.k(A, B)

    def diag(self, A):
        return self.k1.diag(A) * self.k2.diag(A)

    def tol(self, A, B):
        m1 = float(np.max(np.abs(self.k1.k(A, B)))) + 1e-300
        m2 = float(np.max(np.abs(self.k2.k(A, B)))) + 1e-300
        return 2 * (self.k1.tol(A, B) * m2 + self.k2.tol(A, B) * m1) + 8 * EPS * m1 * m2


class RefExpDecay:
    """k((x,r),(x',r')) = k_x(x,x') (1 - delta (kappa(r) + kappa(r') - delta kappa(r+r')))
                         + (gamma - delta mu(x)) (gamma - delta mu(x')) (kappa(r+r') - kappa(r) kappa(r')),
       kappa(r) = (beta / (r + beta))^alpha, beta = alpha / mean_lam;
       mean((x,r)) = mu(x) + kappa(r) (gamma - delta mu(x))           (Tiao et al. 2020, centred freeze-thaw)"""

    def __init__(self, kx, dx, mu, alpha, mean_lam, gamma, delta):
        self.kx, self.dx, self.mu = kx, dx, float(mu)
        self.alpha, self.mean_lam, self.gamma, self.delta = float(alpha), float(mean_lam), float(gamma), float(delta)

    def _parts(self, A):
        A = np.asarray(A, dtype=float)
        return A[:, :self.dx], A[:, self.dx]

    def k(self, A, B):
        xa, ra = self._parts(A)
        xb, rb = self._parts(B)
        ka = ref_kappa(ra, self.alpha, self.mean_lam)[:, None]
        kb = ref_kappa(rb, self.alpha, self.mean_lam)[None, :]
        kab = ref_kappa(ra[:, None] + rb[None, :], self.alpha, self.mean_lam)
        pref = self.gamma - self.delta * self.mu
        return self.kx.k(xa, xb) * (1.0 - self.delta * (ka + kb - self.delta * kab)) + pref * pref * (kab - ka * kb)

    def diag(self, A):
        xa, ra = self._parts(A)
        ka = ref_kappa(ra, self.alpha, self.mean_lam)
        k2 = ref_kappa(2 * ra, self.alpha, self.mean_lam)
        pref = self.gamma - self.delta * self.mu
        return self.kx.diag(xa) * (1.0 - self.delta * (2 * ka - self.delta * k2)) + pref * pref * (k2 - ka * ka)

    def mean(self, A):
        xa, ra = self._parts(A)
        return self.mu + ref_kappa(ra, self.alpha, self.mean_lam) * (self.gamma - self.delta * self.mu)

    def tol(self, A, B):
        xa, _ = self._parts(A)
        xb, _ = self._parts(B)
        pref = self.gamma - self.delta * self.mu
        return 4 * self.kx.tol(xa, xb) + C_TOL * EPS * (1 + self.alpha) * (self.kx.cs_bound() + pref * pref)


def _fl(x):
    h = float(x).hex()
    return "(%s)" % h if h.startswith("-") else h


def _fvec(v):
    return "[" + "; ".join(_fl(x) for x in v) + "]"


def _fmat(M):
    return "[" + "; ".join(_fvec(r) for r in np.asarray(M, dtype=float)) + "]"


# Coq term (kspec of the driver's PRELUDE), bound on the kernel value, and the extra tolerance for the model's
# pow = exp(y * log x) against libm's pow.  For w = 1 - (1 - r^a)^b a relative error c*eps*(1 + a|ln r|) of r^a
# moves w by b (1 - r^a)^(b-1) r^a times that (large near x = 1 when b < 1: the implementation's own formula is
# ill-conditioned there), plus the error of the outer power; a Matern value moves by <= 1.5 cs ib_k per unit of
# coordinate k (both arguments).
def warp_error(X, blocks):
    X = np.asarray(X, dtype=float)
    dw = np.zeros(X.shape[1])
    for lo, up, a, b in blocks:
        for k in range(lo, up):
            r = (1.0 - 2 * JITTER) * X[:, k] + JITTER
            ra = np.power(r, a[k - lo])
            u = np.maximum(1.0 - ra, 1e-300)
            d_ra = ra * C_TOL * EPS * (1.0 + a[k - lo] * np.abs(np.log(r)))
            d_u = d_ra + 2 * EPS
            e = b[k - lo] * np.power(u, b[k - lo] - 1.0) * d_u + C_TOL * EPS * (1.0 + b[k - lo] * np.abs(np.log(u))) * np.power(u, b[k - lo])
            dw[k] = float(np.max(e))
    return dw


def _wblocks(blocks):
    return "[" + "; ".join("mkW NumF %d%%nat %d%%nat %s %s" % (lo, up, _fvec(a), _fvec(b)) for lo, up, a, b in blocks) + "]"


# kexpr terms of model/GPLin.v (evaluated at NumF), a bound on |k|, per-coordinate Lipschitz bounds, and the
# extra tolerance for pow = exp(y log x)
RefMatern.coq = lambda self: "(KMat NumF %s %s %s)" % (_fvec(self.ib), _fl(self.cs), _fl(JITTER))
RefMatern.bound = lambda self: self.cs
RefMatern.cs_bound = lambda self: self.cs
RefMatern.sens = lambda self, D: 1.5 * self.cs * np.asarray(self.ib, dtype=float)
RefMatern.pow_extra = lambda self, X: 0.0
RefWarped.coq = lambda self: "(KWarp NumF %s %s %s)" % (self.inner.coq(), _fl(JITTER), _wblocks(self.blocks))
RefWarped.bound = lambda self: self.inner.bound()
RefWarped.cs_bound = lambda self: self.inner.bound()
RefWarped.sens = lambda self, D: self.inner.sens(D) * 4.0
RefWarped.pow_extra = lambda self, X: (self.inner.pow_extra(ref_warp(X, self.blocks))
                                       + 2.0 * float(np.sum(self.inner.sens(np.asarray(X).shape[1]) * warp_error(X, self.blocks))))
RefSlice.coq = lambda self: "(KRange NumF %s %d%%nat %d%%nat)" % (self.inner.coq(), self.start, self.stop - self.start)
RefSlice.bound = lambda self: self.inner.bound()
RefSlice.cs_bound = lambda self: self.inner.bound()


def _slice_sens(self, D):
    out = np.zeros(D)
    out[self.start:self.stop] = self.inner.sens(self.stop - self.start)
    return out


RefSlice.sens = _slice_sens
RefSlice.pow_extra = lambda self, X: self.inner.pow_extra(np.asarray(X)[:, self.start:self.stop])
# ProductKernelFunction(k1, k2) splits at d1: first factor on x[:d1], second on x[d1:]
RefProduct.coq = lambda self: "(KProd NumF %s %d%%nat %s)" % (self.k1.inner.coq(), self.k1.stop, self.k2.inner.coq())
RefProduct.bound = lambda self: self.k1.bound() * self.k2.bound()
RefProduct.cs_bound = lambda self: self.k1.bound() * self.k2.bound()
RefProduct.sens = lambda self, D: self.k1.sens(D) * self.k2.bound() + self.k2.sens(D) * self.k1.bound()
RefProduct.pow_extra = lambda self, X: (self.k1.pow_extra(X) * self.k2.bound() + self.k2.pow_extra(X) * self.k1.bound())
RefExpDecay.coq = lambda self: "(KExpD NumF %s %d%%nat %s %s %s %s %s)" % (
    self.kx.coq(), self.dx, _fl(self.mu), _fl(self.alpha), _fl(self.mean_lam), _fl(self.gamma), _fl(self.delta))
RefExpDecay._pref2 = lambda self: (self.gamma - self.delta * self.mu) ** 2
RefExpDecay.bound = lambda self: 4.0 * self.kx.bound() + 2.0 * self._pref2()
RefExpDecay.cs_bound = lambda self: self.bound()


def _ed_sens(self, D):
    out = np.zeros(D)
    out[:self.dx] = 4.0 * self.kx.sens(self.dx)
    out[self.dx] = 6.0 * self.mean_lam * (self.kx.bound() + self._pref2())     # |d kappa / d r| <= alpha/beta = mean_lam
    return out


def _ed_pow_extra(self, X):
    r = np.asarray(X, dtype=float)[:, self.dx]
    beta = self.alpha / self.mean_lam
    e = C_TOL * EPS * (1.0 + self.alpha * float(np.max(np.abs(np.log(beta / (2 * np.max(r) + beta))))))
    return 9.0 * (self.kx.bound() + self._pref2()) * e + 4.0 * self.kx.pow_extra(np.asarray(X)[:, :self.dx])


RefExpDecay.sens = _ed_sens
RefExpDecay.pow_extra = _ed_pow_extra


# --------------------------------------------------------------------------
# case generation (JSON-able spec)
# --------------------------------------------------------------------------
def at_bound(rng, lower):
    """a value AT the lower end of a box: the bound itself, just above it, or within 0.1% of it"""
    return lower * rng.choice([1.0, 1.0 + 1e-6, 1.0 + 1e-6, 1.0 + 5e-4])


def gen_matern(rng, d):
    ard = d > 1 and rng.random() < 0.6
    ms = dict(d=d, ard=ard, ibs=[loguniform(rng, 0.3, 6) for _ in range(d if ard else 1)],
              cs=loguniform(rng, 0.2, 5))
    if rng.random() < 0.2:
        ms["cs"] = at_bound(rng, 1e-3)                      # COVARIANCE_SCALE_LOWER_BOUND
    if rng.random() < 0.1:
        ms["ibs"][rng.randrange(len(ms["ibs"]))] = at_bound(rng, 1e-4)   # INVERSE_BANDWIDTHS_LOWER_BOUND
    if rng.random() < 0.12:
        # the UPPER part of the box (COVARIANCE_SCALE_UPPER_BOUND = 1e3): internal values above 709 under the
        # positive encoding
        ms["cs"] = rng.choice([rng.uniform(712.0, 999.0), rng.uniform(712.0, 999.0), 1e3 * (1.0 - 1e-6)])
    return ms


def gen_blocks(rng, d):
    """non-overlapping coordinate ranges in increasing order: 1..3 blocks"""
    want = rng.choice([1, 1, 2, 2, 3])
    cuts, pos = [], 0
    while pos < d and len(cuts) < want:
        lo = pos + (rng.randint(0, 1) if d - pos > 1 else 0)
        if lo >= d:
            break
        up = rng.randint(lo + 1, min(d, lo + 2))
        cuts.append((lo, up))
        pos = up + (1 if rng.random() < 0.6 else 0)   # a gap = a categorical coordinate in between
    blocks = []
    for lo, up in cuts:
        blocks.append(dict(lo=lo, up=up, a=[loguniform(rng, 0.25, 4.0) for _ in range(up - lo)],
                           b=[loguniform(rng, 0.25, 4.0) for _ in range(up - lo)]))
    if rng.random() < 0.2:      # a warping exponent AT the lower end of its box (WARPING_LOWER_BOUND = 0.25)
        blk = rng.choice(blocks)
        blk[rng.choice(["a", "b"])][rng.randrange(len(blk["a"]))] = at_bound(rng, 0.25)
    if rng.random() < 0.15:     # all parameters at their initial value 1: warping ~ identity
        for blk in blocks:
            blk["a"] = [1.0] * len(blk["a"])
            blk["b"] = [1.0] * len(blk["b"])
    return blocks


def gen_expdecay(rng, dx):
    low = rng.random() < 0.3       # values near the lower ends of the boxes
    return dict(base=gen_matern(rng, dx), mu=rng.choice([0.0, rng.uniform(-1, 1)]),
                alpha=loguniform(rng, 1e-3, 0.05) if low else loguniform(rng, 0.2, 5),
                mean_lam=(at_bound(rng, 1e-4) if rng.random() < 0.3 else loguniform(rng, 2e-4, 5e-3)) if low
                else loguniform(rng, 0.05, 5),
                gamma=(at_bound(rng, 1e-4) if rng.random() < 0.3 else loguniform(rng, 2e-4, 5e-3)) if low
                else rng.uniform(0.05, 0.95),
                delta=rng.choice([None, 0.0, 1.0, rng.uniform(0.05, 0.95)]), delta_free=rng.uniform(0.05, 0.95))


def gen_spec(rng):
    sub = rng.choice(["warp", "warp", "warp", "product", "range", "expdecay", "matern", "warp_outer", "warp_outer"])
    spec = dict(sub=sub, install=rng.choice(["dict", "direct"]), enc=rng.choice(["logarithm", "logarithm", "positive"]))
    highd = False
    if sub == "matern":
        # plain Matern-5/2, mostly ARD in HIGH dimension (parameter names inv_bw10.. sort before inv_bw2)
        d = rng.choice([rng.randint(2, 6), rng.randint(11, 14), rng.randint(11, 14)])
        ms = gen_matern(rng, d)
        if d >= 11:
            ms.update(ard=True, ibs=[loguniform(rng, 0.1, 3) for _ in range(d)])
        spec.update(D=d, base=ms)
        highd = d >= 11
    elif sub == "warp":
        d = rng.choice([rng.randint(1, 5), rng.randint(1, 5), rng.randint(1, 5), rng.randint(11, 13)])
        ms = gen_matern(rng, d)
        if d >= 11:
            ms.update(ard=True, ibs=[loguniform(rng, 0.1, 3) for _ in range(d)])
        spec.update(D=d, base=ms, blocks=gen_blocks(rng, d))
        highd = d >= 11
    elif sub == "product":
        d1, d2 = rng.randint(1, 3), rng.randint(1, 2)
        spec.update(D=d1 + d2, k1=gen_matern(rng, d1), k2=gen_matern(rng, d2),
                    blocks1=gen_blocks(rng, d1) if rng.random() < 0.5 else None)
    elif sub == "range":
        D = rng.randint(2, 5)
        dk = rng.randint(1, D - 1)
        spec.update(D=D, base=gen_matern(rng, dk), start=rng.randint(0, D - dk))
    elif sub == "expdecay":
        dx = rng.randint(1, 3)
        spec.update(D=dx + 1, **gen_expdecay(rng, dx))
    else:
        # WarpedKernel around a kernel whose diagonal depends on X: exponential decay, or a product containing
        # one; the last Warping block covers the resource coordinate (inputs incl. the resource lie in [0,1])
        dx = rng.randint(1, 2)
        inner = rng.choice(["expdecay", "product_expdecay"])
        d1 = rng.randint(1, 2) if inner == "product_expdecay" else 0
        D = d1 + dx + 1
        lo = rng.randint(max(0, D - 2), D - 1)
        blocks = [dict(lo=lo, up=D, a=[loguniform(rng, 0.3, 3.5) for _ in range(D - lo)],
                       b=[loguniform(rng, 0.3, 3.5) for _ in range(D - lo)])]
        if lo >= 2 and rng.random() < 0.5:
            blocks.insert(0, dict(lo=0, up=1, a=[loguniform(rng, 0.3, 3.5)], b=[loguniform(rng, 0.3, 3.5)]))
        spec.update(D=D, inner=inner, d1=d1, k1=gen_matern(rng, d1) if d1 else None, ed=gen_expdecay(rng, dx),
                    blocks=blocks)
    D = spec["D"]
    n = rng.choice([2, 3, 4]) if highd else rng.choice([2, 3, 5, 8, 12])
    m = rng.choice([1, 1, 2, 3])
    t = rng.randint(1, 4)

    def point():
        p = [rng.choice([0.0, 1.0]) if rng.random() < 0.08 else rng.random() for _ in range(D)]
        if sub == "expdecay":
            p[-1] = float(rng.randint(1, 9))      # resource level r >= 1
        return p
    X = []
    for _ in range(n):
        X.append(list(rng.choice(X)) if X and rng.random() < 0.12 else point())
    Xt = [list(rng.choice(X)) if rng.random() < 0.15 else point() for _ in range(t)]
    spec.update(n=n, m=m, t=t, X=X, Xt=Xt, Y=[[rng.gauss(0, 1) for _ in range(m)] for _ in range(n)],
                noise=loguniform(rng, 1e-4, 0.3), mean=None if rng.random() < 0.3 else rng.uniform(-1.5, 1.5),
                xnew=point(), ynew=[rng.gauss(0, 1) for _ in range(m)])
    return spec


# --------------------------------------------------------------------------
# building the real objects + the matching reference
# --------------------------------------------------------------------------
ENC_TOL = {"logarithm": 16 * EPS, "positive": 1e-12}
_enc = ["logarithm"]          # encoding of the kernel currently being built (set by build)


def _req(v, lower):
    """the value actually requested: the positive encoding is only defined strictly above the bound"""
    return lower * (1.0 + 1e-6) if (_enc[0] == "positive" and v <= lower) else v


def check_installed(issues, label, got, intended):
    """every hyper-parameter read back through the public get_params equals the requested value (the encodings
    move a value by at most a few ulp)"""
    for k_, v in intended.items():
        if k_ not in got:
            issues.append(("%s: get_params has no entry %r" % (label, k_), "param_roundtrip"))
        elif not abs(float(got[k_]) - float(v)) <= ENC_TOL[_enc[0]] * max(abs(float(v)), 1e-3):
            issues.append(("%s: parameter %s reads back as %r, requested %r" % (label, k_, float(got[k_]), float(v)),
                           "param_roundtrip" if math.isfinite(float(got[k_])) else "param_readback_nonfinite"))
    extra = sorted(set(got) - set(intended))
    if extra:
        issues.append(("%s: get_params has unexpected entries %s" % (label, extra), "param_roundtrip"))


def check_roundtrip(issues, label, obj, fresh):
    """get_params o set_params = id: a freshly built object given obj.get_params() reports the same values"""
    p = {k_: float(v) for k_, v in obj.get_params().items()}
    o2 = fresh()
    o2.set_params(dict(p))
    p2 = {k_: float(v) for k_, v in o2.get_params().items()}
    tol_ = ENC_TOL[_enc[0]]
    if sorted(p) != sorted(p2) or any(not abs(p2[k_] - p[k_]) <= tol_ * max(abs(p[k_]), 1e-3) for k_ in p):
        bad = [k_ for k_ in p if k_ not in p2 or not abs(p2[k_] - p[k_]) <= tol_ * max(abs(p[k_]), 1e-3)]
        issues.append(("%s: set_params(get_params()) on a fresh object changes %s" % (label, bad[:4]), "param_roundtrip"))


def matern_params(ms):
    prm = {"covariance_scale": _req(ms["cs"], 1e-3)}
    if ms["d"] == 1 or not ms["ard"]:
        prm["inv_bw"] = _req(ms["ibs"][0], 1e-4)
    else:
        prm.update({"inv_bw%d" % i: _req(v, 1e-4) for i, v in enumerate(ms["ibs"])})
    return prm


def build_matern(ms, how="dict", issues=None):
    from syne_tune.optimizer.schedulers.searchers.bayesopt.gpautograd.kernel import Matern52

    def fresh():
        k_ = Matern52(ms["d"], ARD=ms["ard"], encoding_type=_enc[0])
        k_.collect_params().initialize()
        return k_
    k = fresh()
    prm = matern_params(ms)
    if how == "dict":
        k.set_params(dict(prm))      # the public dict interface (what model / likelihood set_params route to)
    else:                            # directly on the parameter objects
        sd = k.squared_distance
        sd.encoding.set(sd.inverse_bandwidths_internal,
                        [_req(v, 1e-4) for v in ms["ibs"]] if ms["ard"] and ms["d"] > 1 else [_req(ms["ibs"][0], 1e-4)])
        k.encoding.set(k.covariance_scale_internal, _req(ms["cs"], 1e-3))
    got = k.get_params()
    if issues is not None:
        check_installed(issues, "Matern52(d=%d, ARD=%s) via %s" % (ms["d"], ms["ard"], how), got, prm)
        check_roundtrip(issues, "Matern52(d=%d, ARD=%s)" % (ms["d"], ms["ard"]), k, fresh)
    ibs = [float(got["inv_bw"])] * ms["d"] if "inv_bw" in got else [float(got["inv_bw%d" % i]) for i in range(ms["d"])]
    return k, RefMatern(ibs, float(got["covariance_scale"]))


def build_warped(kernel, ref, blocks, d, how="dict", issues=None, fresh_inner=None):
    from syne_tune.optimizer.schedulers.searchers.bayesopt.gpautograd.warping import Warping, WarpedKernel

    def pname(i, size, kind, j):
        pref = "warping_" if len(blocks) == 1 else "warping%d_" % i
        return pref + ("power_%s" % kind if size == 1 else "power_%s_%d" % (kind, j))
    warpings = [Warping(d, coordinate_range=(b["lo"], b["up"]), encoding_type=_enc[0]) for b in blocks]
    wk = WarpedKernel(kernel=kernel, warpings=warpings)
    wk.collect_params().initialize()
    prm = {"kernel_" + k_: float(v) for k_, v in kernel.get_params().items()}
    for i, b in enumerate(blocks):
        size = b["up"] - b["lo"]
        for kind in ("a", "b"):
            for j in range(size):
                prm[pname(i, size, kind, j)] = _req(b[kind][j], 0.25)
    if how == "dict":
        wk.set_params(dict(prm))     # public setter; routes by prefix to kernel and to each Warping block
    else:
        for w_, b in zip(warpings, blocks):
            w_.encoding.set(w_.power_a_internal, [_req(v, 0.25) for v in b["a"]])
            w_.encoding.set(w_.power_b_internal, [_req(v, 0.25) for v in b["b"]])
    got = wk.get_params()
    if issues is not None:
        check_installed(issues, "WarpedKernel(%d blocks) via %s" % (len(blocks), how), got, prm)
        if fresh_inner is not None:
            def fresh():
                w2 = WarpedKernel(kernel=fresh_inner(), warpings=[Warping(d, coordinate_range=(b["lo"], b["up"]), encoding_type=_enc[0])
                                                                  for b in blocks])
                w2.collect_params().initialize()
                return w2
            check_roundtrip(issues, "WarpedKernel(%d blocks)" % len(blocks), wk, fresh)
    rb = []
    for i, b in enumerate(blocks):
        size = b["up"] - b["lo"]
        rb.append((b["lo"], b["up"], [float(got[pname(i, size, "a", j)]) for j in range(size)],
                   [float(got[pname(i, size, "b", j)]) for j in range(size)]))
    return wk, RefWarped(ref, rb)


def scalar_mean(v):
    from syne_tune.optimizer.schedulers.searchers.bayesopt.gpautograd.mean import ScalarMeanFunction, ZeroMeanFunction
    if v is None:
        return ZeroMeanFunction(), 0.0
    mf = ScalarMeanFunction()
    mf.collect_params().initialize()
    mf.set_mean_value(v)
    return mf, float(mf.get_mean_value())


def build_expdecay(ed, how, issues):
    from syne_tune.optimizer.schedulers.searchers.bayesopt.gpautograd.kernel import ExponentialDecayResourcesKernelFunction
    k0, r0 = build_matern(ed["base"], how, issues)
    mx, mu = scalar_mean(ed["mu"] if ed["mu"] != 0.0 else None)
    kern = ExponentialDecayResourcesKernelFunction(k0, mx, delta_fixed_value=ed["delta"], encoding_type=_enc[0])
    kern.collect_params().initialize()
    prm = {"kernelx_" + k_: float(v) for k_, v in k0.get_params().items()}
    if ed["mu"] != 0.0:
        prm["meanx_mean_value"] = mu
    prm.update(alpha=ed["alpha"], mean_lam=_req(ed["mean_lam"], 1e-4), gamma=_req(ed["gamma"], 1e-4))
    if ed["delta"] is None:
        prm["delta"] = ed["delta_free"]
    kern.set_params(dict(prm))
    got = kern.get_params()
    check_installed(issues, "ExponentialDecayResourcesKernelFunction(encoding=%s)" % _enc[0], got, prm)

    def fresh_ed():
        k_ = ExponentialDecayResourcesKernelFunction(build_matern(ed["base"])[0], scalar_mean(ed["mu"] if ed["mu"] != 0.0 else None)[0],
                                                     delta_fixed_value=ed["delta"], encoding_type=_enc[0])
        k_.collect_params().initialize()
        return k_
    check_roundtrip(issues, "ExponentialDecayResourcesKernelFunction(encoding=%s)" % _enc[0], kern, fresh_ed)
    delta = float(got["delta"]) if ed["delta"] is None else float(ed["delta"])
    ref = RefExpDecay(r0, ed["base"]["d"], mu, got["alpha"], got["mean_lam"], got["gamma"], delta)
    return kern, ref


def build(spec, issues=None):
    """returns (kernel object, mean function object, reference kernel, reference mean function)"""
    from syne_tune.optimizer.schedulers.searchers.bayesopt.gpautograd.kernel import (
        ProductKernelFunction, RangeKernelFunction, ExponentialDecayResourcesMeanFunction)
    issues = [] if issues is None else issues
    _enc[0] = spec.get("enc", "logarithm")
    how = spec.get("install", "dict")
    sub = spec["sub"]
    if sub == "matern":
        kern, ref = build_matern(spec["base"], how, issues)
    elif sub == "warp":
        k0, r0 = build_matern(spec["base"], how, issues)
        kern, ref = build_warped(k0, r0, spec["blocks"], spec["D"], how, issues,
                                 fresh_inner=lambda: build_matern(spec["base"])[0])
    elif sub == "product":
        k1, r1 = build_matern(spec["k1"], how, issues)
        k2, r2 = build_matern(spec["k2"], how, issues)
        d1 = spec["k1"]["d"]
        if spec["blocks1"]:
            k1, r1 = build_warped(k1, r1, spec["blocks1"], d1, how, issues)
        kern = ProductKernelFunction(k1, k2)
        check_installed(issues, "ProductKernelFunction", kern.get_params(),
                        dict([("kernel1_" + k_, float(v)) for k_, v in k1.get_params().items()]
                             + [("kernel2_" + k_, float(v)) for k_, v in k2.get_params().items()]))
        ref = RefProduct(RefSlice(r1, 0, d1), RefSlice(r2, d1, spec["D"]))
    elif sub == "range":
        k0, r0 = build_matern(spec["base"], how, issues)
        kern = RangeKernelFunction(spec["D"], k0, spec["start"])
        ref = RefSlice(r0, spec["start"], spec["start"] + spec["base"]["d"])
    elif sub == "expdecay":
        kern, ref = build_expdecay(spec, how, issues)
        return kern, ExponentialDecayResourcesMeanFunction(kern), ref, ref.mean
    else:   # warp_outer
        ked, red = build_expdecay(spec["ed"], how, issues)
        if spec["inner"] == "expdecay":
            kin, rin = ked, red
        else:
            k1, r1 = build_matern(spec["k1"], how, issues)
            kin = ProductKernelFunction(k1, ked)
            rin = RefProduct(RefSlice(r1, 0, spec["d1"]), RefSlice(red, spec["d1"], spec["D"]))
        kern, ref = build_warped(kin, rin, spec["blocks"], spec["D"], how, issues)
    meanf, mval = scalar_mean(spec["mean"])
    return kern, meanf, ref, (lambda A: np.full(len(A), mval))


# --------------------------------------------------------------------------
# one case
# --------------------------------------------------------------------------
def run_case(ctx, spec, ck_cases=None, ck_meta=None):
    from syne_tune.optimizer.schedulers.searchers.bayesopt.gpautograd.posterior_state import (
        GaussProcPosteriorState, IncrementalUpdateGPPosteriorState)
    from syne_tune.optimizer.schedulers.searchers.bayesopt.gpautograd.constants import MIN_POSTERIOR_VARIANCE

    sub, n, m, t, D = spec["sub"], spec["n"], spec["m"], spec["t"], spec["D"]
    X = np.array(spec["X"], dtype=float).reshape(n, D)
    Xt = np.array(spec["Xt"], dtype=float).reshape(t, D)
    Y = np.array(spec["Y"], dtype=float).reshape(n, m)
    xnew = np.array(spec["xnew"], dtype=float).reshape(1, D)
    ynew = np.array(spec["ynew"], dtype=float).reshape(1, m)
    noise = float(spec["noise"])
    nblocks = len(spec.get("blocks") or spec.get("blocks1") or [])

    def viol(what, quantity):
        ctx.violation("property", "[%s kernel] %s" % (sub, what), case=dict(kind="gpc", spec=spec),
                      signature=dict(component="gp_posterior", kernel=sub, quantity=quantity,
                                     warping_blocks=nblocks, encoding=spec.get("enc", "logarithm")))

    issues = []
    kern, meanf, ref, mref = build(spec, issues)
    for what_, q_ in issues:
        viol(what_, q_)
    ctx.h("composite_install", spec.get("install", "dict"))
    ctx.h("composite_encoding", spec.get("enc", "logarithm"))
    ctx.h("composite_dim", "D>=11" if D >= 11 else "D<=6")
    ctx.h("composite_kernel", sub if sub != "warp" else "warp_%d_block%s" % (nblocks, "" if nblocks == 1 else "s"))
    nrm = lambda a: float(np.linalg.norm(a))   # noqa: E731
    allX = np.vstack([X, Xt, xnew])

    # ---- kernel matrices, diagonal, mean function -----------------------------------------
    ktol = ref.tol(allX, allX)
    K, Kte = np.asarray(kern(X, X)), np.asarray(kern(X, Xt))
    kd = np.asarray(kern.diagonal(Xt)).reshape(-1)
    mv, ms = np.asarray(meanf(X)).reshape(-1), np.asarray(meanf(Xt)).reshape(-1)
    Kr, Kter, kdr = ref.k(X, X), ref.k(X, Xt), ref.diag(Xt)
    bad_kernel = False
    for name, a_, b_ in (("K(X,X)", K, Kr), ("K(X,Xtest)", Kte, Kter), ("diagonal(Xtest)", kd, kdr)):
        dev = float(np.max(np.abs(a_ - b_)))
        if not dev <= ktol:
            bad_kernel = True
            viol("%s deviates from the independent kernel formula by %.3g (tol %.3g)" % (name, dev, ktol),
                 "kernel")
    # universal: diagonal(X) is the diagonal of forward(X, X) (up to the Matern NUMERICAL_JITTER, relative 5e-10
    # per Matern factor) for every kernel object built here
    Kall = np.asarray(kern(allX, allX))
    dall = np.asarray(kern.diagonal(allX)).reshape(-1)
    dtol = 4e-9 * float(np.max(np.abs(dall))) + ktol
    if not float(np.max(np.abs(dall - np.diag(Kall)))) <= dtol:
        bad_kernel = True
        viol("kernel.diagonal(X) differs from diag(kernel(X, X)) by %.3g (tol %.3g)"
             % (float(np.max(np.abs(dall - np.diag(Kall)))), dtol), "diagonal_vs_forward")
    if float(np.max(np.abs(Kall - Kall.T))) > ktol:
        viol("kernel(X, X) is not symmetric", "kernel_symmetry")
    if ck_cases is not None and D <= 6:
        ctol = ktol + ref.pow_extra(allX)
        ck_cases.append("(%s, %s, %s, %s, %s, %s, %s, %s)" % (
            ref.coq(), _fmat(X), _fmat(Xt), _fmat(K), _fmat(Kte), _fvec(kd),
            "true" if kern.diagonal_depends_on_X() else "false", _fl(ctol)))
        ck_meta.append(dict(kind="gpc", spec=spec))
        ctx.h("composite_coq_tol_useful", bool(ctol < 1e-6 * ref.bound()))
    mtol = 64 * EPS * (1 + float(np.max(np.abs(mref(allX)))))
    if not (np.all(np.abs(mv - mref(X)) <= mtol) and np.all(np.abs(ms - mref(Xt)) <= mtol)):
        viol("mean function deviates from the independent formula", "mean_function")

    # ---- posterior state against the dense expressions of the INDEPENDENT kernel ------------
    noise_arr = np.array([noise])
    state = IncrementalUpdateGPPosteriorState(X, Y, meanf, kern, noise_arr)
    mu, var = state.predict(Xt)
    mu, var = np.asarray(mu), np.asarray(var).reshape(-1)
    nl = float(np.reshape(state.neg_log_likelihood(), (-1,))[0]) if m == 1 else None

    def dense(Xa, Ya):
        A = ref.k(Xa, Xa) + noise * np.eye(len(Xa))
        Kt = ref.k(Xa, Xt)
        R = Ya - mref(Xa).reshape(-1, 1)
        alpha, beta = np.linalg.solve(A, R), np.linalg.solve(A, Kt)
        cond = float(np.linalg.cond(A))
        ainv = 1.0 / float(np.min(np.linalg.svd(A, compute_uv=False)))
        mean = mref(Xt).reshape(-1, 1) + Kt.T @ alpha
        varr = np.maximum(ref.diag(Xt) - np.sum(Kt * beta, axis=0), MIN_POSTERIOR_VARIANCE)
        _, logdet = np.linalg.slogdet(A)
        nll = 0.5 * (float(np.sum(R[:, 0] * alpha[:, 0])) + logdet + len(Xa) * math.log(2 * math.pi))
        na = len(Xa)
        ce = C_TOL * (na + 2) * EPS * cond
        # perturbation of every kernel entry by ktol: |dA| <= na*ktol, |dk*| <= sqrt(na)*ktol
        tolM = max(ce * (nrm(Kt[:, s]) * nrm(alpha[:, j]) + abs(mean[s, j])) + 2 * ktol * float(np.sum(np.abs(alpha[:, j])))
                   + 4 * ainv * na * ktol * nrm(Kt[:, s]) * nrm(alpha[:, j]) + mtol * (1 + ainv * nrm(Kt[:, s]) * math.sqrt(na))
                   for s in range(t) for j in range(m))
        tolV = max(ce * (nrm(Kt[:, s]) * nrm(beta[:, s]) + ref.diag(Xt)[s]) + ktol * (1 + 4 * float(np.sum(np.abs(beta[:, s]))))
                   + 4 * ainv * na * ktol * nrm(Kt[:, s]) * nrm(beta[:, s]) for s in range(t))
        tolN = (ce * (nrm(R[:, 0]) * nrm(alpha[:, 0]) + na * (1 + abs(math.log(max(cond, 1.0))))) + 16 * EPS * abs(nll)
                + na * ktol * (nrm(alpha[:, 0]) ** 2 + na * ainv) + mtol * float(np.sum(np.abs(alpha[:, 0]))) * 2)
        return mean, varr, nll, tolM, tolV, tolN, cond, ainv, alpha, beta, Kt

    mean_r, var_r, nll_r, tolM, tolV, tolN, cond, ainv, alpha, beta, Ktr = dense(X, Y)
    scale = float(np.max(np.abs(mean_r))) + float(np.max(np.abs(Y))) + 1e-300
    useful = tolM < 1e-4 * scale
    ctx.h("composite_tol_useful", useful)
    if not bad_kernel:   # a kernel deviation is already reported with its own concrete input
        if not np.all(np.abs(mu - mean_r) <= tolM):
            viol("predictive mean deviates from the dense expression with the independent kernel by %.3g (tol %.3g)"
                 % (float(np.max(np.abs(mu - mean_r))), tolM), "mean")
        if not np.all(np.abs(var - var_r) <= tolV):
            viol("predictive variance deviates from the dense expression with the independent kernel by %.3g "
                 "(tol %.3g)" % (float(np.max(np.abs(var - var_r))), tolV), "variance")
        if nl is not None and not abs(nl - nll_r) <= tolN:
            viol("negative log marginal likelihood deviates from the dense expression with the independent kernel "
                 "by %.3g (tol %.3g)" % (abs(nl - nll_r), tolN), "nlml")
    if not (np.all(var >= MIN_POSTERIOR_VARIANCE) and np.all(var <= np.maximum(kd, MIN_POSTERIOR_VARIANCE))):
        viol("predictive variance outside [floor, prior variance]", "variance_bounds")

    # ---- incremental update vs from scratch vs dense on the extended data ----------------------
    state2 = state.update(xnew, ynew)
    mu2, var2 = state2.predict(Xt)
    mu2, var2 = np.asarray(mu2), np.asarray(var2).reshape(-1)
    Xe, Ye = np.vstack([X, xnew]), np.vstack([Y, ynew])
    state3 = GaussProcPosteriorState(Xe, Ye, meanf, kern, noise_arr)
    mu3, var3 = state3.predict(Xt)
    mu3, var3 = np.asarray(mu3), np.asarray(var3).reshape(-1)
    mean_e, var_e, _, tolMe, tolVe, _, _, ainv_e, alpha_e, beta_e, Kte_e = dense(Xe, Ye)
    # update takes the new diagonal entry from kernel.diagonal, from-scratch from kernel.forward (NUMERICAL_JITTER)
    delta = abs(float(np.asarray(kern.diagonal(xnew)).reshape(-1)[0]) - float(np.asarray(kern(xnew, xnew)).reshape(-1)[0]))
    dM = max(4 * ainv_e * delta * nrm(Kte_e[:, s]) * nrm(alpha_e[:, j]) for s in range(t) for j in range(m))
    dV = max(4 * ainv_e * delta * nrm(Kte_e[:, s]) * nrm(beta_e[:, s]) for s in range(t))
    if not (np.all(np.abs(mu2 - mu3) <= 2 * tolMe + dM) and np.all(np.abs(var2 - var3) <= 2 * tolVe + dV)):
        viol("predictions after incremental update differ from recomputing from scratch: mean %.3g (tol %.3g), "
             "variance %.3g (tol %.3g)" % (float(np.max(np.abs(mu2 - mu3))), 2 * tolMe + dM,
                                           float(np.max(np.abs(var2 - var3))), 2 * tolVe + dV),
             "incremental_vs_scratch")
    if not bad_kernel and not (np.all(np.abs(mu2 - mean_e) <= tolMe + dM) and np.all(np.abs(var2 - var_e) <= tolVe + dV)):
        viol("predictions after incremental update deviate from the dense expression (independent kernel) on the "
             "extended data", "incremental_vs_dense")
    nontrivial = useful and (sub != "warp" or nblocks >= 1)
    ctx.count(("gpc", spec), nontrivial=bool(nontrivial))
    return dict(kind="gpc", sub=sub, warping_blocks=nblocks, n=n, D=D, cond=cond, impl_mean_0_0=float(mu[0, 0]),
                impl_var_0=float(var[0]))


# --------------------------------------------------------------------------
# LARGE data sets (numpy-reference path only): the likelihood and a couple of predictions for n in {64,128,260}
# with the covariance scale / noise at the ends of their boxes, where det(K + sigsq I) itself is far outside the
# binary64 range while its logarithm is an ordinary number
# --------------------------------------------------------------------------
LARGE_PROFILES = ["big_scale", "small_scale", "correlated_tiny_noise", "box_random", "big_noise", "generic"]


def gen_large(rng, k):
    prof = LARGE_PROFILES[k % len(LARGE_PROFILES)]
    d = rng.randint(1, 3)
    ard = d > 1 and rng.random() < 0.5
    nib = d if ard else 1
    if prof == "big_scale":
        n, cs, noise, ibs = 260, 1e3 * rng.uniform(0.9, 0.999), loguniform(rng, 1e-3, 1.0), [loguniform(rng, 5, 30) for _ in range(nib)]
    elif prof == "small_scale":
        n, cs, noise, ibs = 260, 1e-3 * rng.uniform(1.001, 1.1), loguniform(rng, 1e-9, 1e-6), [loguniform(rng, 5, 30) for _ in range(nib)]
    elif prof == "correlated_tiny_noise":
        n, cs, noise, ibs = 128, loguniform(rng, 0.3, 3), 1e-9, [loguniform(rng, 0.05, 0.3) for _ in range(nib)]
    elif prof == "box_random":
        n, cs, noise, ibs = 64, loguniform(rng, 1e-3, 1e3), loguniform(rng, 1e-9, 1e6), [loguniform(rng, 1e-2, 50) for _ in range(nib)]
    elif prof == "big_noise":
        n, cs, noise, ibs = 128, 1e3 * rng.uniform(0.9, 0.999), 1e6 * rng.uniform(0.5, 0.999), [loguniform(rng, 1, 20) for _ in range(nib)]
    else:
        n, cs, noise, ibs = rng.choice([64, 128, 260]), loguniform(rng, 0.2, 5), loguniform(rng, 1e-4, 0.1), [loguniform(rng, 0.5, 10) for _ in range(nib)]
    return dict(profile=prof, n=n, d=d, base=dict(d=d, ard=ard, ibs=ibs, cs=cs), noise=noise,
                mean=rng.uniform(-1, 1), data_seed=rng.randrange(10 ** 9), t=2)


def find_sigsq(K, noise):
    """sigsq_final chosen by AddJitterOp (bit-exact constant of the documented sequence), or None"""
    from syne_tune.optimizer.schedulers.searchers.bayesopt.gpautograd.custom_op import AddJitterOp, flatten_and_concat
    from syne_tune.optimizer.schedulers.searchers.bayesopt.gpautograd.constants import NOISE_VARIANCE_LOWER_BOUND
    sm = np.asarray(AddJitterOp(flatten_and_concat(K, np.array([noise])), initial_jitter_factor=NOISE_VARIANCE_LOWER_BOUND))
    if np.all(np.diag(sm) == np.diag(K) + noise):
        return noise
    j = NOISE_VARIANCE_LOWER_BOUND * max(1.0, float(np.mean(np.diag(K))))
    for _ in range(16):
        if np.all(np.diag(K) + (noise + j) == np.diag(sm)):
            return noise + j
        j = j * 10.0
    return None


def run_large(ctx, spec):
    import random
    from syne_tune.optimizer.schedulers.searchers.bayesopt.gpautograd.posterior_state import GaussProcPosteriorState
    from syne_tune.optimizer.schedulers.searchers.bayesopt.gpautograd.constants import MIN_POSTERIOR_VARIANCE
    n, d, t, noise = spec["n"], spec["d"], spec["t"], float(spec["noise"])
    drng = random.Random(spec["data_seed"])
    X = np.array([[drng.random() for _ in range(d)] for _ in range(n)])
    Xt = np.array([[drng.random() for _ in range(d)] for _ in range(t)])

    def viol(what, quantity):
        ctx.violation("property", "[large n=%d, %s] %s" % (n, spec["profile"], what), case=dict(kind="gpl", spec=spec),
                      signature=dict(component="gp_posterior", quantity=quantity, large_n=True, profile=spec["profile"]))
    issues = []
    kern, ref = build_matern(spec["base"], "dict", issues)
    for what_, q_ in issues:
        viol(what_, q_)
    meanf, mval = scalar_mean(spec["mean"])
    Y = np.array([[mval + math.sqrt(ref.cs) * drng.gauss(0, 1)] for _ in range(n)])
    state = GaussProcPosteriorState(X, Y, meanf, kern, np.array([noise]))
    nl = float(np.reshape(state.neg_log_likelihood(), (-1,))[0])
    mu, var = state.predict(Xt)
    mu, var = np.asarray(mu).reshape(-1), np.asarray(var).reshape(-1)
    K_impl = np.asarray(kern(X, X))
    sig = find_sigsq(K_impl, noise)
    ctx.h("large_profile", spec["profile"])
    ctx.h("large_n", n)
    ctx.h("large_jitter", sig is not None and sig != noise)
    if sig is None:
        viol("AddJitterOp diagonal is not K_ii + one constant of the documented sequence", "jitter")
        return
    ktol = ref.tol(np.vstack([X, Xt]), np.vstack([X, Xt]))
    A = ref.k(X, X) + sig * np.eye(n)
    Kt = ref.k(X, Xt)
    R = Y - mval
    alpha, beta = np.linalg.solve(A, R), np.linalg.solve(A, Kt)
    sv = np.linalg.svd(A, compute_uv=False)
    cond, ainv = float(sv[0] / sv[-1]), 1.0 / float(sv[-1])
    sign, logdet = np.linalg.slogdet(A)
    nll_r = 0.5 * (float(np.sum(R * alpha)) + logdet + n * math.log(2 * math.pi))
    nrm = lambda a: float(np.linalg.norm(a))   # noqa: E731
    ce = C_TOL * (n + 2) * EPS * cond
    tolN = (ce * (nrm(R) * nrm(alpha) + n * (1 + abs(math.log(max(cond, 1.0))))) + 64 * EPS * abs(nll_r) * n
            + n * ktol * (nrm(alpha) ** 2 + n * ainv))
    ctx.h("large_nlml_tol_useful", bool(tolN < 1e-3 * (abs(nll_r) + n)))
    if not (sign > 0 and math.isfinite(nll_r)):
        return
    if not abs(nl - nll_r) <= tolN:
        viol("negative log marginal likelihood %r deviates from the dense slogdet expression %r (tol %.3g, cond %.3g, "
             "log det = %.6g)" % (nl, nll_r, tolN, cond, logdet), "nlml")
    mean_r = mval + (Kt.T @ alpha).reshape(-1)
    var_r = np.maximum(ref.diag(Xt) - np.sum(Kt * beta, axis=0), MIN_POSTERIOR_VARIANCE)
    tolM = max(ce * (nrm(Kt[:, s_]) * nrm(alpha) + abs(mean_r[s_])) + 2 * ktol * float(np.sum(np.abs(alpha)))
               + 4 * ainv * n * ktol * nrm(Kt[:, s_]) * nrm(alpha) for s_ in range(t))
    tolV = max(ce * (nrm(Kt[:, s_]) * nrm(beta[:, s_]) + ref.cs) + ktol * (1 + 4 * float(np.sum(np.abs(beta[:, s_]))))
               + 4 * ainv * n * ktol * nrm(Kt[:, s_]) * nrm(beta[:, s_]) for s_ in range(t))
    if not np.all(np.abs(mu - mean_r) <= tolM):
        viol("predictive mean deviates from the dense expression by %.3g (tol %.3g)"
             % (float(np.max(np.abs(mu - mean_r))), tolM), "mean")
    if not np.all(np.abs(var - var_r) <= tolV):
        viol("predictive variance deviates from the dense expression by %.3g (tol %.3g)"
             % (float(np.max(np.abs(var - var_r))), tolV), "variance")
    ctx.count(("gpl", spec), nontrivial=bool(tolN < 1e-3 * (abs(nll_r) + n)))


# --------------------------------------------------------------------------
# fit streams on GaussianProcessRegression: first fit, refit on more data, with the optimiser failing in every
# restart (harness-side mock of scipy.optimize.minimize as referenced from optimization_utils): after EVERY fit
# the model's predictions are the dense posterior of the data of THAT fit under model.get_params()
# --------------------------------------------------------------------------
def check_model(ctx, viol, model, X, y, Xt, d, step):
    """model.predict and the state's likelihood = dense posterior of (X, y) under model.get_params()"""
    from syne_tune.optimizer.schedulers.searchers.bayesopt.gpautograd.constants import MIN_POSTERIOR_VARIANCE
    t = len(Xt)
    if model.states is None:
        viol("model.states is None after fit: no usable posterior state", "no_state", step)
        return
    nd = model.states[0].num_data
    if nd != X.shape[0]:
        viol("posterior state is based on %d cases but fit was called with %d cases" % (nd, X.shape[0]),
             "stale_state", step)
    prm = {k_: float(v) for k_, v in model.get_params().items()}
    ibs = [prm["kernel_inv_bw"]] * d if "kernel_inv_bw" in prm else [prm["kernel_inv_bw%d" % i] for i in range(d)]
    ref = RefMatern(ibs, prm["kernel_covariance_scale"])
    mval, noise = prm.get("mean_mean_value", 0.0), prm["noise_variance"]
    (mu, var), = model.predict(Xt.copy())
    mu, var = np.asarray(mu).reshape(-1), np.asarray(var).reshape(-1)
    K_impl = np.asarray(model.likelihood.kernel(X, X))
    nl = float(np.reshape(model.states[0].neg_log_likelihood(), (-1,))[0])
    return dense_compare(ctx, viol, step, X, y, Xt, ref, mval, noise, mu, var, nl, K_impl)


def dense_compare(ctx, viol, step, X, y, Xt, ref, mval, noise, mu, var, nl, K_impl):
    """(mu, var, nl) = dense posterior / likelihood of (X, y) for the Matern reference kernel [ref], mean [mval],
    noise [noise]"""
    from syne_tune.optimizer.schedulers.searchers.bayesopt.gpautograd.constants import MIN_POSTERIOR_VARIANCE
    t = len(Xt)
    sig = find_sigsq(K_impl, noise)
    if sig is None:
        return
    A = ref.k(X, X) + sig * np.eye(len(X))
    Kt = ref.k(X, Xt)
    alpha, beta = np.linalg.solve(A, y.reshape(-1) - mval), np.linalg.solve(A, Kt)
    sv = np.linalg.svd(A, compute_uv=False)
    cond, ainv = float(sv[0] / sv[-1]), 1.0 / float(sv[-1])
    na = len(X)
    ktol = ref.tol(np.vstack([X, Xt]), np.vstack([X, Xt]))
    nrm = lambda a: float(np.linalg.norm(a))   # noqa: E731
    ce = C_TOL * (na + 2) * EPS * cond
    mean_r = mval + Kt.T @ alpha
    var_r = np.maximum(ref.diag(Xt) - np.sum(Kt * beta, axis=0), MIN_POSTERIOR_VARIANCE)
    tolM = max(ce * (nrm(Kt[:, s_]) * nrm(alpha) + abs(mean_r[s_])) + 2 * ktol * float(np.sum(np.abs(alpha)))
               + 4 * ainv * na * ktol * nrm(Kt[:, s_]) * nrm(alpha) for s_ in range(t))
    tolV = max(ce * (nrm(Kt[:, s_]) * nrm(beta[:, s_]) + ref.cs) + ktol * (1 + 4 * float(np.sum(np.abs(beta[:, s_]))))
               + 4 * ainv * na * ktol * nrm(Kt[:, s_]) * nrm(beta[:, s_]) for s_ in range(t))
    sign, logdet = np.linalg.slogdet(A)
    R_ = y.reshape(-1) - mval
    nll_r = 0.5 * (float(np.sum(R_ * alpha)) + logdet + na * math.log(2 * math.pi))
    tolN = (ce * (nrm(R_) * nrm(alpha) + na * (1 + abs(math.log(max(cond, 1.0))))) + 64 * EPS * abs(nll_r) * na
            + na * ktol * (nrm(alpha) ** 2 + na * ainv))
    if sign > 0 and not abs(nl - nll_r) <= tolN:
        viol("the posterior state's negative log likelihood %r differs from the dense expression %r for the current "
             "parameters and data (tol %.3g)" % (nl, nll_r, tolN), "nlml", step)
    result = dict(mu=mu, var=var, tolM=tolM, tolV=tolV, plain_noise=bool(sig == noise), cond=cond)
    ctx.h("fit_tol_useful", bool(tolM < 1e-4 * (1 + float(np.max(np.abs(mean_r))))))
    if mu.shape != mean_r.shape or not np.all(np.abs(mu - mean_r) <= tolM):
        viol("model.predict means differ from the dense posterior of the data of this fit under get_params() by %.3g "
             "(tol %.3g)" % (float(np.max(np.abs(mu - mean_r))) if mu.shape == mean_r.shape else float("nan"), tolM),
             "mean", step)
    if var.shape != var_r.shape or not np.all(np.abs(var - var_r) <= tolV):
        viol("model.predict variances differ from the dense posterior of the data of this fit under get_params() by "
             "%.3g (tol %.3g)" % (float(np.max(np.abs(var - var_r))) if var.shape == var_r.shape else float("nan"), tolV),
             "variance", step)
    return result


def gen_fit(rng, k):
    d = rng.randint(1, 3)
    return dict(d=d, ard=bool(d > 1 and rng.random() < 0.6), nA=rng.randint(3, 7), nB_extra=rng.randint(2, 6),
                t=rng.randint(2, 4), data_seed=rng.randrange(10 ** 9), reset=bool(rng.random() < 0.5),
                first_fails=bool(k % 2 == 0), n_starts=rng.choice([1, 2]))


def _failing_minimize(*args, **kwargs):
    raise FloatingPointError("simulated failure of the L-BFGS line search")


def run_fit(ctx, spec):
    import random
    from unittest import mock
    from syne_tune.optimizer.schedulers.searchers.bayesopt.gpautograd.kernel import Matern52
    from syne_tune.optimizer.schedulers.searchers.bayesopt.gpautograd.gp_regression import GaussianProcessRegression
    from syne_tune.optimizer.schedulers.searchers.bayesopt.gpautograd.constants import (
        OptimizationConfig, MIN_POSTERIOR_VARIANCE)
    from syne_tune.optimizer.schedulers.searchers.bayesopt.gpautograd import optimization_utils
    d, nA, nB, t = spec["d"], spec["nA"], spec["nA"] + spec["nB_extra"], spec["t"]
    drng = random.Random(spec["data_seed"])
    XB = np.array([[drng.random() for _ in range(d)] for _ in range(nB)])
    yB = np.array([[math.sin(4.0 * XB[i, 0]) + 0.3 * drng.gauss(0, 1) + 0.5] for i in range(nB)])
    XA, yA = XB[:nA].copy(), yB[:nA].copy()
    Xt = np.array([[drng.random() for _ in range(d)] for _ in range(t)])

    def viol(what, quantity, step):
        ctx.violation("property", "[fit stream, step '%s'] %s" % (step, what), case=dict(kind="gpf", spec=spec),
                      signature=dict(component="gp_model_fit", quantity=quantity, step=step,
                                     fit_reset_params=spec["reset"]))

    def check(model, X, y, step):
        check_model(ctx, viol, model, X, y, Xt, d, step)

    config = OptimizationConfig(lbfgs_tol=1e-6, lbfgs_maxiter=15, verbose=False, n_starts=spec["n_starts"])
    model = GaussianProcessRegression(kernel=Matern52(dimension=d, ARD=spec["ard"]), optimization_config=config,
                                      random_seed=spec["data_seed"] % 1000, fit_reset_params=spec["reset"])
    failing = mock.patch.object(optimization_utils.optimize, "minimize", side_effect=_failing_minimize)
    ctx.h("fit_stream", "first_fit_fails" if spec["first_fails"] else "first_fit_ok")
    if spec["first_fails"]:
        with failing:
            model.fit({"features": XA.copy(), "targets": yA.copy()})
        check(model, XA, yA, "first fit, every restart fails")
    else:
        model.fit({"features": XA.copy(), "targets": yA.copy()})
        check(model, XA, yA, "first fit")
    with mock.patch.object(optimization_utils.optimize, "minimize", side_effect=_failing_minimize):
        model.fit({"features": XB.copy(), "targets": yB.copy()})
    check(model, XB, yB, "refit on more data, every restart fails")
    model.fit({"features": XB.copy(), "targets": yB.copy()})
    check(model, XB, yB, "refit, optimiser works")
    ctx.count(("gpf", spec), nontrivial=True)


# --------------------------------------------------------------------------
# operation sequences on GaussianProcessRegression: after every step that (re)computes the posterior state
# (fit, recompute_states) predictions and the state's likelihood are the dense posterior for model.get_params()
# and the CURRENT contents of the data dict. (After set_params / reset_params alone the state is stale by
# contract: the caller has to call recompute_states, which is the next checked step.)
# --------------------------------------------------------------------------
SEQ_OPS = ["set_params", "reset_params", "recompute_same", "recompute_fresh", "grow_recompute", "fit", "fit_fail"]


def gen_seq(rng, k):
    d = rng.randint(1, 3)
    ard = bool(d > 1 and rng.random() < 0.6)

    def params():
        prm = dict(noise_variance=loguniform(rng, 1e-4, 1.0), kernel_covariance_scale=loguniform(rng, 0.2, 5),
                   mean_mean_value=rng.uniform(-1, 1))
        if rng.random() < 0.25:
            prm["kernel_covariance_scale"] = at_bound(rng, 1e-3)
        if rng.random() < 0.15:
            prm["noise_variance"] = at_bound(rng, 1e-9)
        if ard:
            prm.update({"kernel_inv_bw%d" % i: loguniform(rng, 0.2, 5) for i in range(d)})
        else:
            prm["kernel_inv_bw"] = loguniform(rng, 0.2, 5)
        return prm
    ops = [dict(op=rng.choice(["fit", "recompute_fresh", "recompute_same"]))]
    for _ in range(rng.randint(4, 8)):
        op = rng.choice(SEQ_OPS + ["set_params", "recompute_same", "recompute_same"])
        o = dict(op=op)
        if op == "set_params":
            o["params"] = params()
        if op == "grow_recompute":
            o["extra"] = rng.randint(1, 3)
        ops.append(o)
        if op in ("set_params", "reset_params") and rng.random() < 0.7:
            ops.append(dict(op=rng.choice(["recompute_same", "recompute_same", "recompute_fresh"])))
    return dict(d=d, ard=ard, n0=rng.randint(3, 6), t=rng.randint(2, 3), data_seed=rng.randrange(10 ** 9), ops=ops,
                reset=bool(rng.random() < 0.5))


def run_seq(ctx, spec, sq_cases=None, sq_meta=None):
    import random
    from unittest import mock
    from syne_tune.optimizer.schedulers.searchers.bayesopt.gpautograd.kernel import Matern52
    from syne_tune.optimizer.schedulers.searchers.bayesopt.gpautograd.gp_regression import GaussianProcessRegression
    from syne_tune.optimizer.schedulers.searchers.bayesopt.gpautograd.constants import OptimizationConfig
    from syne_tune.optimizer.schedulers.searchers.bayesopt.gpautograd import optimization_utils
    d, t = spec["d"], spec["t"]
    drng = random.Random(spec["data_seed"])

    def rows(k_):
        Xn = np.array([[drng.random() for _ in range(d)] for _ in range(k_)])
        yn = np.array([[math.sin(4.0 * Xn[i, 0]) + 0.3 * drng.gauss(0, 1) + 0.5] for i in range(k_)])
        return Xn, yn
    X, y = rows(spec["n0"])
    Xt = np.array([[drng.random() for _ in range(d)] for _ in range(t)])
    config = OptimizationConfig(lbfgs_tol=1e-6, lbfgs_maxiter=10, verbose=False, n_starts=1)
    model = GaussianProcessRegression(kernel=Matern52(dimension=d, ARD=spec["ard"]), optimization_config=config,
                                      random_seed=spec["data_seed"] % 1000, fit_reset_params=spec["reset"])
    data = {"features": X.copy(), "targets": y.copy()}
    history = []

    def viol(what, quantity, step):
        ctx.violation("property", "[model sequence %s, step %s] %s" % (history, step, what),
                      case=dict(kind="gps", spec=spec),
                      signature=dict(component="gp_model_recompute", quantity=quantity, step=step.split("#")[0],
                                     after=history[-2] if len(history) > 1 else None))
    def gparams():
        prm = {k_: float(v) for k_, v in model.get_params().items()}
        ibs = [prm["kernel_inv_bw"]] * d if "kernel_inv_bw" in prm else [prm["kernel_inv_bw%d" % i_] for i_ in range(d)]
        return "(mkGP NumF %s %s %s %s)" % (_fvec(ibs), _fl(prm["kernel_covariance_scale"]),
                                            _fl(prm.get("mean_mean_value", 0.0)), _fl(prm["noise_variance"]))

    def gdata():
        return "(mkGD NumF %s %s)" % (_fmat(data["features"]), _fvec(np.asarray(data["targets"]).reshape(-1)))
    p0, steps, coq_ok = gparams(), [], True
    for i, o in enumerate(spec["ops"]):
        op = o["op"]
        history.append(op)
        ctx.h("model_seq_op", op)
        if op == "set_params":
            prm = model.get_params()
            prm.update(o["params"])
            model.set_params(prm)
            back = model.get_params()
            bad_ = [k_ for k_, v in o["params"].items()
                    if not abs(float(back[k_]) - float(v)) <= 16 * EPS * max(abs(float(v)), 1e-300)]
            if bad_:
                viol("set_params(%s) reads back as %s" % ({k_: o["params"][k_] for k_ in bad_[:3]},
                                                          {k_: float(back[k_]) for k_ in bad_[:3]}),
                     "param_roundtrip", "set_params#%d" % i)
            steps.append("(GSet NumF %s, None)" % gparams())
            continue
        if op == "reset_params":
            model.reset_params()
            steps.append("(GReset NumF %s, None)" % gparams())
            continue
        if op == "recompute_same":
            model.recompute_states(data)
        elif op == "recompute_fresh":
            data = {"features": data["features"].copy(), "targets": data["targets"].copy()}
            model.recompute_states(data)
        elif op == "grow_recompute":
            Xn, yn = rows(o["extra"])
            data["features"] = np.vstack([data["features"], Xn])      # the SAME dict object, grown in place
            data["targets"] = np.vstack([data["targets"], yn])
            model.recompute_states(data)
        elif op == "fit":
            model.fit(data)
        else:
            with mock.patch.object(optimization_utils.optimize, "minimize", side_effect=_failing_minimize):
                model.fit(data)
        res = check_model(ctx, viol, model, np.asarray(data["features"]), np.asarray(data["targets"]), Xt, d,
                          "%s#%d" % (op, i))
        if op in ("fit", "fit_fail"):
            term = "GFit NumF %s %s %s" % (gdata(), gparams(), "None" if op == "fit_fail" else "(Some %s)" % gparams())
        else:
            term = "GRecompute NumF %s" % gdata()
        if res is None or not res["plain_noise"] or not C_TOL * 16 * EPS * res["cond"] < 0.1:
            coq_ok = False
            steps.append("(%s, None)" % term)
        else:
            steps.append("(%s, Some (%s, %s, %s, %s))" % (term, _fmat(res["mu"].reshape(-1, 1)), _fvec(res["var"]),
                                                        _fl(4 * res["tolM"]), _fl(4 * res["tolV"])))
    if sq_cases is not None and coq_ok:
        from syne_tune.optimizer.schedulers.searchers.bayesopt.gpautograd.constants import MIN_POSTERIOR_VARIANCE
        sq_cases.append("(%s, %s, %s, %s, [%s])" % (_fl(JITTER), _fl(MIN_POSTERIOR_VARIANCE), p0, _fmat(Xt),
                                                   "; ".join(steps)))
        sq_meta.append(dict(kind="gps", spec=spec))
    ctx.count(("gps", spec), nontrivial=any(a_["op"] in ("set_params", "reset_params", "grow_recompute")
                                            for a_ in spec["ops"]))


# --------------------------------------------------------------------------
# the MCMC variant of the surrogate (gpr_mcmc.GPRegressionMCMC): one posterior state per retained
# hyper-parameter sample; EVERY state must be the dense GP posterior for ITS OWN sample (predict,
# neg_log_likelihood, and the parameters its kernel / mean report), after fit and after recompute_states
# --------------------------------------------------------------------------
def gen_mcmc(rng, k):
    return dict(d=rng.randint(1, 2), n=rng.randint(5, 8), extra=rng.randint(1, 3), t=rng.randint(2, 4),
                data_seed=rng.randrange(10 ** 9), n_samples=rng.choice([12, 14]), n_burnin=6, n_thinning=2)


def run_mcmc(ctx, spec, mc_cases=None, mc_meta=None):
    import random
    from syne_tune.optimizer.schedulers.searchers.bayesopt.gpautograd.constants import MCMCConfig
    from syne_tune.optimizer.schedulers.searchers.bayesopt.gpautograd.gpr_mcmc import GPRegressionMCMC
    from syne_tune.optimizer.schedulers.searchers.bayesopt.gpautograd.kernel import Matern52
    d, n, t = spec["d"], spec["n"], spec["t"]
    drng = random.Random(spec["data_seed"])

    def rows(k_):
        Xn = np.array([[drng.random() for _ in range(d)] for _ in range(k_)])
        yn = np.array([[math.sin(3.0 * Xn[i, 0]) + 0.05 * drng.gauss(0, 1) + 0.7] for i in range(k_)])
        return Xn, yn
    X, y = rows(n)
    Xt = np.array([[drng.random() for _ in range(d)] for _ in range(t)])

    def viol(what, quantity, step):
        ctx.violation("property", "[MCMC surrogate, %s] %s" % (step, what), case=dict(kind="gpm", spec=spec),
                      signature=dict(component="gp_mcmc_states", quantity=quantity, step=step.split(" state")[0]))
    model = GPRegressionMCMC(build_kernel=lambda: Matern52(dimension=d, ARD=True),
                             mcmc_config=MCMCConfig(n_samples=spec["n_samples"], n_burnin=spec["n_burnin"],
                                                    n_thinning=spec["n_thinning"]),
                             random_seed=spec["data_seed"] % 1000)

    def decode(sample):
        out, pos = dict(), 0
        for param, encoding in model.likelihood.param_encoding_pairs():
            vals = np.array(sample[pos:pos + encoding.dimension], dtype=float)
            pos += encoding.dimension
            for key in ("noise_variance", "covariance_scale", "inverse_bandwidths", "mean_value"):
                if key in param.name:
                    out[key] = vals
        return out

    def check_all(Xc, yc, step):
        samples, states = model.samples, model.states
        if states is None or len(states) != len(samples):
            viol("%s states for %d retained samples" % (None if states is None else len(states), len(samples)),
                 "state_count", step)
            return
        distinct = any(not np.allclose(samples[0], s_, rtol=1e-6) for s_ in samples[1:])
        ctx.h("mcmc_samples_distinct", distinct)
        preds = model.predict(Xt.copy())
        gps, obs, coq_ok = [], [], True
        for i, (sample, state) in enumerate(zip(samples, states)):
            hp = decode(sample)
            ibs = [float(v) for v in hp["inverse_bandwidths"]]
            ref = RefMatern(ibs if len(ibs) == d else [ibs[0]] * d, float(hp["covariance_scale"][0]))
            mval, noise = float(hp["mean_value"][0]), float(hp["noise_variance"][0])
            st = "%s state %d of %d" % (step, i, len(states))
            mu, var = state.predict(Xt.copy())
            mu, var = np.asarray(mu).reshape(-1), np.asarray(var).reshape(-1)
            nl = float(np.reshape(state.neg_log_likelihood(), (-1,))[0])
            res = dense_compare(ctx, viol, st, Xc, yc, Xt, ref, mval, noise, mu, var, nl, ref.k(Xc, Xc))
            gps.append("(mkGP NumF %s %s %s %s)" % (_fvec(ref.ib), _fl(ref.cs), _fl(mval), _fl(noise)))
            if res is None or not res["plain_noise"] or not C_TOL * 16 * EPS * res["cond"] < 0.1:
                coq_ok = False
            else:
                obs.append("(%s, %s, %s, %s)" % (_fmat(mu.reshape(-1, 1)), _fvec(var), _fl(4 * res["tolM"]), _fl(4 * res["tolV"])))
            pm, pv = preds[i]
            if not (np.array_equal(np.asarray(pm).reshape(-1), mu) and np.array_equal(np.asarray(pv).reshape(-1), var)):
                viol("model.predict()[%d] differs from states[%d].predict" % (i, i), "predict_list", st)
            kp = state.kernel.get_params()
            got_ib = [float(kp["inv_bw%d" % j]) for j in range(d)] if d > 1 else [float(kp["inv_bw"])]
            if not (np.allclose(got_ib, ref.ib, rtol=1e-9) and abs(float(kp["covariance_scale"]) - ref.cs) <= 1e-9 * ref.cs):
                viol("the kernel of state %d reports parameters %s, its hyper-parameter sample is %s"
                     % (i, got_ib + [float(kp["covariance_scale"])], list(ref.ib) + [ref.cs]), "state_params", st)
        if mc_cases is not None and coq_ok:
            from syne_tune.optimizer.schedulers.searchers.bayesopt.gpautograd.constants import MIN_POSTERIOR_VARIANCE
            mc_cases.append("(%s, %s, [%s], (mkGD NumF %s %s), %s, [%s])" % (
                _fl(JITTER), _fl(MIN_POSTERIOR_VARIANCE), "; ".join(gps), _fmat(Xc), _fvec(np.asarray(yc).reshape(-1)),
                _fmat(Xt), "; ".join(obs)))
            mc_meta.append(dict(kind="gpm", spec=spec))
    model.fit({"features": X.copy(), "targets": y.copy()})
    check_all(X, y, "fit")
    Xn, yn = rows(spec["extra"])
    X2, y2 = np.vstack([X, Xn]), np.vstack([y, yn])
    model.recompute_states({"features": X2.copy(), "targets": y2.copy()})
    check_all(X2, y2, "recompute_states")
    ctx.count(("gpm", spec), nontrivial=True)
