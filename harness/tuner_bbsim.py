"""C01 stream (e): whole ``Tuner.run()`` on the BLACKBOX simulator backend (``UserBlackboxBackend`` over a small
``BlackboxTabular``; ``yahpo_gym`` stubbed as absent like harness/sim_helpers.py does) with REAL schedulers, in
particular promotion-type Hyperband with ``max_resource_attr`` (the job of a trial is limited to its next rung level
and ends by itself there), every one of the five ``SimulatorConfig`` delays drawn from {0, 0.05, 0.5, 3.0}
independently (so the completion of a job may be registered later than its final report, or earlier than a stop
takes effect), 1..3 workers. Real time outside the backend is a scripted fake (``time`` inside
simulator_backend.time_keeper), so a run is deterministic.

Independent checker (``check_bbsim``): the backend's status of a trial against what the scheduler was told
  * at every ``resume_trial`` call the backend's record of the trial says paused (only a paused trial is resumed);
  * at the end of every loop iteration every trial the scheduler answered PAUSE for (and has not resumed since) is
    paused in the backend: it moved reporting -> paused and nothing else happens to it;
  * at most n_workers trials are in_progress in the backend at the end of every iteration;
  * the run does not end with an exception.
The backend status is read from ``backend._trial_dict[trial_id].status`` (the record TrialBackend.resume_trial
asserts on); nothing is written. No model comparison here (event queue: C10 / model/Sim.v)."""
import contextlib
import io
import logging
import os
import random
import tempfile
import traceback
from unittest import mock

DELAY_VALUES = [0.0, 0.05, 0.5, 3.0]
DELAY_NAMES = ["delay_on_trial_result", "delay_complete_after_final_report", "delay_complete_after_stop",
               "delay_start", "delay_stop"]


class _Outside:
    def __init__(self, dts):
        self.now, self.dts, self.i = 1000.0, dts, 0

    def time(self):
        if self.i < len(self.dts):
            self.now += self.dts[self.i]
        self.i += 1
        return self.now


def gen_bbsim_case(rng):
    nx, ny = rng.choice([(2, 2), (3, 2), (2, 3), (4, 2), (3, 3)])   # full grid: every sampled (x, y) is in the table
    n_cfg = nx * ny
    max_epochs = rng.choice([3, 4, 4, 6, 8, 9])
    table = []
    for x in range(n_cfg):
        per = rng.choice([0.5, 1.0, 2.0, 10.0])
        rows, t = [], 0.0
        for e in range(1, max_epochs + 1):
            t += per * rng.choice([1.0, 1.0, 0.5, 2.0])
            rows.append([rng.randint(0, 400) / 400.0 + 1.0 / e, t])
        table.append(rows)
    sched = rng.choice(["promotion", "promotion", "promotion", "pasha", "stopping", "fifo"])
    mra = sched in ("promotion", "pasha") and rng.random() < 0.7
    if rng.random() < 0.3:
        delays = {k: 0.05 for k in DELAY_NAMES}   # the defaults
    else:
        delays = {k: rng.choice(DELAY_VALUES) for k in DELAY_NAMES}
        # SimulatorConfig requires delay_on_trial_result <= delay_complete_after_final_report
        delays["delay_complete_after_final_report"] = rng.choice(
            [v for v in DELAY_VALUES if v >= delays["delay_on_trial_result"]])
    crit = rng.choice([dict(max_num_trials_started=rng.randint(2, 8)), dict(max_num_trials_started=rng.randint(2, 8)),
                       dict(max_wallclock_time=float(rng.choice([5, 20, 60, 200]))),
                       dict(max_num_trials_finished=rng.randint(1, 5))])
    sleep = rng.choice([0.05, 0.1, 1.0, 1.0])
    if max(rows[-1][1] for rows in table) / sleep > 300:
        sleep = 1.0          # long jobs: keep the number of loop iterations of a run moderate
    return dict(kind="bbsim", nx=nx, ny=ny, table=table, scheduler=sched, mra=mra, rf=rng.choice([2, 2, 3]),
                grace=rng.choice([1, 1, 2]) if max_epochs > 3 else 1, sched_seed=rng.randrange(1000),
                points=rng.random() < 0.6, delays=delays, sleep=sleep,
                n_workers=rng.choice([1, 1, 1, 2, 3]), criterion=crit, wait=rng.random() < 0.3,
                dts=[rng.choice([0.0, 0.0, 0.0, 0.125, 0.5]) for _ in range(rng.choice([0, 40, 400]))])


def run_bbsim_case(case, hard_limit=1500):
    import sim_helpers
    m = sim_helpers.import_backend()      # marks yahpo_gym as absent, imports the backend quietly
    np, pd = m["np"], m["pd"]
    from syne_tune import Tuner, StoppingCriterion
    from syne_tune.backend.simulator_backend.simulator_callback import SimulatorCallback
    from syne_tune.backend.trial_status import Status
    from syne_tune.optimizer.scheduler import SchedulerDecision
    from syne_tune.optimizer.schedulers.hyperband import HyperbandScheduler
    from syne_tune.optimizer.schedulers.fifo import FIFOScheduler
    from syne_tune.tuner_callback import TunerCallback
    import syne_tune.backend.simulator_backend.time_keeper as time_keeper_module

    table = case["table"]
    n_cfg, max_epochs, nx, ny = len(table), len(table[0]), case["nx"], case["ny"]
    ev = np.zeros((n_cfg, 1, max_epochs, 2))
    for x, rows in enumerate(table):
        for e, (loss, t) in enumerate(rows):
            ev[x, 0, e, 0], ev[x, 0, e, 1] = loss, t
    blackbox = m["BlackboxTabular"](
        hyperparameters=pd.DataFrame({"x": [c // ny for c in range(n_cfg)], "y": [c % ny for c in range(n_cfg)]}),
        configuration_space={"x": m["randint"](0, nx - 1), "y": m["randint"](0, ny - 1)},
        fidelity_space={"epoch": m["randint"](1, max_epochs)},
        objectives_evaluations=ev, objectives_names=["loss", "elapsed_time"])
    config_space = {"x": m["randint"](0, nx - 1), "y": m["randint"](0, ny - 1)}
    mattr = "epochs" if case["mra"] else None
    if mattr:
        config_space[mattr] = max_epochs

    class AbortRun(Exception):
        pass

    class Monitor(TunerCallback):
        def __init__(self):
            self.paused, self.problems, self.resumes, self.pauses, self.iterations = set(), [], [], 0, 0
            self.backend, self.events = None, []

        def on_tuning_start(self, tuner):
            self.backend = backend = tuner.trial_backend
            orig, mon = backend.resume_trial, self

            def resume_trial(trial_id, new_config=None):
                status = backend._trial_dict[trial_id].status
                mon.resumes.append([trial_id, status])
                mon.events.append(["resume", trial_id, status, backend.time_keeper.time()])
                if status != Status.paused and trial_id in mon.paused:
                    mon.problems.append((
                        "resume_trial(%d) at simulated time %.2f: the scheduler was told the trial is paused (its last "
                        "answer for it was PAUSE) but the backend's status of the trial is '%s'; only a paused trial may "
                        "be resumed" % (trial_id, backend.time_keeper.time(), status),
                        dict(check="lifecycle", event="resume_of_non_paused_trial", status=str(status))))
                mon.paused.discard(trial_id)
                return orig(trial_id=trial_id, new_config=new_config)

            backend.resume_trial = resume_trial

        def on_trial_result(self, trial, status, result, decision):
            self.events.append(["result", trial.trial_id, status, int(result.get("epoch", -1)), decision])
            if decision == SchedulerDecision.PAUSE:
                self.paused.add(trial.trial_id)
                self.pauses += 1

        def on_loop_end(self):
            self.iterations += 1
            now = self.backend.time_keeper.time()
            for t in sorted(self.paused):
                status = self.backend._trial_dict[t].status
                if status != Status.paused:
                    self.problems.append((
                        "end of iteration %d, simulated time %.2f: trial %d was paused by the scheduler and has not been "
                        "resumed, but its status in the backend is '%s' (a paused trial stays paused until resumed)"
                        % (self.iterations, now, t, status),
                        dict(check="lifecycle", event="paused_trial_changed_status", status=str(status))))
                    self.paused.discard(t)
            busy = [t for t, tr in self.backend._trial_dict.items() if getattr(tr, "status", None) == Status.in_progress]
            if len(busy) > case["n_workers"]:
                self.problems.append((
                    "end of iteration %d: %d trials are in_progress in the backend with n_workers=%d"
                    % (self.iterations, len(busy), case["n_workers"]),
                    dict(check="budget", event="more_in_progress_than_workers")))
            if self.iterations > hard_limit:
                raise AbortRun()

    outcome, mon = ["normal"], Monitor()
    old_folder = os.environ.get("SYNETUNE_FOLDER")
    logging.disable(logging.CRITICAL)
    try:
        with tempfile.TemporaryDirectory(prefix="verif-bbsim-") as tmp, \
                mock.patch.object(time_keeper_module, "time", _Outside(case["dts"])), \
                contextlib.redirect_stdout(io.StringIO()), contextlib.redirect_stderr(io.StringIO()):
            os.environ["SYNETUNE_FOLDER"] = tmp
            points = [{"x": c // ny, "y": c % ny} for c in range(n_cfg)] if case["points"] else None
            if case["scheduler"] == "fifo":
                scheduler = FIFOScheduler(config_space, searcher="random", metric="loss", mode="min",
                                          random_seed=case["sched_seed"], points_to_evaluate=points)
            else:
                kw = dict(max_resource_attr=mattr) if mattr else dict(max_t=max_epochs)
                scheduler = HyperbandScheduler(config_space, searcher="random", type=case["scheduler"], metric="loss",
                                               mode="min", resource_attr="epoch", grace_period=case["grace"],
                                               reduction_factor=case["rf"], random_seed=case["sched_seed"],
                                               points_to_evaluate=points, **kw)
            backend = m["UserBlackboxBackend"](
                blackbox=blackbox, elapsed_time_attr="elapsed_time", max_resource_attr=mattr,
                simulator_config=m["SimulatorConfig"](**case["delays"]), tuner_sleep_time=case["sleep"])
            tuner = Tuner(trial_backend=backend, scheduler=scheduler, stop_criterion=StoppingCriterion(**case["criterion"]),
                          n_workers=case["n_workers"], sleep_time=0, callbacks=[SimulatorCallback(), mon],
                          wait_trial_completion_when_stopping=case["wait"], save_tuner=False, tuner_name="verif-bbsim",
                          suffix_tuner_name=False, print_update_interval=3600)
            try:
                tuner.run()
            except AbortRun:
                outcome = ["aborted"]
            except Exception as e:
                where = os.path.basename(traceback.extract_tb(e.__traceback__)[-1].filename)
                outcome = ["exception", type(e).__name__, where, str(e)[:200]]
    finally:
        logging.disable(logging.NOTSET)
        if old_folder is None:
            os.environ.pop("SYNETUNE_FOLDER", None)
        else:
            os.environ["SYNETUNE_FOLDER"] = old_folder
    return dict(outcome=outcome, problems=mon.problems, resumes=[[t, str(s)] for t, s in mon.resumes],
                pauses=mon.pauses, iterations=mon.iterations)


def check_bbsim(case, out):
    problems = list(out["problems"][:1])
    if out["outcome"][0] == "exception" and not problems:
        problems.append(("Tuner.run() on the blackbox simulator backend ended with %s in %s: %s"
                         % (out["outcome"][1], out["outcome"][2], out["outcome"][3]),
                         dict(check="lifecycle", event="run_raised", exception=out["outcome"][1], where=out["outcome"][2])))
    return problems


def run_bbsim(ctx, replay_cases):
    cases = replay_cases if replay_cases is not None else [gen_bbsim_case(ctx.rng) for _ in range(ctx.n(90, 3000))]
    for case in cases:
        out = run_bbsim_case(case)
        ctx.count(case, nontrivial=out["pauses"] > 0 and len(out["resumes"]) > 0)
        ctx.traces_validated += 1
        ctx.h("bbsim_scheduler", case["scheduler"] + ("+max_resource_attr" if case["mra"] else ""))
        ctx.h("bbsim_outcome", out["outcome"][0])
        ctx.h("bbsim_delays", "default" if all(v == 0.05 for v in case["delays"].values()) else
              ("complete>result" if case["delays"]["delay_complete_after_final_report"] > case["delays"]["delay_on_trial_result"]
               else "complete<=result"))
        ctx.h("bbsim_resumes", "none" if not out["resumes"] else "some")
        if out["outcome"][0] == "aborted":
            ctx.notes.append("a blackbox-simulator run exceeded the hard iteration limit and was dropped")
        for what, sig in check_bbsim(case, out):
            ctx.violation("property", "[blackbox simulator backend, %s%s] %s" % (
                case["scheduler"], ", max_resource_attr" if case["mra"] else "", what), case=case,
                signature=dict(sig, backend="blackbox_simulator", scheduler=case["scheduler"], max_resource_attr=case["mra"]))
