"""Shared machinery for the /verif checks (see DESIGN.md sections 2, 3).

A check = (1) proof step: build the Coq development needed by props/<ID>.v,
re-check the property file and read `Print Assumptions`; (2) correspondence
step: the property's driver runs the real implementation from /repo and the
executable Gallina model (evaluated by `coqc` with vm_compute) on the same
cases; (3) verdict, replay files, known-findings matching, evidence.
"""
import fcntl
import hashlib
import importlib
import json
import os
import random
import re
import subprocess
import sys
import time
from concurrent.futures import ThreadPoolExecutor
from fractions import Fraction

VERIF = os.path.dirname(os.path.dirname(os.path.abspath(__file__)))
COQ = os.path.join(VERIF, "coq")
BUILD = os.path.join(VERIF, "build")
REPO = os.environ.get("VERIF_REPO", "/repo")
COQ_FLAGS = ["-R", COQ, "Verif"]

FORBIDDEN = [
    r"\bAdmitted\b", r"\badmit\b", r"\bAxiom\b", r"\bAxioms\b", r"\bParameter\b", r"\bParameters\b",
    r"\bConjecture\b", r"\bUnset\s+Guard", r"bypass_check", r"\bAdmit\s+Obligations\b",
    r"type-in-type", r"impredicative-set", r"\bUnset\s+Universe\s+Checking", r"\bUnset\s+Positivity",
    r"\bgive_up\b", r"\bnative_compute\b",
]


# --------------------------------------------------------------------------
# Coq literals
# --------------------------------------------------------------------------
def q(x):
    """Exact rational literal of a Python number (floats via as_integer_ratio)."""
    if isinstance(x, bool):
        x = int(x)
    f = Fraction(x)
    return "(%s # %d)" % (zl(f.numerator), f.denominator)


def zl(i):
    i = int(i)
    return "(%d)" % i if i < 0 else "%d" % i


def zlit(i):
    return "(%d)%%Z" % int(i)


def natlit(i):
    assert 0 <= int(i) < 5000, "nat literal too large: %r" % (i,)
    return "%d%%nat" % int(i)


def blit(b):
    return "true" if b else "false"


def lst(items):
    return "[" + "; ".join(items) + "]"


def qlist(xs):
    return "(" + lst([q(x) for x in xs]) + ")%Q"


def optlit(x, f):
    return "None" if x is None else "(Some %s)" % f(x)


# --------------------------------------------------------------------------
# source gate
# --------------------------------------------------------------------------
def strip_coq_comments(s):
    """removes (nested) comments; string literals outside comments are blanked"""
    out, depth, i, n = [], 0, 0, len(s)
    while i < n:
        if depth == 0 and s[i] == '"':
            j = i + 1
            while j < n:
                if s[j] == '"':
                    if j + 1 < n and s[j + 1] == '"':
                        j += 2
                        continue
                    break
                j += 1
            out.append('""')
            out.append("\n" * s.count("\n", i, j))
            i = j + 1
        elif s.startswith("(*", i):
            depth += 1
            i += 2
        elif s.startswith("*)", i) and depth > 0:
            depth -= 1
            i += 2
        else:
            if depth == 0:
                out.append(s[i])
            elif s[i] == "\n":
                out.append("\n")
            i += 1
    return "".join(out)


def coq_sources():
    res = []
    for sub in ("model", "proofs", "props", "gen"):
        d = os.path.join(COQ, sub)
        if os.path.isdir(d):
            for f in sorted(os.listdir(d)):
                if f.endswith(".v"):
                    res.append(os.path.join(sub, f))
    return res


def gate_sources():
    """Returns list of 'file:line: token' for forbidden constructs (outside comments);
    also Variable/Hypothesis/Context outside any Section."""
    bad = []
    for rel in coq_sources():
        txt = strip_coq_comments(open(os.path.join(COQ, rel)).read())
        depth = 0
        for ln, line in enumerate(txt.split("\n"), 1):
            for pat in FORBIDDEN:
                if re.search(pat, line):
                    bad.append("%s:%d: %s" % (rel, ln, pat))
            if re.match(r"\s*(Section|Module)\s+\w+", line) and not re.search(r":=", line):
                depth += 1
            elif re.match(r"\s*End\s+\w+\s*\.", line):
                depth = max(0, depth - 1)
            elif depth == 0 and re.match(r"\s*(Variable|Variables|Hypothesis|Hypotheses|Context)\b", line):
                bad.append("%s:%d: %s outside Section" % (rel, ln, line.strip()[:40]))
    return bad


# --------------------------------------------------------------------------
# build
# --------------------------------------------------------------------------
class BuildLock:
    """Exclusive lock on the shared Coq build tree (generated facts, make, re-check of a props file).
    Re-entrant inside one process (main thread only uses it)."""
    _depth = 0
    _f = None

    def __enter__(self):
        if BuildLock._depth == 0:
            os.makedirs(BUILD, exist_ok=True)
            BuildLock._f = open(os.path.join(BUILD, ".lock"), "w")
            fcntl.flock(BuildLock._f, fcntl.LOCK_EX)
        BuildLock._depth += 1
        return self

    def __exit__(self, *a):
        BuildLock._depth -= 1
        if BuildLock._depth == 0:
            fcntl.flock(BuildLock._f, fcntl.LOCK_UN)
            BuildLock._f.close()
            BuildLock._f = None


def ensure_makefile():
    proj = "-R . Verif\n" + "\n".join(coq_sources()) + "\n"
    pf = os.path.join(COQ, "_CoqProject")
    old = open(pf).read() if os.path.exists(pf) else None
    if old != proj or not os.path.exists(os.path.join(COQ, "Makefile")):
        open(pf, "w").write(proj)
        subprocess.run(["coq_makefile", "-f", "_CoqProject", "-o", "Makefile"], cwd=COQ, check=True,
                       stdout=subprocess.DEVNULL, stderr=subprocess.DEVNULL)


def make_target(target, jobs=8, timeout=1500):
    """Full .vo build of one target (and what it depends on). Returns (ok, log, cmd)."""
    cmd = ["make", "-j%d" % jobs, target]
    with BuildLock():
        ensure_makefile()
        try:
            p = subprocess.run(["timeout", str(timeout)] + cmd, cwd=COQ, stdout=subprocess.PIPE,
                               stderr=subprocess.STDOUT, text=True)
            return p.returncode == 0, p.stdout, "cd coq && " + " ".join(cmd)
        except Exception as e:  # pragma: no cover
            return False, repr(e), " ".join(cmd)


def check_props_file(prop_file_rel, timeout=600):
    """Re-run coqc on the property file (its dependencies are built) and parse
    `Print Assumptions`. Returns (ok, theorems:[(name, axioms:list[str])], log, cmd)."""
    src = open(os.path.join(COQ, prop_file_rel)).read()
    code = strip_coq_comments(src)
    thms = re.findall(r"^\s*(?:Theorem|Corollary)\s+(\w+)", code, re.M)
    printed = re.findall(r"^\s*Print\s+Assumptions\s+(\w+)\s*\.", code, re.M)
    os.makedirs(os.path.join(BUILD, "props"), exist_ok=True)
    out_vo = os.path.join(BUILD, "props", os.path.basename(prop_file_rel) + "o")
    cmd = ["coqc"] + COQ_FLAGS + ["-o", out_vo, os.path.join(COQ, prop_file_rel)]
    p = subprocess.run(["timeout", str(timeout)] + cmd, cwd=COQ, stdout=subprocess.PIPE,
                       stderr=subprocess.STDOUT, text=True)
    log = p.stdout
    if p.returncode != 0:
        return False, [(t, ["<coqc failed>"]) for t in thms], log, " ".join(cmd)
    # split the output into one block per Print Assumptions
    blocks, cur = [], None
    for line in log.split("\n"):
        if line.startswith("Closed under the global context"):
            blocks.append([])
            cur = None
        elif line.startswith("Axioms:"):
            cur = []
            blocks.append(cur)
        elif cur is not None and line and not line.startswith(" ") and re.match(r"[\w.']+\s*:", line):
            cur.append(line.split(":")[0].strip())
        elif cur is not None and re.match(r"^[\w.']+$", line.strip()) and not line.startswith(" "):
            cur.append(line.strip())
    res = []
    ok = True
    amap = dict(zip(printed, blocks)) if len(blocks) == len(printed) else None
    for t in thms:
        if amap is None or t not in amap:
            res.append((t, ["<no Print Assumptions output>"]))
            ok = False
        else:
            res.append((t, amap[t]))
    return ok, res, log, " ".join(cmd)


# --------------------------------------------------------------------------
# evaluating the model inside Coq
# --------------------------------------------------------------------------
_CASE_DIR = None
_CASE_LOCK = __import__("threading").Lock()


def _case_dir():
    """per-process scratch directory (two checks of one property may run concurrently)"""
    global _CASE_DIR
    with _CASE_LOCK:
        if _CASE_DIR is None:
            import atexit
            import shutil
            d = os.path.join(BUILD, "cases", "p%d" % os.getpid())
            os.makedirs(d, exist_ok=True)
            if not os.environ.get("VERIF_KEEP_CASES"):
                atexit.register(lambda: shutil.rmtree(d, ignore_errors=True))
            _CASE_DIR = d  # published only after the directory exists
    return _CASE_DIR


def _coqc_text(name, text, timeout=900):
    d = _case_dir()
    path = os.path.join(d, name + ".v")
    open(path, "w").write(text)
    p = subprocess.run(["timeout", str(timeout), "coqc"] + COQ_FLAGS + ["-o", path + "o", path],
                       stdout=subprocess.PIPE, stderr=subprocess.STDOUT, text=True, cwd=d)
    return p.returncode, p.stdout


def coq_eval(name, imports, prelude, terms, timeout=900):
    """Evaluate each Coq term with vm_compute; returns list of raw printed values
    (text between '= ' and the trailing ': type')."""
    body = [imports, prelude]
    for t in terms:
        body.append("Eval vm_compute in (%s)." % t)
    rc, out = _coqc_text(name, "\n".join(body) + "\n", timeout)
    if rc != 0:
        raise RuntimeError("coqc failed on %s:\n%s" % (name, out[-3000:]))
    vals = re.split(r"^\s*= ", out, flags=re.M)[1:]
    res = []
    for v in vals:
        v = re.sub(r"\n\s*: [^=]*$", "", v.strip(), flags=re.S)
        res.append(" ".join(v.split()))
    if len(res) != len(terms):
        raise RuntimeError("coq_eval: %d results for %d terms\n%s" % (len(res), len(terms), out[-2000:]))
    return res


def coq_bad_cases(name, imports, prelude, check_fn, cases, shard=250, jobs=8, timeout=900):
    """cases: list of Coq terms of the argument type of check_fn : T -> bool.
    Returns sorted list of indices i for which check_fn case_i <> true.
    Sharded over several coqc processes."""
    if not cases:
        return []
    shards = [(k, cases[k:k + shard]) for k in range(0, len(cases), shard)]

    def run(sh):
        k, cs = sh
        text = "\n".join([
            imports, prelude,
            "Definition the_cases := %s." % lst(["\n  " + c for c in cs]),
            "Eval vm_compute in (bad_cases (%s) the_cases)." % check_fn, ""])
        rc, out = _coqc_text("%s_%d" % (name, k), text, timeout)
        if rc != 0:
            raise RuntimeError("coqc failed on %s_%d:\n%s" % (name, k, out[-3000:]))
        m = re.search(r"=\s*(\[.*?\])\s*(%Z)?\s*:\s*list Z", out, re.S)
        if not m:
            raise RuntimeError("cannot parse coqc output for %s_%d:\n%s" % (name, k, out[-2000:]))
        return [k + int(x) for x in re.findall(r"-?\d+", m.group(1))]

    bad = []
    with ThreadPoolExecutor(max_workers=jobs) as ex:
        for r in ex.map(run, shards):
            bad.extend(r)
    return sorted(bad)


# --------------------------------------------------------------------------
# context handed to drivers
# --------------------------------------------------------------------------
class Ctx:
    def __init__(self, prop, tier, seed):
        self.prop, self.tier, self.seed = prop, tier, seed
        self.rng = random.Random("%s-%d" % (prop, seed))
        self.evaluations = 0
        self.nontrivial = set()
        self.samples = []
        self.hist = {}
        self.violations = []
        self.notes = []
        self.traces_validated = 0
        self.rule = ""

    def n(self, quick, thorough):
        return thorough if self.tier == "thorough" else quick

    def count(self, key=None, nontrivial=False, n=1):
        self.evaluations += n
        if nontrivial and key is not None:
            self.nontrivial.add(hashlib.sha1(json.dumps(key, sort_keys=True, default=str).encode()).hexdigest())

    def sample(self, obj, limit=4):
        if len(self.samples) < limit:
            self.samples.append(obj)

    def h(self, name, key, n=1):
        d = self.hist.setdefault(name, {})
        d[str(key)] = d.get(str(key), 0) + n

    def violation(self, kind, what, case, signature=None, failing_input=True, broken=None):
        """kind: 'property' (a concrete input on which the property fails on the
        implementation), 'correspondence' (model and implementation differ),
        'proof' (a theorem no longer checks)."""
        self.violations.append(dict(kind=kind, what=what, case=case, signature=signature or {},
                                    failing_input=failing_input, broken=broken))

    def coq_bad_cases(self, tag, imports, prelude, check_fn, cases, **kw):
        return coq_bad_cases("%s_%s" % (self.prop, tag), imports, prelude, check_fn, cases, **kw)

    def coq_eval(self, tag, imports, prelude, terms, **kw):
        return coq_eval("%s_%s" % (self.prop, tag), imports, prelude, terms, **kw)


def load_known_findings():
    p = os.path.join(VERIF, "known_findings.json")
    if not os.path.exists(p):
        return []
    return json.load(open(p))


def sig_matches(entry_sig, sig):
    """every key of the listed signature must be present and equal in the observed one"""
    return bool(entry_sig) and all(sig.get(k) == v for k, v in entry_sig.items())


def impl_python_env():
    env = dict(os.environ)
    env["PYTHONPATH"] = REPO + os.pathsep + os.path.join(VERIF, "harness")
    env["PYTHONHASHSEED"] = env.get("PYTHONHASHSEED", "0")
    return env
