"""Helpers of the C10 driver (harness/drivers/c10.py): synthetic tabular blackboxes,
a scripted fake for the real-time clock used by SimulatedTimeKeeper, a recording
subclass of the real UserBlackboxBackend, Coq literals for model/Sim.v and the
independent checker that recomputes values and time stamps from the table.

Everything here is harness side; nothing in /repo is modified. The real
`syne_tune.blackbox_repository` package does not import in this sandbox because
its optional `yahpo_gym` dependency drags in a ConfigSpace binary that is
incompatible with numpy 2 (ValueError, not ImportError). `import_backend()`
therefore marks `yahpo_gym` as absent (sys.modules entry None -> ImportError,
which repository.py already handles) before importing."""
import contextlib
import io
import logging
import math
import sys
from fractions import Fraction

from common import q, lst, natlit, blit, optlit

NAN_SENTINEL = "(123456789123456789 # 1)"   # stands for a missing (NaN) table cell in Coq literals: the model
                                             # only copies metric values, so any value unequal to all others will do


def qm(x):
    """Coq literal of a metric value (NaN -> sentinel)"""
    return NAN_SENTINEL if (isinstance(x, float) and math.isnan(x)) else q(x)


def same_vals(a, b):
    """equality of metric lists where NaN equals NaN (a missing cell is replayed as missing)"""
    return len(a) == len(b) and all((x == y) or (isinstance(x, float) and isinstance(y, float) and math.isnan(x) and math.isnan(y))
                                    for x, y in zip(a, b))


EPS = 0.01      # literal of the monotonicity repair in simulated_tabular_backend.py
NUDGE = 1e-3    # literal of _stop_or_pause_trial in simulator_backend.py

_mods = {}


def import_backend():
    if _mods:
        return _mods
    if "yahpo_gym" not in sys.modules:
        sys.modules["yahpo_gym"] = None
    sink = io.StringIO()
    with contextlib.redirect_stdout(sink), contextlib.redirect_stderr(sink):
        import numpy as np
        import pandas as pd
        from syne_tune.blackbox_repository.blackbox_tabular import BlackboxTabular
        from syne_tune.blackbox_repository.simulated_tabular_backend import UserBlackboxBackend
        from syne_tune.backend.simulator_backend.simulator_backend import SimulatorConfig
        import syne_tune.backend.simulator_backend.time_keeper as tk
        from syne_tune.config_space import randint
    logging.getLogger("syne_tune").setLevel(logging.ERROR)
    _mods.update(np=np, pd=pd, BlackboxTabular=BlackboxTabular, UserBlackboxBackend=UserBlackboxBackend,
                 SimulatorConfig=SimulatorConfig, tk=tk, randint=randint)
    return _mods


# --------------------------------------------------------------------------
# fake real-time clock (replaces the name `time` inside time_keeper.py)
# --------------------------------------------------------------------------
class FakeTime:
    """`time.time()` as seen by SimulatedTimeKeeper: a genuine monotone real-time source. Reading it has no
    side effect. The harness moves `now` forward by scripted amounts BETWEEN backend calls (`spend`); what a
    call charges to the simulated clock is whatever the implementation computes from its own last-exit mark.
    `mark` is the harness's own record of the real time at which the last call that ends with
    time_keeper.mark_exit() (start/resume/pause/stop/fetch, start_of_time) returned; `now - mark` is the real
    time that has passed outside the backend since then, i.e. what the next such call must charge, once."""

    def __init__(self, start=1024.0):
        self.start = float(start)
        self.now = float(start)
        self.mark = float(start)

    def time(self):
        return self.now

    def spend(self, dt):
        self.now = self.now + dt

    def marked(self):
        self.mark = self.now

    def outside(self):
        return self.now - self.mark


# --------------------------------------------------------------------------
# synthetic tables
# --------------------------------------------------------------------------
def gen_spec(rng, big=False):
    """Table: nx*ny configurations (full grid, so that every sampled (x, y) is in the table),
    1..3 seeds, 2..30 fidelities, 1..2 metric columns + one elapsed-time column."""
    nx, ny = rng.choice([(1, 2), (2, 2), (3, 2), (2, 3)])
    nseeds = rng.randint(1, 3)
    nfid = rng.choice([2, 3, 4, 5, 6, 8, 12, 30] if big else [2, 3, 4, 5, 6, 8])
    nmet = rng.randint(1, 2)
    style = rng.choice(["cumulative", "noisy", "nonmonotone", "flat", "tiny", "dyadic", "dyadic", "float"])
    grid = rng.choice([4, 16, 64])
    table = []
    for c in range(nx * ny):
        per_seed = []
        for s in range(nseeds):
            t = 0.0
            rows = []
            for f in range(nfid):
                if style == "cumulative":
                    t += rng.choice([0.25, 0.5, 1.0, 1.5, 2.0]) * rng.choice([1, 1, 2])
                elif style == "noisy":
                    t += rng.uniform(-0.3, 1.0)
                elif style == "nonmonotone":
                    t = rng.randint(0, 4 * grid) / grid
                elif style == "flat":
                    t = 0.0 if rng.random() < 0.7 else 1.0
                elif style == "tiny":
                    t += rng.choice([0.001, 0.005, 0.01, 0.0100001, 0.02, 0.0])
                elif style == "dyadic":
                    t += rng.randint(0, 2 * grid) / grid
                else:
                    t += rng.uniform(0.0, 2.0)
                # metric values are distinct for every (config, seed, level): the seed of a trial can be
                # read off any delivered result
                mets = [((c * 3 + s) * 32 + f) * 4 + k + rng.randint(0, 255) / 1024.0 for k in range(nmet)]
                rows.append([float(t), [float(m) for m in mets]])
            per_seed.append(rows)
        table.append(per_seed)
    # missing cells (diverged runs): NaN in metric columns only; nan_cols says which metric columns may have them
    nan_cols = rng.choice([[], [], [nmet - 1], list(range(nmet))])
    for per_seed in table:
        for rows in per_seed:
            if nan_cols and rng.random() < 0.4:
                f0 = rng.randrange(nfid)
                for f in (range(f0, nfid) if rng.random() < 0.5 else [f0]):
                    for k in nan_cols:
                        rows[f][1][k] = float("nan")
    if rng.random() < 0.35:
        delays = dict(result=0.05, complete=0.05, stopc=0.05, start=0.05, stop=0.05)   # the defaults
    else:
        dv = [0.0, 0.0, 0.125, 0.25, 0.5, 0.05, 0.01, 1.0, 3.0, rng.uniform(0, 1)]
        r = rng.choice(dv)
        delays = dict(result=r, complete=r + rng.choice([0.0, 0.0, 0.125, 0.05, rng.uniform(0, 1)]),
                      stopc=rng.choice(dv), start=rng.choice(dv), stop=rng.choice(dv + [5.0, 20.0]))
    grid = rng.choice(["1..n", "1..n", "2k", "3k", "arbitrary"])
    if grid == "1..n":
        fids = list(range(1, nfid + 1))
    elif grid == "2k":
        fids = [2 * k for k in range(1, nfid + 1)]
    elif grid == "3k":
        fids = [3 * k for k in range(1, nfid + 1)]
    else:
        fids, f = [], 0
        for _ in range(nfid):
            f += rng.randint(1, 4)
            fids.append(f)
    return dict(nx=nx, ny=ny, nseeds=nseeds, nfid=nfid, nmet=nmet, style=style, table=table, delays=delays, nan_cols=nan_cols,
                fids=fids, fid_grid=grid, key_order=rng.choice(["xy", "yx", "exy", "yex"]),
                rename=gen_rename(rng, nmet) if rng.random() < 0.4 else None,
                sleep=rng.choice([0.1, 0.25, 0.5, 1.0, 0.0, 2.0]),
                checkpointing=rng.random() < 0.7,
                fixed_seed=rng.choice([None, None, rng.randrange(nseeds)]),
                use_maxres=rng.random() < 0.5)


def fids_of(spec):
    """fidelity values of the table (older cases: the default grid 1..n)"""
    return spec.get("fids") or list(range(1, spec["nfid"] + 1))


def make_blackbox(spec):
    m = import_backend()
    np, pd = m["np"], m["pd"]
    nx, ny = spec["nx"], spec["ny"]
    hp = pd.DataFrame({"x": [c // ny for c in range(nx * ny)], "y": [c % ny for c in range(nx * ny)]})
    cs = {"x": m["randint"](0, nx - 1), "y": m["randint"](0, ny - 1)}
    fids = fids_of(spec)
    fs = {"epoch": m["randint"](1, max(fids))}
    nmet = spec["nmet"]
    ev = np.zeros((nx * ny, spec["nseeds"], spec["nfid"], nmet + 1))
    for c, per_seed in enumerate(spec["table"]):
        for s, rows in enumerate(per_seed):
            for f, (t, mets) in enumerate(rows):
                ev[c, s, f, :nmet] = mets
                ev[c, s, f, nmet] = t

    class RecordingBlackbox(m["BlackboxTabular"]):
        """records the seed of every table query (public extension point _objective_function)"""
        seed_calls = None

        def _objective_function(self, configuration, fidelity=None, seed=None):
            self.seed_calls.append(seed)
            return super()._objective_function(configuration, fidelity=fidelity, seed=seed)

    names = ["m%d" % k for k in range(nmet)] + ["elapsed"]
    rn = spec.get("rename")
    if not rn:
        bb = RecordingBlackbox(hyperparameters=hp, configuration_space=cs, fidelity_space=fs,
                               objectives_evaluations=ev, fidelity_values=np.array(fids), objectives_names=names)
        bb.seed_calls = []
        return bb
    # "renamed table" variant: the data sits in a table with other column names, in another column order and
    # with extra columns; the blackbox handed to the backend is table.rename_objectives(mapping), the
    # documented way to adapt a table. The reference spec["table"] is by the NEW names and is never read
    # back from the renamed blackbox.
    cols = rn["columns"]                      # original column names in table order
    ev0 = np.zeros((nx * ny, spec["nseeds"], spec["nfid"], len(cols)))
    for j, col in enumerate(cols):
        src = rn["source"].get(col)           # new name this column is renamed to, None for an extra column
        if src is None:
            ev0[:, :, :, j] = 7000.0 + 13.0 * j + np.arange(ev0.shape[2])[None, None, :]
        else:
            ev0[:, :, :, j] = ev[:, :, :, names.index(src)]
    orig = m["BlackboxTabular"](hyperparameters=hp, configuration_space=cs, fidelity_space=fs,
                                objectives_evaluations=ev0, fidelity_values=np.array(fids), objectives_names=list(cols))
    bb = orig.rename_objectives({old: new for old, new in rn["mapping"]})
    # seed recording on the returned (plain) BlackboxTabular: wrap its _objective_function
    bb.seed_calls = []
    inner = bb._objective_function

    def recording_objective_function(configuration, fidelity=None, seed=None):
        bb.seed_calls.append(seed)
        return inner(configuration, fidelity=fidelity, seed=seed)

    bb._objective_function = recording_objective_function
    return bb


def gen_rename(rng, nmet):
    """original column names / order, extra columns, and a mapping old -> new listed in an order that differs
    from the table's column order whenever possible"""
    targets = ["m%d" % k for k in range(nmet)] + ["elapsed"]
    ncols = len(targets) + rng.randint(0, 2)
    cols = ["col%d" % j for j in range(ncols)]
    holders = rng.sample(cols, len(targets))          # which original column carries which target
    source = {c: None for c in cols}
    for c, tname in zip(holders, targets):
        source[c] = tname
    pairs = [[c, source[c]] for c in cols if source[c] is not None]     # table order
    mapping = list(pairs)
    for _ in range(5):
        rng.shuffle(mapping)
        if mapping != pairs:
            break
    return dict(columns=cols, source=source, mapping=mapping)


def cfg_dict(spec, idx, maxres):
    """idx >= number of configurations: a configuration that is not in the table. The ORDER of the keys of
    the dict is spec["key_order"] (x, y, e = epochs): it need not be the column order of the table"""
    n = spec["nx"] * spec["ny"]
    vals = {"x": idx // spec["ny"], "y": idx % spec["ny"]} if idx < n else {"x": 1000 + idx, "y": 0}
    if maxres is not None:
        vals["epochs"] = maxres
    d = {}
    for ch in spec.get("key_order", "xy"):
        k = {"x": "x", "y": "y", "e": "epochs"}[ch]
        if k in vals:
            d[k] = vals[k]
    for k, v in vals.items():
        d.setdefault(k, v)
    return d


def cfg_of_dict(spec, d):
    idx = int(d["x"]) * spec["ny"] + int(d["y"]) if int(d["x"]) < 1000 else int(d["x"]) - 1000
    return idx, (int(d["epochs"]) if (spec["use_maxres"] and "epochs" in d) else None)


ERRS = {"AssertionError": "EAssert", "AttributeError": "EAttr", "IndexError": "EIndex",
        "ValueError": "EValue", "KeyError": "EKey"}
STATUS = {"InProgress": "InProgress", "Paused": "Paused", "Stopped": "Stopped", "Completed": "Completed"}


def make_backend(spec, fake, dt_source, log):
    """Real UserBlackboxBackend wrapped in a recording subclass (public methods only).
    dt_source(kind) -> outside real time spent before the call; log: list of op records."""
    m = import_backend()
    bb = make_blackbox(spec)
    d = spec["delays"]

    class RecordingBackend(m["UserBlackboxBackend"]):
        def _rec(self, op, fn):
            fake.spend(dt_source(op["kind"]))
            op["real"] = fake.now - fake.start
            op["dt"] = fake.outside()      # real time outside the backend since the last exit mark
            try:
                out = fn()
            except Exception as e:  # recorded, then re-raised
                op["err"] = type(e).__name__
                op["errmsg"] = str(e)[:200]
                log.append(op)
                raise
            fake.marked()                  # these five methods end with time_keeper.mark_exit()
            op["clock"] = self.time_keeper.time()
            log.append(op)
            return out

        def start_trial(self, config, checkpoint_trial_id=None):
            idx, mr = cfg_of_dict(spec, config)
            op = dict(kind="start", cfg=idx, maxres=mr)
            trial = self._rec(op, lambda: super(RecordingBackend, self).start_trial(config, checkpoint_trial_id))
            op["out"] = trial.trial_id
            return trial

        def resume_trial(self, trial_id, new_config=None):
            op = dict(kind="resume", t=int(trial_id), newc=None if new_config is None else list(cfg_of_dict(spec, new_config)))
            trial = self._rec(op, lambda: super(RecordingBackend, self).resume_trial(trial_id, new_config))
            op["out"] = trial.trial_id
            return trial

        def pause_trial(self, trial_id, result=None):
            lvl = int(result["epoch"]) if (result is not None and "epoch" in result) else None
            op = dict(kind="pause", t=int(trial_id), lvl=lvl)
            return self._rec(op, lambda: super(RecordingBackend, self).pause_trial(trial_id, result))

        def stop_trial(self, trial_id, result=None):
            op = dict(kind="stop", t=int(trial_id))
            return self._rec(op, lambda: super(RecordingBackend, self).stop_trial(trial_id, result))

        def fetch_status_results(self, trial_ids):
            op = dict(kind="fetch", ids=[int(t) for t in trial_ids])
            sd, results = self._rec(op, lambda: super(RecordingBackend, self).fetch_status_results(trial_ids))
            nmet = spec["nmet"]
            op["results"] = [[int(t), int(r["epoch"]), float(r["elapsed"]), [float(r["m%d" % k]) for k in range(nmet)],
                              float(r["st_tuner_time"])] for t, r in results]
            op["statuses"] = sorted([int(t), str(s)] for t, (_, s) in sd.items())
            return sd, results

        def busy_trial_ids(self):
            op = dict(kind="busy")
            # real time passes before this call as before any other; the method itself charges nothing and
            # sets no exit mark (it does not call _advance_by_outside_time / mark_exit): the stretch is
            # charged, once, by the next call that does
            fake.spend(dt_source("busy"))
            op["real"] = fake.now - fake.start
            try:
                out = super().busy_trial_ids()
            except Exception as e:
                op["err"] = type(e).__name__
                op["errmsg"] = str(e)[:200]
                log.append(op)
                raise
            op["clock"] = self.time_keeper.time()
            op["busy"] = sorted(int(t) for t, _ in out)
            log.append(op)
            return out

    be = RecordingBackend(
        blackbox=bb, elapsed_time_attr="elapsed",
        max_resource_attr="epochs" if spec["use_maxres"] else None,
        seed=spec["fixed_seed"], support_checkpointing=spec["checkpointing"],
        simulator_config=m["SimulatorConfig"](
            delay_on_trial_result=d["result"], delay_complete_after_final_report=d["complete"],
            delay_complete_after_stop=d["stopc"], delay_start=d["start"], delay_stop=d["stop"]),
        tuner_sleep_time=spec["sleep"])
    return be, bb


def do_sleep(be, log):
    """what SimulatorCallback.on_tuning_sleep does (used by the direct sequence driver; whole runs
    use the real callback)"""
    op = dict(kind="sleep")
    try:
        be.time_keeper.advance(be.tuner_sleep_time)
    except Exception as e:
        op["err"] = type(e).__name__
        log.append(op)
        raise
    op["clock"] = be.time_keeper.time()
    log.append(op)


# --------------------------------------------------------------------------
# Coq literals
# --------------------------------------------------------------------------
def coq_settings(spec):
    d = spec["delays"]
    return ("(mkSet %s %s %s %s %s %s %s %s %s %s %s)" % (
        q(d["result"]), q(d["complete"]), q(d["stopc"]), q(d["start"]), q(d["stop"]), q(spec["sleep"]),
        blit(spec["checkpointing"]), optlit(spec["fixed_seed"], natlit), q(EPS), q(NUDGE),
        lst([natlit(f) for f in fids_of(spec)])))


def coq_table(spec):
    return lst([lst([lst(["mkRow %s %s" % (q(t), lst([qm(x) for x in mets])) for t, mets in rows])
                     for rows in per_seed]) for per_seed in spec["table"]])


def coq_cfg(idx, maxres):
    return "(mkCfg %s %s)" % (natlit(idx), optlit(maxres, natlit))


def coq_op(op):
    k = op["kind"]
    dt = q(op.get("dt", 0.0))
    if k == "start":
        return "OpStart %s %s" % (coq_cfg(op["cfg"], op["maxres"]), dt)
    if k == "resume":
        return "OpResume %s %s %s" % (natlit(op["t"]), optlit(op["newc"], lambda c: coq_cfg(c[0], c[1])), dt)
    if k == "pause":
        return "OpPause %s %s %s" % (natlit(op["t"]), optlit(op["lvl"], natlit), dt)
    if k == "stop":
        return "OpStop %s %s" % (natlit(op["t"]), dt)
    if k == "fetch":
        return "OpFetch %s %s" % (lst([natlit(t) for t in op["ids"]]), dt)
    if k == "busy":
        return "OpBusy"
    if k == "sleep":
        return "OpSleep"
    if k == "advto":
        return "OpAdvanceTo %s" % q(op["to"])
    raise ValueError(k)


def coq_obs(op):
    if "err" in op:
        return "OErr %s" % ERRS.get(op["err"], "EFuel")
    k, c = op["kind"], q(op["clock"])
    if k in ("start", "resume"):
        return "OTrial %s %s" % (natlit(op["out"]), c)
    if k in ("pause", "stop", "sleep", "advto"):
        return "ONone %s" % c
    if k == "fetch":
        rs = lst(["(%s, %s, %s, %s, %s)" % (natlit(t), natlit(l), q(e), lst([qm(x) for x in ms]), q(ts))
                  for t, l, e, ms, ts in op["results"]])
        sts = lst(["(%s, %s)" % (natlit(t), STATUS[s]) for t, s in op["statuses"]])
        return "OFetch %s %s %s" % (rs, sts, c)
    if k == "busy":
        return "OBusy %s %s" % (lst([natlit(t) for t in op["busy"]]), c)
    raise ValueError(k)


def coq_case(spec, log, seed_calls):
    draws = lst([natlit(s if s is not None else 0) for s in seed_calls])
    ops = lst(["\n   (%s, %s)" % (coq_op(o), coq_obs(o)) for o in log if o["kind"] != "hov"])
    return "(%s,\n  %s,\n  %s,\n  %s)" % (coq_settings(spec), coq_table(spec), draws, ops)


IMPORTS = "From Coq Require Import Qabs.\nFrom Verif Require Import model.Base model.Sim.\nOpen Scope Q_scope.\n"

PRELUDE = r"""
Definition tol_eq (a b : Q) : bool :=
  Qleb (Qabs (a - b)) ((1 # 1000000000) * (Qabs a + Qabs b) + (1 # 1000000000000)).
Definition obs_res := (nat * nat * Q * list Q * Q)%type.
Inductive obs :=
| OErr (e : err)
| OTrial (t : nat) (c : Q)
| ONone (c : Q)
| OFetch (rs : list obs_res) (sts : list (nat * status)) (c : Q)
| OBusy (b : list nat) (c : Q).
Definition err_eqb (a b : err) : bool :=
  match a, b with
  | EAssert, EAssert | EAttr, EAttr | EIndex, EIndex | EValue, EValue | EKey, EKey | EFuel, EFuel => true
  | _, _ => false end.
Definition status_eqb (a b : status) : bool :=
  match a, b with
  | InProgress, InProgress | Paused, Paused | Stopped, Stopped | Completed, Completed => true
  | _, _ => false end.
Definition res_match (d : delivered) (o : obs_res) : bool :=
  let '(t, (_, _, r, ts)) := d in
  let '(t', l', e', ms', ts') := o in
  Nat.eqb t t' && Nat.eqb (res_level r) l' && tol_eq (res_elapsed r) e' &&
  list_eqb Qeqb (res_metrics r) ms' && tol_eq ts ts'.
Fixpoint list_match {A B} (f : A -> B -> bool) (a : list A) (b : list B) : bool :=
  match a, b with
  | [], [] => true
  | x :: a', y :: b' => f x y && list_match f a' b'
  | _, _ => false
  end.
Definition sts_match (model impl : list (nat * status)) : bool :=
  forallb (fun p => opt_eqb status_eqb (lookup (fst p) impl) (Some (snd p))) model &&
  forallb (fun p => mem_nat (fst p) (map fst model)) impl.
Definition out_match (st : state) (out : output) (o : obs) : bool :=
  match out, o with
  | OutTrial t, OTrial t' c => Nat.eqb t t' && tol_eq (clock st) c
  | OutNone, ONone c => tol_eq (clock st) c
  | OutFetch rs sts, OFetch rs' sts' c =>
      list_match res_match rs rs' && sts_match sts sts' && tol_eq (clock st) c
  | OutBusy b, OBusy b' c => same_set_nat b b' && tol_eq (clock st) c
  | _, _ => false
  end.
(* the seed used by the k-th job run must be the seed the implementation passed to the table
   at its k-th query *)
Fixpoint seeds_ok (draw : nat -> nat) (k : nat) (rs : list run_rec) : bool :=
  match rs with [] => true | r :: rs' => Nat.eqb (run_seed r) (draw k) && seeds_ok draw (S k) rs' end.
Fixpoint chk_ops (S_ : settings) (tbl : table) (draw : nat -> nat) (nq : nat) (st : state)
         (l : list (op * obs)) : bool :=
  match l with
  | [] => Nat.eqb (length (runs st)) nq && seeds_ok draw 0 (runs st)
  | (o, ob) :: r =>
      match step S_ tbl draw st o, ob with
      | Err e, OErr e' => err_eqb e e'
      | Ok (st', out), _ => out_match st' out ob && chk_ops S_ tbl draw nq st' r
      | _, _ => false
      end
  end.
Definition sim_case := (settings * table * list nat * list (op * obs))%type.
Definition chk_case (c : sim_case) : bool :=
  let '(S_, tbl, draws, l) := c in
  chk_ops S_ tbl (fun k => nth k draws 0%nat) (length draws) init_state l.
(* index of the first operation at which model and implementation differ (diagnostics) *)
Fixpoint first_diff (S_ : settings) (tbl : table) (draw : nat -> nat) (st : state)
         (l : list (op * obs)) (i : Z) : Z :=
  match l with
  | [] => (-1)%Z
  | (o, ob) :: r =>
      match step S_ tbl draw st o, ob with
      | Err e, OErr e' => if err_eqb e e' then (-1)%Z else i
      | Ok (st', out), _ => if out_match st' out ob then first_diff S_ tbl draw st' r (i + 1)%Z else i
      | _, _ => i
      end
  end.
Definition diff_case (c : sim_case) : Z :=
  let '(S_, tbl, draws, l) := c in first_diff S_ tbl (fun k => nth k draws 0%nat) init_state l 0%Z.
"""


# --------------------------------------------------------------------------
# independent checker on the implementation's output
# --------------------------------------------------------------------------
def close(a, b, rel=1e-9):
    return abs(a - b) <= rel * (abs(a) + abs(b)) + 1e-12


def expected_run(spec, idx, seed, maxres, rp):
    """Recomputed from the table: [(level, elapsed since resume point after the documented repair,
    metrics)] of a job of configuration idx, seed, limited to maxres, resumed after level rp. Levels are
    the fidelity VALUES of the table."""
    rows = spec["table"][idx][seed]
    fids = fids_of(spec)
    lv = [(f, rows[j]) for j, f in enumerate(fids) if j < len(rows) and (maxres is None or f <= maxres)]
    if rp is not None and spec["checkpointing"]:
        off = 0
        for f, row in lv:
            if f == rp:
                off = row[0]
        items = [[f, row[0] - off, row[1]] for f, row in lv if f > rp]
    else:
        items = [[f, row[0], row[1]] for f, row in lv]
    prev = None
    for it in items:
        it[1] = max(it[1], EPS if prev is None else prev + EPS)
        prev = it[1]
    return items


def check_log(spec, log):
    """Independent checker: recomputes values and time stamps of every delivered result from the table
    and the observed start/resume events. Returns list of (what, signature)."""
    viol = []
    d = spec["delays"]
    cfg, rp, runs, seed_of = {}, {}, {}, {}
    if spec["fixed_seed"] is not None:
        fixed = spec["fixed_seed"]
    prev_clock = 0.0
    outside_total = 0.0     # simulated time charged for real time spent outside the backend, whole sequence
    ncfg = spec["nx"] * spec["ny"]
    for i, op in enumerate(log):
        if "err" in op:
            break
        k, c = op["kind"], op["clock"]
        # ---- every stretch of real time is charged at most once: what the calls so far charged as outside
        # time cannot exceed the real time that has elapsed on the (fake) real-time clock
        outside_total += c - prev_clock - (spec["sleep"] if k == "sleep" else
                                           (d["stop"] + NUDGE + d["stopc"] + NUDGE) if k in ("pause", "stop") else
                                           max(op["to"] - prev_clock, 0.0) if k == "advto" else 0.0)
        if "real" in op and outside_total > op["real"] * (1 + 1e-9) + 1e-9:
            viol.append(("after op %d (%s) the calls have charged %r of simulated time for time spent outside the backend, "
                         "but only %r of real time has elapsed" % (i, k, outside_total, op["real"]),
                         dict(defect="outside_time_charged_twice", op=k)))
        # ---- clock: never backwards, every charge exactly once
        if c < prev_clock:
            viol.append(("simulated clock went backwards at op %d (%s): %r -> %r" % (i, k, prev_clock, c),
                         dict(defect="clock_decreased", op=k)))
        if k == "sleep":
            want = prev_clock + spec["sleep"]
        elif k in ("start", "resume", "fetch"):
            want = prev_clock + op["dt"]
        elif k in ("pause", "stop"):
            want = prev_clock + op["dt"] + d["stop"] + NUDGE + d["stopc"] + NUDGE
        elif k == "advto":
            want = max(op["to"], prev_clock)      # time_keeper.advance_to never moves the clock backwards
        else:
            want = prev_clock
        if not close(c, want):
            viol.append(("clock after %s (op %d) is %r, expected %r (previous %r)" % (k, i, c, want, prev_clock),
                         dict(defect="clock_charge", op=k)))
        prev_clock = c
        # ---- bookkeeping of what the caller did
        if k == "start":
            t = op["out"]
            cfg[t] = (op["cfg"], op["maxres"])
            runs.setdefault(t, []).append(dict(te=c + d["start"], cfg=cfg[t], rp=None, next=None, gaps=False, n=0,
                                               live=True, consumed=c))
        elif k == "resume":
            t = op["t"]
            if op["newc"] is not None:
                cfg[t] = tuple(op["newc"])
            runs.setdefault(t, []).append(dict(te=c + d["start"], cfg=cfg[t], rp=rp.get(t) if spec["checkpointing"] else None,
                                               next=None, gaps=False, n=0, live=True, consumed=c))
        elif k in ("pause", "stop"):
            if op["t"] in runs:
                runs[op["t"]][-1]["live"] = False      # its queued and pending reports are dropped
            if k == "pause" and op["lvl"] is not None:
                rp[op["t"]] = op["lvl"]
        elif k == "fetch":
            for t, rl in runs.items():
                if t not in op["ids"]:
                    rl[-1]["gaps"] = True   # results of an unlisted trial are discarded by the backend (documented)
            for (t, lvl, el, mets, ts) in op["results"]:
                where = "op %d trial %d level %d" % (i, t, lvl)
                if t not in runs:
                    viol.append(("result for a trial that was never started: " + where, dict(defect="unknown_trial")))
                    continue
                if t not in op["ids"]:
                    viol.append(("result of a trial that was not asked for: " + where, dict(defect="unlisted_trial")))
                idx, maxres = runs[t][-1]["cfg"]
                if idx >= ncfg or lvl not in fids_of(spec) or (maxres is not None and lvl > maxres):
                    viol.append(("level outside the table / above max_resource: " + where, dict(defect="level_range")))
                    continue
                # the seed: the one whose table row carries these metric values (rows are distinct by construction)
                if spec["fixed_seed"] is not None:
                    cand = [spec["fixed_seed"]]
                else:
                    cand = [s for s in range(spec["nseeds"]) if same_vals(spec["table"][idx][s][fids_of(spec).index(lvl)][1], mets)]
                if t not in seed_of:
                    if len(cand) == 1:
                        seed_of[t] = cand[0]
                    elif len(cand) > 1:
                        pass            # rows of several seeds are all-missing at this level: seed not identifiable yet
                    else:
                        viol.append(("metric values are not a table row of this configuration and level: %s got %r" % (where, mets),
                                     dict(defect="values_not_in_table")))
                        continue
                if t in seed_of:
                    s = seed_of[t]
                else:
                    # undetermined: the candidate whose elapsed time / time stamp fit the latest run, else the first
                    def fits_s(s_):
                        ridx, rmax = runs[t][-1]["cfg"]
                        return ridx < ncfg and any(l2 == lvl and close(e2, el) and close(runs[t][-1]["te"] + e2 + d["result"], ts)
                                                   for (l2, e2, m2) in expected_run(spec, ridx, s_, rmax, runs[t][-1]["rp"]))
                    s = ([s_ for s_ in cand if fits_s(s_)] + cand)[0]
                if not same_vals(spec["table"][idx][s][fids_of(spec).index(lvl)][1], mets):
                    other = [s2 for s2 in range(spec["nseeds"]) if same_vals(spec["table"][idx][s2][fids_of(spec).index(lvl)][1], mets)]
                    viol.append(("metric values differ from the table row (config %d, seed %d, level %d): %s got %r%s"
                                 % (idx, s, lvl, where, mets, " = row of seed %d" % other[0] if other else ""),
                                 dict(defect="seed_changed" if other else "values_not_in_table")))
                    continue
                # which run does it belong to? must be the latest one scheduled for this trial
                def fits(run):
                    ridx, rmax = run["cfg"]
                    if ridx >= ncfg:
                        return False
                    for (l2, e2, m2) in expected_run(spec, ridx, s, rmax, run["rp"]):
                        if l2 == lvl:
                            return same_vals(m2, mets) and close(e2, el) and close(run["te"] + e2 + d["result"], ts)
                    return False
                run = runs[t][-1]
                if not fits(run):
                    older = [j for j, r2 in enumerate(runs[t][:-1]) if fits(r2)]
                    if older:
                        viol.append(("result of an earlier run (run %d of %d) of the trial is delivered after the trial was "
                                     "resumed: %s st_tuner_time %r" % (older[-1], len(runs[t]), where, ts),
                                     dict(defect="result_of_earlier_run_delivered_after_resume")))
                    else:
                        exp = [(l2, e2, run["te"] + e2 + d["result"]) for (l2, e2, m2) in
                               expected_run(spec, idx, s, maxres, run["rp"]) if l2 == lvl]
                        viol.append(("elapsed time / time stamp differ from start time of the run + table's elapsed time since "
                                     "the resume point + delay: %s got elapsed %r st_tuner_time %r, expected (level, elapsed, time) %r "
                                     "(run started at %r, resume level %r)" % (where, el, ts, exp, run["te"], run["rp"]),
                                     dict(defect="time_stamp" if exp else "level_not_in_run")))
                    continue
                fl = [f for f in fids_of(spec) if run["rp"] is None or f > run["rp"]]
                want = (fl[0] if fl else None) if run["next"] is None else run["next"]
                if lvl != want and not (run["gaps"] and want is not None and lvl > want):
                    viol.append(("levels of a run skip or repeat a fidelity value: %s expected level %r" % (where, want),
                                 dict(defect="levels_not_consecutive")))
                later = [f for f in fids_of(spec) if f > lvl]
                run["next"] = later[0] if later else None
                run["n"] += 1
            # ---- in time: every report of a polled, running trial that is due by now and was not due at the
            # previous fetch must be in this fetch's output
            got = {}
            for (t, lvl, el, mets, ts) in op["results"]:
                got.setdefault(t, set()).add(lvl)
            for t, rl in runs.items():
                run = rl[-1]
                if run["live"] and t in op["ids"]:
                    idx, maxres = run["cfg"]
                    seed = spec["fixed_seed"] if spec["fixed_seed"] is not None else (0 if spec["nseeds"] == 1 else seed_of.get(t))
                    if idx < ncfg and seed is not None and 0 <= seed < spec["nseeds"] and (maxres is None or maxres >= 1):
                        for (l2, e2, m2) in expected_run(spec, idx, seed, maxres, run["rp"]):
                            ts2 = run["te"] + e2 + d["result"]
                            tol = 1e-9 * (abs(ts2) + 1.0)
                            if run["consumed"] + tol < ts2 < c - tol and l2 not in got.get(t, ()):
                                viol.append(("a report that is due is not delivered by the fetch that polls its trial: op %d trial %d "
                                             "level %d due at %r, clock %r, previous fetch at %r" % (i, t, l2, ts2, c, run["consumed"]),
                                             dict(defect="due_result_not_delivered")))
                                break
                run["consumed"] = c
    return viol


class Dual:
    """a quantity computed twice: in binary64 (as the implementation does) and exactly (as the model does)"""
    __slots__ = ("f", "x")

    def __init__(self, f, x=None):
        self.f = float(f)
        self.x = Fraction(f) if x is None else x

    def __add__(self, o):
        return Dual(self.f + o.f, self.x + o.x)

    def __sub__(self, o):
        return Dual(self.f - o.f, self.x - o.x)

    @staticmethod
    def max(a, b):
        return Dual(max(a.f, b.f), max(a.x, b.x))


def near_tie(spec, log, rel=1e-9):
    """True if the order of some event time of the run (recomputed from the table and the observed
    start / resume calls) and a moment with which the backend compares event times (the clock at a call,
    the clock inside a blocking stop/pause, a stop event's time) is different in binary64 and in exact
    arithmetic: then model (exact) and implementation (floats) legitimately process events in a different
    order. Only used to excuse a model/implementation difference, never a checker finding."""
    import bisect
    d = {k: Dual(v) for k, v in spec["delays"].items()}
    nudge, eps, sleep = Dual(NUDGE), Dual(EPS), Dual(spec["sleep"])
    ncfg = spec["nx"] * spec["ny"]
    marks, events = [], []
    clock = Dual(0.0)
    cfg, rp = {}, {}

    def run_events(te, idx, seed, mr, p):
        rows = spec["table"][idx][seed]
        lv = [(f, rows[j]) for j, f in enumerate(fids_of(spec)) if j < len(rows) and (mr is None or f <= mr)]
        if p is not None and spec["checkpointing"]:
            off = Dual(0.0)
            for f, row in lv:
                if f == p:
                    off = Dual(row[0])
            xs = [Dual(row[0]) - off for f, row in lv if f > p]
        else:
            xs = [Dual(row[0]) for f, row in lv]
        prev, last, out = None, te, []
        for x in xs:
            e = Dual.max(x, eps if prev is None else prev + eps)
            prev = e
            out.append(te + e + d["result"])
            last = Dual.max(last, te + e)
        out.append(last + d["complete"])
        return out

    for op in log:
        if "err" in op:
            break
        k = op["kind"]
        if k in ("start", "resume", "fetch"):
            clock = clock + Dual(op["dt"])
        elif k == "sleep":
            clock = clock + sleep
        elif k == "advto":
            clock = Dual.max(Dual(op["to"]), clock)
        elif k in ("pause", "stop"):
            c1 = clock + Dual(op["dt"])
            ts = c1 + d["stop"]
            c2 = Dual.max(ts + nudge, c1)
            tc = c2 + d["stopc"]
            clock = Dual.max(tc + nudge, c2)
            marks += [c1, ts, c2, tc]
            if k == "pause" and op["lvl"] is not None:
                rp[op["t"]] = op["lvl"]
        marks.append(clock)
        if k in ("start", "resume"):
            t = op["out"]
            if k == "start":
                cfg[t] = (op["cfg"], op["maxres"])
            elif op["newc"] is not None:
                cfg[t] = tuple(op["newc"])
            te = clock + d["start"]
            events.append(te)
            idx, mr = cfg.get(t, (ncfg, None))
            if idx < ncfg and (mr is None or mr >= 1):
                seeds = range(spec["nseeds"]) if spec["fixed_seed"] is None else [spec["fixed_seed"]]
                for s_ in seeds:
                    if 0 <= s_ < spec["nseeds"]:
                        events += run_events(te, idx, s_, mr, rp.get(t))
    marks.sort(key=lambda m: m.f)
    keys = [m.f for m in marks]
    for e in events:
        j = bisect.bisect_left(keys, e.f - rel * (abs(e.f) + 1.0))
        while j < len(marks) and marks[j].f <= e.f + rel * (abs(e.f) + 1.0):
            m = marks[j]
            if (e.f <= m.f) != (e.x <= m.x):
                return True
            j += 1
    return False


# --------------------------------------------------------------------------
# the event queue as a binary heap in a list (SimulatorState.event_heap vs model/Sim.v bh_*)
# --------------------------------------------------------------------------
HEAP_PRELUDE = r"""
Inductive hop := HPush (t : nat) (time : Q) | HRemove (t : nat) | HNext (until : Q).
Definition hcell := (Q * nat * nat)%type.      (* time, insertion counter, trial id *)
Fixpoint list_match2 {A B} (f : A -> B -> bool) (a : list A) (b : list B) : bool :=
  match a, b with
  | [], [] => true
  | x :: a', y :: b' => f x y && list_match2 f a' b'
  | _, _ => false
  end.
Definition cell_eqb (h : hentry) (c : hcell) : bool :=
  let '(tm, n, t) := c in Qeqb (h_time h) tm && Nat.eqb (h_cnt h) n && Nat.eqb (h_trial h) t.
Definition out_eqb (r : option hentry) (o : option hcell) : bool :=
  match r, o with
  | None, None => true
  | Some h, Some c => cell_eqb h c
  | _, _ => false
  end.
Fixpoint chk_heap_ops (s : bh_state) (l : list (hop * option hcell * list hcell)) : bool :=
  match l with
  | [] => true
  | (o, out, arr) :: r =>
      let '(res, s') := match o with
                        | HPush t tm => (None, bhs_push s t EvStart tm)
                        | HRemove t => (None, bhs_remove s t)
                        | HNext u => bhs_next_until s u
                        end in
      out_eqb res out && list_match2 cell_eqb (fst s') arr && is_heap_b (fst s') && chk_heap_ops s' r
  end.
Definition chk_heap_case (l : list (hop * option hcell * list hcell)) : bool := chk_heap_ops ([], 0%nat) l.
"""


def coq_cell(c):
    return "(%s, %s, %s)" % (q(c[0]), natlit(c[1]), natlit(c[2]))


def coq_heap_case(steps):
    items = []
    for st in steps:
        o = st["op"]
        if o[0] == "push":
            op = "HPush %s %s" % (natlit(o[1]), q(o[2]))
        elif o[0] == "remove":
            op = "HRemove %s" % natlit(o[1])
        else:
            op = "HNext %s" % q(o[1])
        items.append("\n  (%s, %s, %s)" % (op, optlit(st["out"], coq_cell), lst([coq_cell(c) for c in st["arr"]])))
    return lst(items)


def run_heap_ops(ops):
    """the real SimulatorState (events.py): push / remove_events / next_until; after every call the
    public attribute event_heap (the heapq array) is read. Returns list of steps."""
    import_backend()
    from syne_tune.backend.simulator_backend.events import SimulatorState, StartEvent
    st = SimulatorState()
    steps = []
    for o in ops:
        out = None
        if o[0] == "push":
            st.push(StartEvent(trial_id=o[1]), event_time=o[2])
        elif o[0] == "remove":
            st.remove_events(o[1])
        else:
            r = st.next_until(o[1])
            if r is not None:
                tm, ev = r
                out = [float(tm), None, int(ev.trial_id)]
        arr = [[float(tm), int(cnt), int(ev.trial_id)] for tm, cnt, ev in st.event_heap]
        steps.append(dict(op=list(o), out=out, arr=arr))
    # the counter of a popped entry is not returned by next_until: it is the entry that disappeared
    prev = []
    for stp in steps:
        if stp["out"] is not None:
            gone = [c for c in prev if c not in stp["arr"]]
            stp["out"][1] = gone[0][1] if len(gone) == 1 else -1
        prev = stp["arr"]
    return steps


def check_heap_steps(steps):
    """independent checker: the array is a heap after every call, and next_until pops the minimal
    (time, insertion) key of the events queued before the call, if and only if it is due"""
    viol = []
    prev = []
    for i, stp in enumerate(steps):
        a = stp["arr"]
        for j in range(1, len(a)):
            if (a[(j - 1) // 2][0], a[(j - 1) // 2][1]) > (a[j][0], a[j][1]):
                viol.append(("event_heap is not a heap after call %d %r: entry %d %r is smaller than its parent %r"
                             % (i, stp["op"], j, a[j], a[(j - 1) // 2]), dict(defect="event_heap_not_a_heap", op=stp["op"][0])))
                break
        if stp["op"][0] == "next":
            mn = min(prev, key=lambda c: (c[0], c[1])) if prev else None
            want = mn if (mn is not None and mn[0] <= stp["op"][1]) else None
            got = stp["out"]
            if (want is None) != (got is None) or (want is not None and (want[0], want[1], want[2]) != (got[0], got[1], got[2])):
                viol.append(("next_until(%r) at call %d returned %r, the queued event with the smallest (time, insertion) key is %r"
                             % (stp["op"][1], i, got, mn), dict(defect="pop_not_minimum")))
        prev = a
    return viol
