"""Scripted whole-run harness for the real ``syne_tune.Tuner`` (used by the C01 / C12 drivers).

Everything the tuning loop does not own is answered from a *script* (class ``Script``):

=========  ==========================================================================
stream     meaning (one entry is consumed per ...)
=========  ==========================================================================
``world``  ... active worker looked at by ``ScriptedBackend._all_trial_results``:
           ``(reports, status)`` = new reports ``(metric, cost, timestamp)`` the worker has
           emitted since the last look, and the status it shows now
           (``InProgress | Completed | Failed | Stopped | Stopping``)
``ord``    ... ``fetch_status_results`` call: the order in which the running trials are listed
           (the tuner passes ``list(set)``, whose order is a CPython detail)
``dec``    ... ``scheduler.on_trial_result``: ``CONTINUE | PAUSE | STOP``
``sug``    ... ``scheduler.suggest``: ``None | ("start", cfg, ckpt|None) | ("resume", id, cfg|None)``
``clk``    ... evaluation of the stop criterion: value of ``TuningStatus.wallclock_time``
``ext``    ... evaluation of the stop criterion: value of an extra user criterion OR-ed to
           ``StoppingCriterion`` (``Tuner`` accepts any callable)
=========  ==========================================================================

A script either *generates* its answers lazily from a ``random.Random`` (and records them) or
*replays* recorded lists (``Script.from_record``); the recorded lists are exactly the oracle
functions handed to the Coq model (``model/Tuner.v``: ``fun n => nth n <list> <default>``).

The implementation trace is a list of tuples, one per call across the Tuner<->scheduler (``s_*``),
Tuner<->backend (``b_*``) and Tuner<->callback (``cb_*``) interfaces, recorded by
``ScriptedBackend`` (overrides of public ``TrialBackend`` methods that log and delegate to the
generic implementation), ``ScriptedScheduler`` / ``SchedulerRecorder`` and ``Recorder``.

No private attribute of a /repo class is read; the only patch is the ``time`` module object seen by
``syne_tune.tuning_status`` (fake ``perf_counter``), so that wall-clock is scripted.
"""
import contextlib
import io
import logging
import os
import tempfile
import traceback
from datetime import datetime
from pathlib import Path
from unittest import mock

STATUSES = ["InProgress", "Completed", "Failed", "Paused", "Stopped", "Stopping"]
ACTIVE = ("InProgress", "Stopping")
DEFAULT_WORLD = ([], "InProgress")


class HarnessAbort(BaseException):
    """Raised by the recorder when a run exceeds its hard poll limit (never expected)."""


# ------------------------------------------------------------------------------------------
# script
# ------------------------------------------------------------------------------------------
class Script:
    """Lazily generated (and recorded) or replayed oracle answers. ``profile`` keys (all optional):
    p_complete, p_fail, p_stop_ext, p_stopping : per-look probabilities of the visible status,
    max_reports : 0..max new reports per look, p_pause, p_stop : decision probabilities,
    p_none, p_resume, p_resume_bad, p_ckpt, p_newcfg : suggest kinds, polls : after this many polls the extra
    criterion fires and the world drains (every active worker ends), dt : clock increment scale,
    ts_jitter : spread of worker time stamps (interleaving of results of different trials),
    metric_grid : metric values are k/4 with k in 0..metric_grid, max_failed_total : cap on the number of jobs that
    fail (outside the drain phase)."""

    STREAMS = ("world", "ord", "dec", "sug", "clk", "ext")

    def __init__(self, rng=None, profile=None, record=None):
        self.rng = rng
        self.profile = dict(profile or {})
        self.rec = {k: [] for k in self.STREAMS}
        self.replay = record
        self.backend = None  # set by ScriptedBackend (public view of paused trials for 'resume')
        self._clock = float(self.profile.get("clock_start", 0.0))
        self._ts = 0
        self._n_failed = 0
        self._n_metrics = 0
        self.drain = False

    @classmethod
    def from_record(cls, record):
        return cls(record={k: list(record.get(k, [])) for k in cls.STREAMS})

    def record(self):
        return {k: list(v) for k, v in self.rec.items()}

    def _next(self, stream, gen, default):
        i = len(self.rec[stream])
        if self.replay is not None:
            v = self.replay[stream][i] if i < len(self.replay[stream]) else default
        else:
            v = gen()
        self.rec[stream].append(v)
        return v

    # -- world ---------------------------------------------------------------------------
    def world(self, trial_id, epoch):
        """``epoch`` = resource level the worker has reached (0 = nothing reported yet); only used by the
        generator (first report before completion, ``max_epochs``)."""
        def gen():
            p, r = self.profile, self.rng
            if self.drain:
                status = r.choice(["Completed", "Completed", "Failed", "Stopped"])
            else:
                u = r.random()
                a = p.get("p_complete", 0.1)
                b = a + p.get("p_fail", 0.04)
                c = b + p.get("p_stop_ext", 0.03)
                d = c + p.get("p_stopping", 0.03)
                status = ("Completed" if u < a else "Failed" if u < b else "Stopped" if u < c
                          else "Stopping" if u < d else "InProgress")
                if status == "Failed" and p.get("max_failed_total") is not None:
                    if self._n_failed >= p["max_failed_total"]:
                        status = "InProgress"   # profile: at most that many jobs fail in this run
                    else:
                        self._n_failed += 1
            k = r.randint(0, p.get("max_reports", 3))
            if r.random() < p.get("p_silent", 0.15):
                k = 0
            if status == "Completed" and epoch + k == 0 and r.random() < p.get("p_first_report", 0.85):
                k = 1  # a trial completing without ever reporting makes the tuner raise; keep that rare
            max_epochs = p.get("max_epochs")
            if max_epochs is not None:  # training scripts of real schedulers stop after max_epochs reports
                k = max(0, min(k, max_epochs - epoch))
                if epoch + k >= max_epochs and status in ("InProgress", "Stopping"):
                    status = "Completed"
            reps = []
            for _ in range(k):
                self._ts += 1
                ts = self._ts * 4 + r.randint(-p.get("ts_jitter", 6), p.get("ts_jitter", 6))
                if p.get("int_values"):   # the values are delivered as int / np.int64
                    metric, cost = float(r.randint(0, 10)), float(r.randint(0, 3))
                else:
                    metric = r.randint(0, p.get("metric_grid", 40)) / 4.0
                    cost = r.randint(0, 12) / 4.0
                    if "p_nonfinite" in p:
                        # diverged evaluations: the metric is NaN / +-inf; ``first_nan``: the very first value of the
                        # run is NaN (cost and timestamp stay finite)
                        if (p.get("first_nan") and self._n_metrics == 0) or r.random() < p["p_nonfinite"]:
                            metric = float("nan") if (p.get("first_nan") and self._n_metrics == 0) else \
                                r.choice([float("nan"), float("nan"), float("inf"), float("-inf")])
                self._n_metrics += 1
                reps.append([metric, cost, float(ts)])
            return [reps, status]
        v = self._next("world", gen, [[], "InProgress"])
        return [list(map(float, x)) for x in v[0]], v[1]

    # -- poll order ----------------------------------------------------------------------
    def order(self, trial_ids):
        def gen():
            ids = sorted(trial_ids)
            self.rng.shuffle(ids)
            return ids
        listed = self._next("ord", gen, [])
        running = list(trial_ids)
        seen, first = set(), []
        # same definition as model/Tuner.v poll_order: nodup keeps the LAST occurrence
        for i, t in enumerate(listed):
            if t in listed[i + 1:]:
                continue
            if t in running and t not in seen:
                first.append(t)
                seen.add(t)
        rest = [t for t in sorted(running) if t not in listed]
        return first + rest

    # -- scheduler -----------------------------------------------------------------------
    def decision(self):
        def gen():
            u = self.rng.random()
            a = self.profile.get("p_pause", 0.1)
            b = a + self.profile.get("p_stop", 0.1)
            return "PAUSE" if u < a else "STOP" if u < b else "CONTINUE"
        return self._next("dec", gen, "CONTINUE")

    def suggestion(self, new_trial_id):
        def gen():
            p, r = self.profile, self.rng
            u = r.random()
            if u < p.get("p_none", 0.03):
                return None
            paused = self.backend.paused_trial_ids() if self.backend is not None else []
            if u < p.get("p_none", 0.03) + p.get("p_resume", 0.3) and paused:
                t = r.choice(paused)
                return ["resume", t, r.randint(0, 999) if r.random() < p.get("p_newcfg", 0.3) else None]
            if r.random() < p.get("p_resume_bad", 0.01) and new_trial_id > 0:
                return ["resume", r.randint(0, new_trial_id + 1), None]  # usually not paused / unknown
            ck = r.randint(0, max(0, new_trial_id - 1)) if (new_trial_id > 0 and r.random() < p.get("p_ckpt", 0.15)) else None
            if r.random() < p.get("p_ckpt_missing", 0.0):
                ck = new_trial_id + r.randint(0, 2)   # clone from a trial that does not exist: copy_checkpoint raises
            return ["start", r.randint(0, 999), ck]
        return self._next("sug", gen, None)

    # -- criterion -------------------------------------------------------------------------
    def clock(self):
        def gen():
            self._clock += self.rng.randint(0, 8) / 4.0 * self.profile.get("dt", 1.0)
            return self._clock
        return float(self._next("clk", gen, 0.0))

    def extra(self, n_polls):
        def gen():
            if n_polls >= self.profile.get("polls", 25):
                self.drain = True
            return bool(self.drain)
        return bool(self._next("ext", gen, True))


# ------------------------------------------------------------------------------------------
# backend
# ------------------------------------------------------------------------------------------
def num_cast(name):
    """type of the metric / cost values in the result dicts a backend delivers (tabulated benchmarks deliver
    NumPy scalars such as float32, which are numbers but not instances of float)"""
    import numpy as np
    return {"float": float, "np.float64": np.float64, "np.float32": np.float32, "int": int, "np.int64": np.int64}[name]


NUM_TYPES = ("float", "np.float64", "np.float32", "int", "np.int64")


def make_backend_class():
    from syne_tune.backend.trial_backend import TrialBackend
    from syne_tune.backend.trial_status import TrialResult
    from syne_tune.constants import ST_WORKER_TIMESTAMP, ST_WORKER_COST, ST_WORKER_TIME

    class ScriptedBackend(TrialBackend):
        """In-memory workers. A worker is *active* while its status is InProgress/Stopping; only
        active workers change on their own (script stream ``world``), at the moments the generic
        code calls ``_all_trial_results``. ``_stop_trial`` -> Stopped, ``_pause_trial`` -> Paused,
        ``_schedule`` -> InProgress (LocalBackend's marker files behave the same way).
        Reports are dicts ``{"m", "epoch", "idx", st_worker_cost, st_worker_time, st_worker_timestamp}``;
        ``idx`` is the 0-based position in the trial's metrics list, ``epoch`` the resource level for real
        schedulers: it counts reports, and a resumed run continues after the epoch at which it was paused
        (as a training script restarted from the checkpoint of that moment would)."""

        def __init__(self, script, log, config_key="x", num_type="float", odd_field=None):
            super().__init__(delete_checkpoints=False)
            self.script, self.log, self.config_key = script, log, config_key
            self.odd_field = odd_field   # an extra reported field whose NAME collides with a column TuningStatus uses
            self.cast = num_cast(num_type)
            # harness-side statistics of the results the polls returned (what the criterion fields refer to)
            self.truth = dict(evaluations=0, min_m=None, max_m=None, cost_by_trial={})
            script.backend = self
            self.workers = {}          # trial_id -> dict(status, metrics, config, created)
            self.copies = []
            self.copy_fault = None
            self.status_after = []   # (call, trial, worker status) when pause_trial / stop_trial left another status behind
            self.n_polls = 0
            self.last_stdout_trial = None
            self.last_stdout_after_stop_all = False
            self.stop_all_called = False
            self.last_resume_error = None
            self.occupancy_checks = []  # (occupying ids, call) at every backend call, for the checker
            self.in_poll = False
            self.in_busy_look = False
            self.failed_in_poll = []    # (trial, poll number): the scripted job ended Failed, seen by that poll

        # ---- worker side (abstract methods of TrialBackend) -------------------------------
        def _schedule(self, trial_id, config):
            w = self.workers.get(trial_id)
            if w is None:
                self.workers[trial_id] = dict(status="InProgress", metrics=[], config=config, epoch=0,
                                              created=datetime(2020, 1, 1))
            else:
                w["status"] = "InProgress"
                w["config"] = config

        def _all_trial_results(self, trial_ids):
            res = []
            for t in trial_ids:
                w = self.workers[t]
                if w["status"] in ACTIVE:
                    reps, status = self.script.world(t, w["epoch"])
                    for metric, cost, ts in reps:
                        idx = len(w["metrics"])
                        w["epoch"] += 1
                        w["metrics"].append({"m": self.cast(metric), "epoch": w["epoch"], "idx": idx, "trial": t,
                                             ST_WORKER_COST: self.cast(cost), ST_WORKER_TIME: float(idx + 1),
                                             ST_WORKER_TIMESTAMP: ts})
                        if self.odd_field is not None:
                            w["metrics"][-1][self.odd_field] = "reported-%d" % idx
                    w["status"] = status
                    if status == "Failed" and self.in_poll:
                        # ground truth: this job ended Failed and a poll of the tuning loop is looking at it
                        self.failed_in_poll.append((t, self.n_polls))
                    elif status == "Failed" and self.in_busy_look:
                        # seen first by busy_trial_ids (start_jobs_without_delay=False): the trial is still listed as
                        # running, so the next poll of the loop (if there is one) shows it Failed
                        self.failed_in_poll.append((t, self.n_polls + 1))
                res.append(TrialResult(trial_id=t, config=w["config"], creation_time=w["created"],
                                       metrics=list(w["metrics"]), status=_status_const(w["status"])))
            return res

        def _pause_trial(self, trial_id, result):
            w = self.workers[trial_id]
            w["status"] = "Paused"
            if result is not None and "epoch" in result:
                w["epoch"] = result["epoch"]  # the checkpoint a resumed run starts from (later reports are lost)

        def _stop_trial(self, trial_id, result):
            self.workers[trial_id]["status"] = "Stopped"

        def _resume_trial(self, trial_id):
            pass

        def copy_checkpoint(self, src_trial_id, tgt_trial_id):
            if src_trial_id not in self.workers:
                # no trial of that id was ever started here, so there is no checkpoint to copy (fault inside the
                # inherited TrialBackend.start_trial, raised while other trials may be running)
                self.copy_fault = (src_trial_id, tgt_trial_id)
                raise FileNotFoundError("no checkpoint of trial %s" % src_trial_id)
            self.copies.append((src_trial_id, tgt_trial_id))

        def delete_checkpoint(self, trial_id):
            pass

        def busy_trial_ids(self):
            # like LocalBackend, which re-reads the status of its jobs: a fresh look at every active worker
            self.in_busy_look = True
            try:
                self._all_trial_results(sorted(self.workers))
            finally:
                self.in_busy_look = False
            busy = [(t, _status_const(w["status"])) for t, w in sorted(self.workers.items()) if w["status"] in ACTIVE]
            self._call(("b_busy", [t for t, _ in busy]))
            return busy

        def stdout(self, trial_id):
            self.last_stdout_trial = trial_id
            self.last_stdout_after_stop_all = self.stop_all_called
            return []

        def stderr(self, trial_id):
            return []

        def entrypoint_path(self):
            return Path("scripted_entrypoint.py")

        def set_entrypoint(self, entry_point):
            pass

        # ---- public view used by harness and checkers --------------------------------------
        def worker_statuses(self):
            return [self.workers[t]["status"] for t in sorted(self.workers)]

        def occupying(self):
            return sorted(t for t, w in self.workers.items() if w["status"] in ACTIVE)

        def paused_trial_ids(self):
            return sorted(t for t, w in self.workers.items() if w["status"] == "Paused")

        def _call(self, ev):
            self.occupancy_checks.append((self.occupying(), ev[0]))
            self.log(ev)

        # ---- recorded public API (log, then the generic implementation) ---------------------
        def start_trial(self, config, checkpoint_trial_id=None):
            occ = self.occupying()
            trial = super().start_trial(config=config, checkpoint_trial_id=checkpoint_trial_id)
            self.occupancy_checks.append((occ, "b_start"))
            self.log(("b_start", trial.trial_id, int(config.get(self.config_key, -1)), checkpoint_trial_id))
            return trial

        def resume_trial(self, trial_id, new_config=None):
            occ = self.occupying()
            try:
                trial = super().resume_trial(trial_id=trial_id, new_config=new_config)
            except (AssertionError, KeyError):
                self.last_resume_error = ("unknown" if not (0 <= trial_id < len(self.trial_ids)) else "not_paused",
                                          trial_id)
                raise
            self.occupancy_checks.append((occ, "b_resume"))
            self.log(("b_resume", trial_id, None if new_config is None else int(new_config.get(self.config_key, -1))))
            return trial

        def pause_trial(self, trial_id, result=None):
            self._call(("b_pause", trial_id))
            super().pause_trial(trial_id=trial_id, result=result)
            if self.workers[trial_id]["status"] != "Paused":   # the backend-specific _pause_trial did not run
                self.status_after.append(["pause_trial", trial_id, self.workers[trial_id]["status"]])

        def stop_trial(self, trial_id, result=None):
            self._call(("b_stop", trial_id))
            super().stop_trial(trial_id=trial_id, result=result)

        def fetch_status_results(self, trial_ids):
            order = self.script.order(list(trial_ids))
            self.n_polls += 1
            self._call(("b_fetch", list(order)))
            self.in_poll = True
            try:
                status_dict, results = super().fetch_status_results(order)
            finally:
                self.in_poll = False
            tr = self.truth
            for t, r in results:
                m, c = float(r["m"]), float(r[ST_WORKER_COST])
                tr["evaluations"] += 1
                if m == m:   # NaN is not below / above any threshold: "an evaluation reports a value below / above"
                    tr["min_m"] = m if tr["min_m"] is None else min(tr["min_m"], m)
                    tr["max_m"] = m if tr["max_m"] is None else max(tr["max_m"], m)
                tr["cost_by_trial"][t] = max(tr["cost_by_trial"].get(t, c), c)
            return status_dict, results

        def stop_all(self):
            self._call(("b_stop_all",))
            self.stop_all_called = True
            super().stop_all()

    return ScriptedBackend


def _status_const(name):
    from syne_tune.backend.trial_status import Status
    return {"InProgress": Status.in_progress, "Completed": Status.completed, "Failed": Status.failed,
            "Paused": Status.paused, "Stopped": Status.stopped, "Stopping": Status.stopping}[name]


def status_name(value):
    from syne_tune.backend.trial_status import Status
    return {Status.in_progress: "InProgress", Status.completed: "Completed", Status.failed: "Failed",
            Status.paused: "Paused", Status.stopped: "Stopped", Status.stopping: "Stopping"}[value]


# ------------------------------------------------------------------------------------------
# scheduler
# ------------------------------------------------------------------------------------------
def make_scheduler_class():
    from syne_tune.optimizer.scheduler import TrialScheduler, TrialSuggestion
    from syne_tune.config_space import randint

    class ScriptedScheduler(TrialScheduler):
        """Answers ``suggest`` / ``on_trial_result`` from the script, logs every call."""

        def __init__(self, script, log, odd_config=None):
            space = {"x": randint(0, 1000000)}
            if odd_config is not None:
                space[odd_config] = "configured"   # a (constant) hyperparameter with a colliding name
            super().__init__(config_space=space)
            self.script, self.log = script, log
            self.mode = "min"

        def _suggest(self, trial_id):
            ans = self.script.suggestion(trial_id)
            self.log(("s_suggest", trial_id, None if ans is None else list(ans)))
            if ans is None:
                return None
            if ans[0] == "start":
                return TrialSuggestion.start_suggestion(config={"x": ans[1]}, checkpoint_trial_id=ans[2])
            return TrialSuggestion.resume_suggestion(trial_id=ans[1], config=None if ans[2] is None else {"x": ans[2]})

        def on_trial_add(self, trial):
            self.log(("s_add", trial.trial_id))

        def on_trial_result(self, trial, result):
            d = self.script.decision()
            self.log(("s_result", trial.trial_id, result["idx"], d))
            return d

        def on_trial_remove(self, trial):
            self.log(("s_remove", trial.trial_id))

        def on_trial_complete(self, trial, result):
            self.log(("s_complete", trial.trial_id, result["idx"]))

        def on_trial_error(self, trial):
            self.log(("s_error", trial.trial_id))

        def metric_names(self):
            return ["m"]

        def metric_mode(self):
            return "min"

    return ScriptedScheduler


def record_scheduler(scheduler, log):
    """Wrap the public methods of a REAL scheduler instance (per instance, nothing in /repo changes)
    so that every call is logged in the same vocabulary as ScriptedScheduler."""
    inner = {k: getattr(scheduler, k) for k in ("suggest", "on_trial_add", "on_trial_result", "on_trial_remove",
                                                 "on_trial_complete", "on_trial_error")}

    def suggest(trial_id):
        s = inner["suggest"](trial_id)
        if s is None:
            log(("s_suggest", trial_id, None))
        elif s.spawn_new_trial_id:
            log(("s_suggest", trial_id, ["start", -1, s.checkpoint_trial_id]))
        else:
            log(("s_suggest", trial_id, ["resume", s.checkpoint_trial_id, None if s.config is None else -1]))
        return s

    def on_trial_add(trial):
        log(("s_add", trial.trial_id))
        return inner["on_trial_add"](trial)

    def on_trial_result(trial, result):
        d = inner["on_trial_result"](trial, result)
        log(("s_result", trial.trial_id, result["idx"], d))
        return d

    def on_trial_remove(trial):
        log(("s_remove", trial.trial_id))
        return inner["on_trial_remove"](trial)

    def on_trial_complete(trial, result):
        log(("s_complete", trial.trial_id, result["idx"]))
        return inner["on_trial_complete"](trial, result)

    def on_trial_error(trial):
        log(("s_error", trial.trial_id))
        return inner["on_trial_error"](trial)

    for k, f in dict(suggest=suggest, on_trial_add=on_trial_add, on_trial_result=on_trial_result,
                     on_trial_remove=on_trial_remove, on_trial_complete=on_trial_complete,
                     on_trial_error=on_trial_error).items():
        setattr(scheduler, k, f)
    return scheduler


# ------------------------------------------------------------------------------------------
# callback + criterion
# ------------------------------------------------------------------------------------------
def make_recorder_class():
    from syne_tune.tuner_callback import TunerCallback

    class Recorder(TunerCallback):
        """Logs every TunerCallback call; aborts a run that exceeds ``hard_limit`` iterations."""

        def __init__(self, log, hard_limit=400):
            self.log, self.hard_limit, self.iterations = log, hard_limit, 0
            self.tuner = None
            self.at_exit = None
            self.observe = None    # (backend, params): record observables at every iteration end
            self.loop_obs = []

        def on_tuning_start(self, tuner):
            self.tuner = tuner
            self.log(("cb_tuning_start",))

        def on_tuning_end(self):
            self.log(("cb_tuning_end",))
            status = self.tuner.tuning_status if self.tuner is not None else None
            if status is not None:  # counters at loop exit (before stop_all / mark_running_job_as_stopped)
                self.at_exit = dict(started=status.num_trials_started, completed=status.num_trials_completed,
                                    finished=status.num_trials_finished, failed=status.num_trials_failed)

        def on_loop_start(self):
            self.iterations += 1
            if self.iterations > self.hard_limit:
                raise HarnessAbort()
            self.log(("cb_loop_start",))

        def on_loop_end(self):
            self.log(("cb_loop_end",))
            if self.observe is not None and self.tuner is not None:
                # what the user's stop criterion refers to, at the end of EVERY iteration (whether or not the tuner
                # evaluates the criterion there): counters from the public TuningStatus API, statistics of the
                # delivered results and the scripted extra criterion from the harness itself
                backend, params = self.observe
                st = self.tuner.tuning_status
                budget = params.get("polls_budget")
                self.loop_obs.append(dict(
                    started=int(st.num_trials_started), completed=int(st.num_trials_completed),
                    finished=int(st.num_trials_finished), failed=int(st.num_trials_failed),
                    truth=dict(evaluations=backend.truth["evaluations"], min_m=backend.truth["min_m"],
                               max_m=backend.truth["max_m"], cost=float(sum(backend.truth["cost_by_trial"].values()))),
                    extra=None if budget is None else bool(backend.n_polls >= budget)))

        def on_fetch_status_results(self, trial_status_dict, new_results):
            self.log(("cb_fetch", [[t, status_name(v[1])] for t, v in trial_status_dict.items()],
                      [[t, r["idx"]] for t, r in new_results]))

        def on_trial_complete(self, trial, result):
            self.log(("cb_complete", trial.trial_id, result["idx"]))

        def on_trial_result(self, trial, status, result, decision):
            self.log(("cb_result", trial.trial_id, status_name(status), result["idx"], decision))

        def on_tuning_sleep(self, sleep_time):
            self.log(("cb_sleep",))

        def on_start_trial(self, trial):
            self.log(("cb_start", trial.trial_id))

        def on_resume_trial(self, trial):
            self.log(("cb_resume", trial.trial_id))

    return Recorder


class FakeTime:
    """Stands for the ``time`` module inside syne_tune.tuning_status (perf_counter only matters)."""

    def __init__(self):
        self.now = 0.0

    def perf_counter(self):
        return self.now

    def time(self):
        return self.now


class RecordingCriterion:
    """stop_criterion handed to the Tuner: StoppingCriterion(fields) OR the script's extra criterion.
    Sets the scripted wall-clock before evaluating; logs (criterion value, full _stop_condition value)."""

    def __init__(self, inner, script, log, fake_time, backend, max_failures):
        self.inner, self.script, self.log = inner, script, log
        self.fake_time, self.backend, self.max_failures = fake_time, backend, max_failures
        self.observations = []  # one dict per evaluation, see __call__

    def __call__(self, status):
        self.fake_time.now = self.script.clock()
        c = bool(self.inner(status))
        e = self.script.extra(self.backend.n_polls)
        crit = c or e
        # what the documented StoppingCriterion fields refer to, read from the public TuningStatus API, so that
        # a checker can re-evaluate the criterion independently of the implementation's answer ``c``
        stats = status.overall_metric_statistics
        self.observations.append(dict(
            wallclock=float(status.wallclock_time), evaluations=int(stats.count),
            started=int(status.num_trials_started), completed=int(status.num_trials_completed),
            finished=int(status.num_trials_finished), cost=float(status.cost),
            min_metrics={k: float(v) for k, v in stats.min_metrics.items()},
            max_metrics={k: float(v) for k, v in stats.max_metrics.items()},
            criterion=c, extra=e,
            truth=dict(evaluations=self.backend.truth["evaluations"], min_m=self.backend.truth["min_m"],
                       max_m=self.backend.truth["max_m"], cost=float(sum(self.backend.truth["cost_by_trial"].values())),
                       # the harness's own clock: run() is entered at fake time 0.0 (see run_tuner), so the wall-clock
                       # time spent in run() is the scripted clock value itself
                       wallclock=float(self.fake_time.now))))
        self.log(("stop_cond", crit, crit or status.num_trials_failed > self.max_failures))
        return crit


# ------------------------------------------------------------------------------------------
# one run
# ------------------------------------------------------------------------------------------
CRITERION_FIELDS = ("max_wallclock_time", "max_num_evaluations", "max_num_trials_started",
                    "max_num_trials_completed", "max_num_trials_finished", "max_cost",
                    "min_metric_value", "max_metric_value")


def run_tuner(params, script, scheduler_factory=None, hard_limit=400):
    """Runs the real Tuner.run(). ``params``: n_workers, async, wait, max_failures, criterion (dict with the
    StoppingCriterion fields; min/max_metric_value as a number for metric "m").
    ``scheduler_factory(log) -> real scheduler`` replaces the ScriptedScheduler (driver b).
    Returns dict(trace, outcome, smap, workers, counters, occupancy, iterations, aborted)."""
    from syne_tune import Tuner
    from syne_tune.stopping_criterion import StoppingCriterion
    import syne_tune.tuning_status as tuning_status_module

    trace = []
    log = trace.append
    logging.disable(logging.CRITICAL)
    backend = make_backend_class()(script, log, num_type=params.get("num_type", "float"),
                                   odd_field=params.get("odd_field"))
    if scheduler_factory is None:
        scheduler = make_scheduler_class()(script, log, odd_config=params.get("odd_config"))
    else:
        scheduler = record_scheduler(scheduler_factory(), log)
    recorder = make_recorder_class()(log, hard_limit=hard_limit)
    recorder.observe = (backend, params)
    crit = dict(params.get("criterion") or {})
    kw = {k: crit.get(k) for k in CRITERION_FIELDS}
    for k in ("min_metric_value", "max_metric_value"):
        if kw[k] is not None:
            kw[k] = {"m": kw[k]}
    fake_time = FakeTime()
    criterion = RecordingCriterion(StoppingCriterion(**kw), script, log, fake_time, backend, params["max_failures"])
    outcome = ["normal"]
    aborted = False
    replaced_exception = False
    sink = io.StringIO()
    old_folder = os.environ.get("SYNETUNE_FOLDER")
    try:
        with tempfile.TemporaryDirectory(prefix="verif-tuner-") as tmp, \
                mock.patch.object(tuning_status_module, "time", fake_time), \
                contextlib.redirect_stdout(sink):
            os.environ["SYNETUNE_FOLDER"] = tmp
            # the Tuner is CONSTRUCTED ``construct_gap`` seconds (fake clock) before run() is entered at time 0.0:
            # max_wallclock_time is a budget for run(), the time before it must not be charged
            fake_time.now = -float(params.get("construct_gap", 0.0))
            tuner = Tuner(trial_backend=backend, scheduler=scheduler, stop_criterion=criterion,
                          n_workers=params["n_workers"], sleep_time=0, max_failures=params["max_failures"],
                          tuner_name="verif-run", asynchronous_scheduling=params["async"],
                          wait_trial_completion_when_stopping=params["wait"], callbacks=[recorder],
                          suffix_tuner_name=False, save_tuner=False,
                          start_jobs_without_delay=params.get("sjwd", True))
            fake_time.now = 0.0
            try:
                tuner.run()
            except HarnessAbort:
                aborted = True
                outcome = ["aborted"]
            except Exception as e:  # canonical small enum; anything not raised by tuner/backend code is "exception"
                where = os.path.basename(traceback.extract_tb(e.__traceback__)[-1].filename)
                if isinstance(e, AssertionError) and where == "trial_backend.py" and backend.last_resume_error is not None:
                    kind, t = backend.last_resume_error
                    outcome = ["resume_" + kind, t]
                elif isinstance(e, AssertionError) and where == "tuner.py":
                    outcome = ["assert_budget"]
                elif isinstance(e, ValueError) and where == "tuner.py":
                    # both ValueErrors of tuner.py read the trial's stdout right before raising
                    outcome = ["failure_limit" if backend.last_stdout_after_stop_all else "no_metrics",
                               backend.last_stdout_trial]
                    # the failure-limit error of the finally block replaces an exception that was already in flight
                    replaced_exception = e.__context__ is not None
                elif isinstance(e, FileNotFoundError) and backend.copy_fault is not None:
                    outcome = ["ckpt_missing", backend.copy_fault[0]]
                else:
                    outcome = ["exception", type(e).__name__, where, str(e)[:200]]
            # everything the checkers and the model comparison look at is taken here, after the (first) run
            status = tuner.tuning_status
            smap = [[t, status_name(s)] for t, s in status.last_trial_status_seen.items()]
            counters = dict(started=status.num_trials_started, completed=status.num_trials_completed,
                            failed=status.num_trials_failed, finished=status.num_trials_finished,
                            running=status.num_trials_running,
                            evaluations=status.overall_metric_statistics.count, cost=float(status.cost))
            snapshot = dict(workers=backend.worker_statuses(), occupancy=list(backend.occupancy_checks),
                            iterations=recorder.iterations, n_trials=len(backend.trial_ids), at_exit=recorder.at_exit,
                            criterion_obs=list(criterion.observations), failed_in_poll=list(backend.failed_in_poll),
                            loop_obs=list(recorder.loop_obs))
            first_len = len(trace)
            second_outcome = None
            if params.get("rerun") and outcome == ["normal"]:
                # run() called again on the finished Tuner (its TuningStatus and the criterion's state are kept)
                try:
                    tuner.run()
                    second_outcome = ["normal"]
                except HarnessAbort:
                    second_outcome = ["aborted"]
                except Exception as e:
                    second_outcome = ["exception", type(e).__name__]
            second_trace = trace[first_len:]
            del trace[first_len:]
    finally:
        logging.disable(logging.NOTSET)
        if old_folder is None:
            os.environ.pop("SYNETUNE_FOLDER", None)
        else:
            os.environ["SYNETUNE_FOLDER"] = old_folder
    return dict(trace=trace, outcome=outcome, smap=smap, counters=counters, aborted=aborted, copies=backend.copies,
                copy_fault=backend.copy_fault, status_after=backend.status_after,
                replaced_exception=replaced_exception, second_trace=second_trace, second_outcome=second_outcome,
                **snapshot)


# ------------------------------------------------------------------------------------------
# Coq literals for model/Tuner.v
# ------------------------------------------------------------------------------------------
def coq_terms():
    """Returns helper functions turning params / script record / trace into Gallina terms."""
    from common import q, lst, natlit, zlit, optlit, blit

    def report(r):
        return "{| r_metric := %s; r_cost := %s; r_ts := %s |}" % (q(r[0]), q(r[1]), q(r[2]))

    def wentry(e):
        return "(%s, W%s)" % (lst([report(r) for r in e[0]]), e[1])

    def sug(s):
        if s is None:
            return "SNothing"
        if s[0] == "start":
            return "(SStart %s %s)" % (zlit(s[1]), optlit(s[2], natlit))
        return "(SResume %s %s)" % (natlit(s[1]), optlit(s[2], zlit))

    def natl(l):
        return lst([natlit(x) for x in l])

    def oracles(rec):
        return ("{| o_world := fun n => nth n %s ([], WInProgress); o_ord := fun n => nth n %s [];\n"
                "   o_dec := fun n => nth n %s CONTINUE; o_sug := fun n => nth n %s SNothing;\n"
                "   o_clk := fun n => nth n %s 0; o_ext := fun n => nth n %s true |}" % (
                    lst([wentry(e) for e in rec["world"]]), lst([natl(l) for l in rec["ord"]]),
                    lst(rec["dec"]), lst([sug(s) for s in rec["sug"]]),
                    lst([q(c) for c in rec["clk"]]), lst([blit(b) for b in rec["ext"]])))

    def params(p):
        c = p.get("criterion") or {}
        oq = lambda k: optlit(c.get(k), q)
        oz = lambda k: optlit(c.get(k), zlit)
        return ("{| n_workers := %s; async := %s; wait_completion := %s; max_failures := %s; sjwd := %s;\n"
                "   c_wallclock := %s; c_evals := %s; c_started := %s; c_completed := %s; c_finished := %s;\n"
                "   c_cost := %s; c_min_metric := %s; c_max_metric := %s |}" % (
                    natlit(p["n_workers"]), blit(p["async"]), blit(p["wait"]), natlit(p["max_failures"]),
                    blit(p.get("sjwd", True)),
                    oq("max_wallclock_time"), oz("max_num_evaluations"), oz("max_num_trials_started"),
                    oz("max_num_trials_completed"), oz("max_num_trials_finished"), oq("max_cost"),
                    oq("min_metric_value"), oq("max_metric_value")))

    def event(ev):
        k = ev[0]
        n = natlit
        if k == "cb_tuning_start": return "ECbTuningStart"
        if k == "cb_loop_start": return "ECbLoopStart"
        if k == "cb_loop_end": return "ECbLoopEnd"
        if k == "cb_sleep": return "ECbSleep"
        if k == "cb_tuning_end": return "ECbTuningEnd"
        if k == "b_fetch": return "EBFetch %s" % natl(ev[1])
        if k == "cb_fetch":
            return "ECbFetch %s %s" % (lst(["(%s, %s)" % (n(t), s) for t, s in ev[1]]),
                                       lst(["(%s, %s)" % (n(t), n(i)) for t, i in ev[2]]))
        if k == "s_result": return "ESResult %s %s %s" % (n(ev[1]), n(ev[2]), ev[3])
        if k == "cb_result": return "ECbResult %s %s %s %s" % (n(ev[1]), ev[2], n(ev[3]), ev[4])
        if k == "b_stop": return "EBStop %s" % n(ev[1])
        if k == "b_pause": return "EBPause %s" % n(ev[1])
        if k == "s_remove": return "ESRemove %s" % n(ev[1])
        if k == "s_complete": return "ESComplete %s %s" % (n(ev[1]), n(ev[2]))
        if k == "cb_complete": return "ECbComplete %s %s" % (n(ev[1]), n(ev[2]))
        if k == "s_error": return "ESError %s" % n(ev[1])
        if k == "s_suggest": return "ESSuggest %s %s" % (n(ev[1]), sug(ev[2]))
        if k == "b_start": return "EBStart %s %s %s" % (n(ev[1]), zlit(ev[2]), optlit(ev[3], natlit))
        if k == "s_add": return "ESAdd %s" % n(ev[1])
        if k == "cb_start": return "ECbStart %s" % n(ev[1])
        if k == "b_resume": return "EBResume %s %s" % (n(ev[1]), optlit(ev[2], zlit))
        if k == "cb_resume": return "ECbResume %s" % n(ev[1])
        if k == "stop_cond": return "EStopCond %s %s" % (blit(ev[1]), blit(ev[2]))
        if k == "b_stop_all": return "EBStopAll"
        if k == "b_busy": return "EBBusy %s" % natl(ev[1])
        raise ValueError("unknown event %r" % (ev,))

    def trace(tr):
        return lst(["\n   " + event(e) for e in tr])

    def outcome(o):
        if o[0] == "normal": return "Normal"
        if o[0] == "no_metrics": return "(Raised (ENoMetrics %s))" % natlit(o[1])
        if o[0] == "assert_budget": return "(Raised EAssertBudget)"
        if o[0] == "resume_not_paused": return "(Raised (EResumeNotPaused %s))" % natlit(o[1])
        if o[0] == "resume_unknown": return "(Raised (EResumeUnknown %s))" % natlit(o[1])
        if o[0] == "failure_limit": return "(Raised (EFailureLimit %s))" % natlit(o[1])
        if o[0] == "ckpt_missing": return "(Raised (ECkptMissing %s))" % natlit(o[1])
        raise ValueError("outcome %r has no model counterpart" % (o,))

    def smap(m):
        return lst(["(%s, %s)" % (natlit(t), s) for t, s in m])

    def statuses(l):
        return lst(list(l))

    return dict(oracles=oracles, params=params, trace=trace, outcome=outcome, smap=smap, statuses=statuses,
                event=event)
