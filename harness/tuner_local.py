"""C12 stream (d): the real ``LocalBackend`` with real OS processes - "when run() returns, normally or by
exception, no trial is left running in the backend".

Scenario (what a promotion-type multi-fidelity scheduler with max_resource_attr does all the time): a training
script reports ``steps`` results and ends by itself; the scheduler pauses the trial at its last result - the poll
that delivers that result already sees the process finished -, resumes it later with a larger ``steps`` (a long
job), and the stop criterion (or an exception raised by the scheduler) ends run() while the resumed job is running.
After run() returned, every subprocess the backend started must have terminated; a few seconds of grace are given
because killing is asynchronous. A handful of runs only: they take real time (about 1-2 s each).

The training script writes the report lines of ``syne_tune.report`` by hand (``[tune-metric]: {json}``), so that a
job starts in milliseconds (no import of syne_tune in the subprocess)."""
import contextlib
import io
import logging
import os
import tempfile
import time

SCRIPT = r'''
import argparse, json, sys, time
p = argparse.ArgumentParser()
p.add_argument("--steps", type=int)
p.add_argument("--first", type=int, default=0)
p.add_argument("--sleep", type=float)
p.add_argument("--crash", type=int, default=0)   # signal number the job sends to itself after its first report
p.add_argument("--gate", type=int, default=0)    # 1: after the first report, wait for the file <trial dir>/gate
p.add_argument("--st_checkpoint_dir", type=str, default=None)
p.add_argument("--sigterm", type=int, default=0)  # 1: the script ignores SIGTERM, 2: it handles it and goes on for a while
a, _ = p.parse_known_args()
if a.sigterm:
    import signal
    signal.signal(signal.SIGTERM, signal.SIG_IGN if a.sigterm == 1 else (lambda *_: None))
t0 = time.time()
for step in range(a.first + 1, a.steps + 1):
    time.sleep(a.sleep)
    if a.gate and step == a.first + 2 and a.st_checkpoint_dir:
        import os
        gate = os.path.join(os.path.dirname(a.st_checkpoint_dir.rstrip("/")), "gate")
        t_wait = time.time()
        while not os.path.exists(gate) and time.time() - t_wait < 15:
            time.sleep(0.005)
    print("[tune-metric]: " + json.dumps({"step": step, "m": 1.0 / step, "st_worker_timestamp": time.time(),
                                          "st_worker_time": time.time() - t0, "st_worker_iter": step - a.first - 1}))
    sys.stdout.flush()
    if a.crash:
        import os, resource
        resource.setrlimit(resource.RLIMIT_CORE, (0, 0))   # no core dump
        os.kill(os.getpid(), a.crash)                      # SIGSEGV / SIGABRT / SIGKILL: the job dies hard
        time.sleep(5)
'''


def make_scheduler(spec, log):
    from syne_tune.optimizer.scheduler import TrialScheduler, TrialSuggestion, SchedulerDecision

    class PauseAtExitThenPromote(TrialScheduler):
        """starts ``n_trials`` short jobs (``first_steps`` reports each), pauses each at its last report, resumes
        them one after the other as long jobs; optionally raises in on_trial_result of a resumed trial"""

        def __init__(self):
            super().__init__(config_space={"steps": spec["first_steps"], "first": 0, "sleep": spec["sleep_short"]})
            self.started, self.paused, self.resumed = 0, [], []

        def _suggest(self, trial_id):
            if self.paused:
                t = self.paused.pop(0)
                self.resumed.append(t)
                log(("s_suggest", trial_id, ["resume", t, -1]))
                return TrialSuggestion.resume_suggestion(
                    trial_id=t, config={"steps": spec["long_steps"], "first": spec["first_steps"], "sleep": spec["sleep_long"]})
            if self.started < spec["n_trials"]:
                self.started += 1
                log(("s_suggest", trial_id, ["start", -1, None]))
                return TrialSuggestion.start_suggestion(dict(self.config_space))
            log(("s_suggest", trial_id, None))
            return None

        def on_trial_result(self, trial, result):
            t = trial.trial_id
            if t in self.resumed:
                if spec.get("raise_in_scheduler") and result["step"] >= spec["first_steps"] + 2:
                    raise RuntimeError("scheduler breaks down")
                d = SchedulerDecision.CONTINUE
            elif result["step"] >= spec["first_steps"]:
                self.paused.append(t)
                d = SchedulerDecision.PAUSE
            else:
                d = SchedulerDecision.CONTINUE
            log(("s_result", t, result["step"], d))
            return d

        def metric_names(self):
            return ["m"]

        def metric_mode(self):
            return "min"

    return PauseAtExitThenPromote()


def run_local_case(spec):
    """Returns dict(trace, outcome, exit_seen_with_last_result, alive, statuses)."""
    from syne_tune import Tuner, StoppingCriterion
    from syne_tune.backend import LocalBackend
    from syne_tune.backend.trial_status import Status
    from syne_tune.tuner_callback import TunerCallback

    trace = []
    log = trace.append
    flags = dict(exit_seen=False)

    class Observer(TunerCallback):
        def on_fetch_status_results(self, trial_status_dict, new_results):
            for t, r in new_results:
                if r["step"] == spec["first_steps"] and trial_status_dict[t][1] == Status.completed:
                    flags["exit_seen"] = True   # the process had ended when its last result was fetched
            log(("cb_fetch", [[t, str(v[1])] for t, v in trial_status_dict.items()], [[t, r["step"]] for t, r in new_results]))

    logging.disable(logging.CRITICAL)
    old_folder = os.environ.get("SYNETUNE_FOLDER")
    outcome, alive, statuses = ["normal"], [], []
    try:
        with tempfile.TemporaryDirectory(prefix="verif-local-") as tmp, contextlib.redirect_stdout(io.StringIO()):
            os.environ["SYNETUNE_FOLDER"] = tmp
            script = os.path.join(tmp, "train_steps.py")
            with open(script, "w") as f:
                f.write(SCRIPT)
            backend = LocalBackend(entry_point=script)
            scheduler = make_scheduler(spec, log)
            tuner = Tuner(trial_backend=backend, scheduler=scheduler,
                          stop_criterion=StoppingCriterion(max_num_evaluations=spec["max_evals"], max_wallclock_time=20),
                          n_workers=spec["n_workers"], sleep_time=spec["poll"], max_failures=3, tuner_name="verif-local",
                          callbacks=[Observer()], suffix_tuner_name=False, save_tuner=False)
            try:
                tuner.run()
            except Exception as e:
                outcome = ["exception", type(e).__name__]
            procs = dict(backend.trial_subprocess)   # public attribute: trial id -> Popen of its current job
            deadline = time.time() + 3.0
            while time.time() < deadline and any(p.poll() is None for p in procs.values()):
                time.sleep(0.05)
            alive = sorted(t for t, p in procs.items() if p.poll() is None)
            for p in procs.values():   # never leave anything behind, whatever the verdict
                if p.poll() is None:
                    p.kill()
            for p in procs.values():
                with contextlib.suppress(Exception):
                    p.wait(timeout=2)
            statuses = [[t, str(s)] for t, s in tuner.tuning_status.last_trial_status_seen.items()]
    finally:
        logging.disable(logging.NOTSET)
        if old_folder is None:
            os.environ.pop("SYNETUNE_FOLDER", None)
        else:
            os.environ["SYNETUNE_FOLDER"] = old_folder
    resumed = [ev for ev in trace if ev[0] == "s_suggest" and ev[2] is not None and ev[2][0] == "resume"]
    return dict(trace=trace, outcome=outcome, exit_seen=flags["exit_seen"], alive=alive, statuses=statuses,
                resumed=len(resumed))



# ------------------------------------------------------------------------------------------------------
# jobs that die from a signal the backend did not send (segmentation fault, abort, OOM kill)
# ------------------------------------------------------------------------------------------------------
def run_crash_case(spec):
    """n_workers=1, every job reports once and then kills itself with ``spec['signal']``; the failure limit is the
    criterion that has to end the run. Returns dict(outcome, statuses, failed, started, alive)."""
    from syne_tune import Tuner, StoppingCriterion
    from syne_tune.backend import LocalBackend
    from syne_tune.optimizer.scheduler import TrialScheduler, TrialSuggestion, SchedulerDecision

    class StartOnly(TrialScheduler):
        def __init__(self):
            super().__init__(config_space={"steps": 50, "first": 0, "sleep": 0.01, "crash": spec["signal"]})

        def _suggest(self, trial_id):
            return TrialSuggestion.start_suggestion(dict(self.config_space))

        def on_trial_result(self, trial, result):
            return SchedulerDecision.CONTINUE

        def metric_names(self):
            return ["m"]

        def metric_mode(self):
            return "min"

    logging.disable(logging.CRITICAL)
    old_folder = os.environ.get("SYNETUNE_FOLDER")
    outcome, statuses, alive, failed, started = ["normal"], [], [], 0, 0
    try:
        with tempfile.TemporaryDirectory(prefix="verif-local-") as tmp, contextlib.redirect_stdout(io.StringIO()):
            os.environ["SYNETUNE_FOLDER"] = tmp
            script = os.path.join(tmp, "train_steps.py")
            with open(script, "w") as f:
                f.write(SCRIPT)
            backend = LocalBackend(entry_point=script)
            tuner = Tuner(trial_backend=backend, scheduler=StartOnly(),
                          stop_criterion=StoppingCriterion(max_num_trials_started=spec["safety_net"], max_wallclock_time=20),
                          n_workers=1, sleep_time=spec["poll"], max_failures=spec["max_failures"], tuner_name="verif-local-crash",
                          callbacks=[], suffix_tuner_name=False, save_tuner=False)
            try:
                tuner.run()
            except ValueError as e:
                outcome = ["failure_limit", str(e)[:60]]
            except Exception as e:
                outcome = ["exception", type(e).__name__]
            procs = dict(backend.trial_subprocess)
            deadline = time.time() + 3.0
            while time.time() < deadline and any(p.poll() is None for p in procs.values()):
                time.sleep(0.05)
            alive = sorted(t for t, p in procs.items() if p.poll() is None)
            for p in procs.values():
                if p.poll() is None:
                    p.kill()
            for p in procs.values():
                with contextlib.suppress(Exception):
                    p.wait(timeout=2)
            st = tuner.tuning_status
            statuses = [[t, str(s)] for t, s in st.last_trial_status_seen.items()]
            failed, started = int(st.num_trials_failed), int(st.num_trials_started)
    finally:
        logging.disable(logging.NOTSET)
        if old_folder is None:
            os.environ.pop("SYNETUNE_FOLDER", None)
        else:
            os.environ["SYNETUNE_FOLDER"] = old_folder
    return dict(outcome=outcome, statuses=statuses, failed=failed, started=started, alive=alive)


def run_race_case(spec):
    """The worker writes its FINAL reports and exits exactly between the two reads one poll of LocalBackend makes
    (job status, job log): every job reports step 1, then waits for the file <trial dir>/gate, then reports steps
    2..steps and exits with code 0. The harness wraps ``backend._read_status``: when it is called for a job that is alive
    and whose first report is in the log, the gate is opened and the call waits for the process to exit before the
    original method reads the status. Whatever the poll returns for the trial must be consistent: a trial reported
    as completed comes with all the reports its job wrote. Returns dict(outcome, delivered, completed, opened)."""
    from syne_tune import Tuner, StoppingCriterion
    from syne_tune.backend import LocalBackend
    from syne_tune.optimizer.scheduler import TrialScheduler, TrialSuggestion, SchedulerDecision
    from syne_tune.tuner_callback import TunerCallback

    steps = spec["steps"]
    events = []

    class StartOnly(TrialScheduler):
        def __init__(self):
            super().__init__(config_space={"steps": steps, "first": 0, "sleep": 0.01, "gate": 1})

        def _suggest(self, trial_id):
            return TrialSuggestion.start_suggestion(dict(self.config_space))

        def on_trial_result(self, trial, result):
            events.append(["s_result", trial.trial_id, int(result["step"])])
            return SchedulerDecision.CONTINUE

        def on_trial_complete(self, trial, result):
            events.append(["s_complete", trial.trial_id, int(result["step"])])

        def on_trial_error(self, trial):
            events.append(["s_error", trial.trial_id])

        def metric_names(self):
            return ["m"]

        def metric_mode(self):
            return "min"

    logging.disable(logging.CRITICAL)
    old_folder = os.environ.get("SYNETUNE_FOLDER")
    outcome, opened = ["normal"], []
    try:
        with tempfile.TemporaryDirectory(prefix="verif-local-") as tmp, contextlib.redirect_stdout(io.StringIO()):
            os.environ["SYNETUNE_FOLDER"] = tmp
            script = os.path.join(tmp, "train_steps.py")
            with open(script, "w") as f:
                f.write(SCRIPT)
            backend = LocalBackend(entry_point=script)
            read_status = backend._read_status

            def hooked_read_status(trial_id):
                proc = backend.trial_subprocess.get(trial_id)
                gate = backend.trial_path(trial_id) / "gate"
                if proc is not None and proc.poll() is None and not gate.exists() \
                        and any("tune-metric" in line for line in backend.stdout(trial_id)):
                    gate.touch()
                    opened.append(trial_id)
                    with contextlib.suppress(Exception):
                        proc.wait(timeout=15)
                return read_status(trial_id)

            backend._read_status = hooked_read_status
            tuner = Tuner(trial_backend=backend, scheduler=StartOnly(),
                          stop_criterion=StoppingCriterion(max_num_trials_completed=spec["n_complete"] - 1, max_wallclock_time=25),
                          n_workers=spec["n_workers"], sleep_time=spec["poll"], max_failures=0, tuner_name="verif-local-race",
                          callbacks=[], suffix_tuner_name=False, save_tuner=False)
            try:
                tuner.run()
            except Exception as e:
                outcome = ["exception", type(e).__name__, str(e)[:120]]
            for p in dict(backend.trial_subprocess).values():
                if p.poll() is None:
                    p.kill()
                with contextlib.suppress(Exception):
                    p.wait(timeout=2)
    finally:
        logging.disable(logging.NOTSET)
        if old_folder is None:
            os.environ.pop("SYNETUNE_FOLDER", None)
        else:
            os.environ["SYNETUNE_FOLDER"] = old_folder
    return dict(outcome=outcome, events=events, opened=opened)


def run_sigterm_case(spec):
    """Jobs whose training script ignores (or handles and survives) SIGTERM; the scheduler answers STOP / PAUSE to the
    first result of trial 0 while its job has many steps left. After stop_trial / pause_trial the backend marks the trial
    stopped / paused and frees the worker, so the job's PROCESS has to be gone: observed on the Popen objects the backend
    holds, ``grace`` seconds after run() returned (the decision was taken earlier still). Also counts the report lines
    the stopped job appended to its std.out after the call. All processes are killed by the harness at the end."""
    from syne_tune import Tuner, StoppingCriterion
    from syne_tune.backend import LocalBackend
    from syne_tune.optimizer.scheduler import TrialScheduler, TrialSuggestion, SchedulerDecision

    decisions = []

    class StopFirst(TrialScheduler):
        def __init__(self):
            super().__init__(config_space={"steps": spec["steps"], "first": 0, "sleep": 0.05, "sigterm": spec["sigterm"]})

        def _suggest(self, trial_id):
            return TrialSuggestion.start_suggestion(dict(self.config_space))

        def on_trial_result(self, trial, result):
            if trial.trial_id == 0 and not decisions:
                decisions.append(spec["decision"])
                return SchedulerDecision.STOP if spec["decision"] == "STOP" else SchedulerDecision.PAUSE
            return SchedulerDecision.CONTINUE

        def metric_names(self):
            return ["m"]

        def metric_mode(self):
            return "min"

    logging.disable(logging.CRITICAL)
    old_folder = os.environ.get("SYNETUNE_FOLDER")
    outcome, alive, lines_at_call, lines_later, called = ["normal"], [], None, None, []
    procs = {}
    try:
        with tempfile.TemporaryDirectory(prefix="verif-local-") as tmp, contextlib.redirect_stdout(io.StringIO()):
            os.environ["SYNETUNE_FOLDER"] = tmp
            script = os.path.join(tmp, "train_steps.py")
            with open(script, "w") as f:
                f.write(SCRIPT)
            backend = LocalBackend(entry_point=script)
            n_lines = lambda t: sum(1 for line in backend.stdout(t) if "tune-metric" in line)
            for name in ("stop_trial", "pause_trial"):
                def hooked(trial_id, result=None, _orig=getattr(backend, name), _name=name):
                    out = _orig(trial_id=trial_id, result=result)
                    called.append([_name, trial_id, time.time(), n_lines(trial_id)])
                    return out
                setattr(backend, name, hooked)
            tuner = Tuner(trial_backend=backend, scheduler=StopFirst(),
                          stop_criterion=StoppingCriterion(max_num_trials_started=1, max_wallclock_time=20),
                          n_workers=1, sleep_time=spec["poll"], max_failures=0, tuner_name="verif-local-sigterm",
                          callbacks=[], suffix_tuner_name=False, save_tuner=False)
            try:
                try:
                    tuner.run()
                except Exception as e:
                    outcome = ["exception", type(e).__name__, str(e)[:120]]
                procs = dict(backend.trial_subprocess)
                deadline = time.time() + spec["grace"]
                while time.time() < deadline and any(p.poll() is None for p in procs.values()):
                    time.sleep(0.05)
                alive = sorted(t for t, p in procs.items() if p.poll() is None)
                first = [c for c in called if c[1] == 0]
                if first:
                    lines_at_call, lines_later = first[0][3], n_lines(0)
            finally:
                for p in dict(backend.trial_subprocess).values():
                    if p.poll() is None:
                        p.kill()
                    with contextlib.suppress(Exception):
                        p.wait(timeout=3)
    finally:
        logging.disable(logging.NOTSET)
        if old_folder is None:
            os.environ.pop("SYNETUNE_FOLDER", None)
        else:
            os.environ["SYNETUNE_FOLDER"] = old_folder
    return dict(outcome=outcome, alive=alive, called=[[c[0], c[1]] for c in called], decided=list(decisions),
                lines_at_call=lines_at_call, lines_later=lines_later)


def check_sigterm(spec, out):
    if not out["decided"] or not out["called"]:
        return []
    if out["alive"] or (out["lines_later"] or 0) > (out["lines_at_call"] or 0) + 2:
        return [("the job scripts handle SIGTERM (mode %d); the scheduler answered %s for trial 0, %s returned and the worker was "
                 "given to trial 1; %.1f s after run() returned the processes of trials %s are still alive; the job of "
                 "trial 0 had written %s reports when the call returned and %s later (n_workers=1)"
                 % (spec["sigterm"], spec["decision"], [c[0] for c in out["called"]], spec["grace"], out["alive"],
                    out["lines_at_call"], out["lines_later"]),
                 dict(check="budget", event="process_alive_after_stop_or_pause", backend="local", decision=spec["decision"]))]
    return []


def gen_sigterm_spec(rng, k):
    return dict(kind="local", scenario="sigterm", sigterm=1 + k % 2, decision=["STOP", "PAUSE"][k % 2], steps=120,
                poll=rng.choice([0.1, 0.2]), grace=1.2)


def check_race(spec, out):
    """Every job whose gate was opened wrote reports 1..steps and exited with code 0 before the status was read: the
    scheduler is told about every report, in order, and then - once - that the trial completed, with the final report."""
    steps = spec["steps"]
    if out["outcome"][0] != "normal":
        return [("run() on the LocalBackend ended with %s although every job reports %d steps and exits with code 0"
                 % (out["outcome"], steps),
                 dict(check="callbacks", event="run_raised", backend="local", exception=out["outcome"][1]))]
    for t in out["opened"]:
        mine = [e for e in out["events"] if e[1] == t]
        ends = [i for i, e in enumerate(mine) if e[0] in ("s_complete", "s_error")]
        if not ends:
            continue   # the run ended before the end of this job was told (stop_all)
        before = [e[2] for e in mine[:ends[0]] if e[0] == "s_result"]
        after = [e for e in mine[ends[0] + 1:]]
        if mine[ends[0]][0] != "s_complete" or before != list(range(1, steps + 1)) or mine[ends[0]][2] != steps or after:
            return [("trial %d: its job wrote reports 1..%d and exited with code 0 between the two reads of one poll; the "
                     "scheduler was told %s: reports %s before the end, end event %s, afterwards %s"
                     % (t, steps, [e[0] for e in mine], before, mine[ends[0]], after),
                     dict(check="callbacks", event="complete_before_all_results_delivered", backend="local"))]
    return []


def gen_race_spec(rng, k):
    return dict(kind="local", scenario="race", steps=3 + k % 2, n_workers=1 + k % 2, n_complete=2, poll=rng.choice([0.1, 0.2]))


def run_local_race(ctx, replay_cases):
    specs = replay_cases if replay_cases is not None else (
        [gen_race_spec(ctx.rng, k) for k in range(ctx.n(2, 8))] + [gen_sigterm_spec(ctx.rng, k) for k in range(ctx.n(2, 6))])
    for spec in specs:
        if spec.get("scenario") == "sigterm":
            out = run_sigterm_case(spec)
            ctx.count(dict(spec), nontrivial=bool(out["decided"] and out["called"]))
            ctx.traces_validated += 1
            ctx.h("local_backend_sigterm", "%s,%s,alive=%d" % (out["outcome"][0], spec["decision"], len(out["alive"])))
            for what, sig in check_sigterm(spec, out):
                ctx.violation("property", "[LocalBackend] " + what, case=dict(spec), signature=sig)
            continue
        out = run_race_case(spec)
        ctx.count(dict(spec), nontrivial=bool(out["opened"]))
        ctx.traces_validated += 1
        ctx.h("local_backend_race", "%s,gates_opened=%d" % (out["outcome"][0], len(out["opened"])))
        for what, sig in check_race(spec, out):
            ctx.violation("property", "[LocalBackend] " + what, case=dict(spec), signature=sig)


def check_crash(spec, out):
    """Every job died from a signal after its first report: it FAILED (nobody stopped it). Hence: more than
    max_failures failures are counted, run() raises the failure-limit error, and - one worker, the failure is seen by
    the poll after the crash and one more trial is started in that same iteration - at most max_failures + 2 trials
    are ever started."""
    bad = []
    mf = spec["max_failures"]
    if out["outcome"][0] != "failure_limit" or out["failed"] <= mf:
        bad.append(("every job kills itself with signal %d after its first report, max_failures=%d: run() ended with %s, "
                    "num_trials_failed=%d, %d trials started, statuses %s" % (spec["signal"], mf, out["outcome"], out["failed"],
                                                                              out["started"], out["statuses"]),
                    dict(check="failure_limit", event="signal_killed_job_not_counted_as_failed", backend="local")))
    elif out["started"] > mf + 2:
        bad.append(("max_failures=%d but %d trials were started (every job crashes)" % (mf, out["started"]),
                    dict(check="failure_limit", event="trials_started_after_failure_limit", backend="local")))
    if out["alive"]:
        bad.append(("subprocesses of trials %s alive after run()" % out["alive"],
                    dict(check="finally", event="subprocess_alive_after_run", backend="local")))
    return bad

def gen_local_spec(rng, k):
    return dict(kind="local", n_workers=1 + k % 2, n_trials=1 + k % 2, first_steps=2, sleep_short=0.01,
                long_steps=400, sleep_long=0.05, poll=rng.choice([0.25, 0.35]), max_evals=2 * (1 + k % 2) + 2,
                raise_in_scheduler=(k % 3 == 2))


def gen_crash_spec(rng, k):
    import signal
    return dict(kind="local", scenario="crash", signal=int([signal.SIGSEGV, signal.SIGABRT, signal.SIGKILL][k % 3]),
                max_failures=k % 2, poll=rng.choice([0.15, 0.25]), safety_net=6)


def run_local(ctx, replay_cases):
    if replay_cases is not None:
        specs = replay_cases
    else:
        specs = [gen_local_spec(ctx.rng, k) for k in range(ctx.n(3, 12))] + [gen_crash_spec(ctx.rng, k) for k in range(ctx.n(2, 6))]
    for spec in specs:
        if spec.get("scenario") == "crash":
            out = run_crash_case(spec)
            ctx.count(dict(spec), nontrivial=True)
            ctx.traces_validated += 1
            ctx.h("local_backend_crash", "signal=%d,max_failures=%d,%s,failed=%d,started=%d" % (
                spec["signal"], spec["max_failures"], out["outcome"][0], out["failed"], out["started"]))
            for what, sig in check_crash(spec, out):
                ctx.violation("property", "[LocalBackend] " + what, case=dict(spec), signature=dict(sig, signal=spec["signal"]))
            continue
        out = None
        for attempt in range(3):   # the scenario needs the job's exit to be seen together with its last result
            out = run_local_case(spec)
            if out["exit_seen"] and out["resumed"] > 0:
                break
        ctx.count(dict(spec), nontrivial=bool(out["exit_seen"] and out["resumed"] > 0))
        ctx.traces_validated += 1
        ctx.h("local_backend", "%s,exit_seen_with_last_result=%s,resumed=%d" % (out["outcome"][0], out["exit_seen"], out["resumed"]))
        if out["alive"]:
            ctx.violation("property",
                          "[LocalBackend] after run() returned (%s) the subprocesses of trials %s are still running "
                          "(status map %s)" % (out["outcome"], out["alive"], out["statuses"]),
                          case=dict(spec), signature=dict(check="finally", event="subprocess_alive_after_run", backend="local",
                                                          resumed_after_exit=bool(out["exit_seen"])))
