"""Scripted backends / scheduler for the C02 driver (harness side only).

* FakeProcLocalBackend(LocalBackend): the real LocalBackend and the generic poll-based
  bookkeeping of TrialBackend are used UNCHANGED (marker files "pause"/"stop", std.out that is
  appended to over all runs of a trial and re-read at every poll, _read_status); only the process
  layer is replaced by scripted workers, which are gone only after they wrote `late` further
  reports following a pause/stop (the window between the scheduler's decision and the worker's end).
* ScriptedSimBackend(SimulatorBackend): the real simulator with a scripted
  `_run_job_and_collect_results` (what the tabular backends override too).
* ScriptedScheduler(TrialScheduler): answers suggest / on_trial_result from a
  policy object; records every call.
"""
import json
import os
import shutil
import tempfile
from pathlib import Path

from syne_tune.backend.local_backend import LocalBackend
from syne_tune.backend.trial_status import Status
from syne_tune.backend.simulator_backend.simulator_backend import SimulatorBackend, SimulatorConfig
from syne_tune.optimizer.scheduler import TrialScheduler, TrialSuggestion, SchedulerDecision
from syne_tune.constants import ST_WORKER_TIMESTAMP, ST_SAGEMAKER_METRIC_TAG

RUNNING, EXIT_OK, EXIT_FAIL, KILLED = "running", "ok", "fail", "killed"


def mk_report(ts, payload, epoch=None, elapsed=None, with_ts=True):
    r = {"v": int(payload)}
    if with_ts:
        r[ST_WORKER_TIMESTAMP] = ts
    if epoch is not None:
        r["epoch"] = epoch
    if elapsed is not None:
        r["elapsed"] = elapsed
    return r


class _Worker:
    def __init__(self):
        self.todo = []     # what the current run's worker will still write
        self.proc = None   # RUNNING | EXIT_OK | EXIT_FAIL | KILLED
        self.partial = False   # the line of the next report is begun (text without newline is in std.out)


class FakeProc:
    """Stands for the subprocess.Popen object of a trial's current run."""

    def __init__(self, backend, trial_id):
        self.backend, self.trial_id = backend, trial_id

    def poll(self):
        return {RUNNING: None, EXIT_OK: 0, EXIT_FAIL: 1, KILLED: -9}[self.backend.w[self.trial_id].proc]

    def kill(self):
        self.backend._kill_after(self.trial_id)

    # whatever signal the backend sends, the scripted worker is gone after its `late` further reports; that a
    # real worker is really gone after pause_trial is checked with real processes (drivers/c02.py realproc_cases)
    terminate = kill


class FakeProcLocalBackend(LocalBackend):
    """The real LocalBackend (fetch_status_results, start/resume/pause/stop_trial of TrialBackend;
    _all_trial_results, _read_status, _pause_trial, _resume_trial, _stop_trial, stdout of
    LocalBackend: marker files, std.out re-read at every poll) -- only the process layer is replaced:
    `_schedule` starts no process but a scripted worker that appends report lines to the real
    std.out when the world says so, and that is gone only after it wrote `next_late` further reports
    when it is killed."""

    def __init__(self):
        self._tmp = tempfile.mkdtemp(prefix="c02-local-")
        super().__init__(entry_point=__file__, rotate_gpus=False)
        self.local_path = Path(self._tmp)
        self.w = {}
        self.next_run = []      # report lists for the next _schedule calls
        self.next_eager = []    # per queued run: reports written at once when the job is launched
        self.last_eager = 0
        self.next_late = 0      # reports the worker still writes after the next pause/stop decision
        self.world_fn = None    # called before every poll reads: returns [(kind, trial_id, k), ...]
        self.late_emitted = {}  # trial_id -> payloads written in a decision window
        self.npolls = 0
        self.calls = []         # record of backend-level operations, in order
        self.mid_world = {}     # trial_id -> world events to happen BETWEEN the two reads of this poll
        self.post_world = []    # world events to happen after this poll, before busy_trial_ids is asked
        self.async_stop_polls = 0   # > 0: stop_trial is served with a delay (status "stopping" for that many polls,
        self.stopping = {}          #      the worker keeps running meanwhile), as remote job services do
        self.unobserved_exit = False   # some worker exited at a moment other than "before a poll reads"
        self._exited = []
        self._in_poll = False
        self._read_once = set()
        self.mid_fired = []

    def set_path(self, results_root=None, tuner_name=None):
        pass                    # keep the private temporary folder (one per backend object)

    def close(self):
        shutil.rmtree(self._tmp, ignore_errors=True)

    # ---- world -------------------------------------------------------------
    NOISE = {1: "step 12/50 loss=0.25 ", 2: "\x1b[2K> ", 5: "warning: something\nprogress 40% "}

    def _write(self, trial_id, reports):
        """a training script also prints other text; some of it is not terminated by a newline
        (print(..., end=""), progress bars), so that a report does not start its line"""
        w = self.w[trial_id]
        with open(self.trial_path(trial_id) / "std.out", "a") as f:
            for r in reports:
                prefix = "" if w.partial else self.NOISE.get(r["v"] % 7, "")   # a begun line is completed first
                w.partial = False
                f.write(prefix + "[%s]: %s\n" % (ST_SAGEMAKER_METRIC_TAG, json.dumps(r)))
                if r["v"] % 7 == 3:
                    f.write("epoch finished\n")

    def half(self, trial_id):
        """the worker has written (and flushed) the beginning of the line of its next report: a poll sees an
        unterminated last line; the line is completed by the next write"""
        w = self.w.get(trial_id)
        if w is None or w.proc != RUNNING or not w.todo or w.partial:
            return
        with open(self.trial_path(trial_id) / "std.out", "a") as f:
            f.write("loading batch 3/7 ")
        w.partial = True

    def emit(self, trial_id, k):
        w = self.w.get(trial_id)
        if w is None or w.proc != RUNNING:
            return
        self._write(trial_id, w.todo[:k])
        w.todo = w.todo[k:]

    def finish(self, trial_id):
        w = self.w.get(trial_id)
        if w is None or w.proc != RUNNING:
            return
        self._write(trial_id, w.todo)
        w.todo = []
        w.proc = EXIT_OK
        self.unobserved_exit = True
        self._exited.append(trial_id)

    def fail(self, trial_id, k):
        w = self.w.get(trial_id)
        if w is None or w.proc != RUNNING:
            return
        self.emit(trial_id, k)
        w.proc = EXIT_FAIL
        self.unobserved_exit = True

    def apply_world(self, evs):
        for kind, tid, k in evs:
            if kind == "emit":
                self.emit(tid, k)
            elif kind == "finish":
                self.finish(tid)
            elif kind == "fail":
                self.fail(tid, k)
            elif kind == "half":
                self.half(tid)
            self.calls.append((kind, tid, k))
            self._flush_exits()

    def _flush_exits(self):
        for tid in self._exited:
            self.calls.append(("exit_ok", tid))
        self._exited = []

    def _kill_after(self, trial_id):
        late, self.next_late = self.next_late, 0
        w = self.w[trial_id]
        if w.proc == RUNNING:
            self.late_emitted.setdefault(trial_id, []).extend(r["v"] for r in w.todo[:late])
            self._write(trial_id, w.todo[:late])
            w.todo = w.todo[late:]
            w.proc = KILLED

    # ---- the worker acting between the two reads of a poll (status file/process, std.out) -------
    def _mid(self, trial_id):
        """called after each of the two reads _all_trial_results makes for a trial; the scripted
        worker acts after the FIRST one, whichever it is"""
        if not self._in_poll or trial_id in self._read_once:
            return
        self._read_once.add(trial_id)
        for kind, k in self.mid_world.pop(trial_id, []):
            w = self.w.get(trial_id)
            if w is None or w.proc != RUNNING:
                continue
            if kind == "mid_emit":
                n = min(k, len(w.todo))
                self.emit(trial_id, k)
            elif kind == "mid_finish":
                n = len(w.todo)
                self.finish(trial_id)
            else:
                n = min(k, len(w.todo))
                self.fail(trial_id, k)
            self.mid_fired.append((kind, trial_id, n))

    def _read_status(self, trial_id):
        s = super()._read_status(trial_id)
        if trial_id in self.stopping and s not in (Status.stopped, Status.paused):
            s = Status.stopping
        self._mid(trial_id)
        return s

    def _stop_trial(self, trial_id, result):
        if self.async_stop_polls > 0:
            self.stopping[trial_id] = self.async_stop_polls    # the job goes on for a while
            self.next_late = 0
        else:
            super()._stop_trial(trial_id, result)

    def stdout(self, trial_id):
        lines = super().stdout(trial_id)
        self._mid(trial_id)
        return lines

    # ---- the process layer of LocalBackend -------------------------------------
    def queue_run(self, trial_id, reports, eager=0):
        self.next_run.append(list(reports))
        self.next_eager.append(eager)

    def _schedule(self, trial_id, config):
        os.makedirs(self.trial_path(trial_id), exist_ok=True)
        for name in ("std.out", "std.err"):
            open(self.trial_path(trial_id) / name, "a").close()
        w = self.w.setdefault(trial_id, _Worker())
        w.todo = list(self.next_run.pop(0))
        w.proc = RUNNING
        if w.partial:      # the killed run left a begun line: the new process starts on a fresh line
            with open(self.trial_path(trial_id) / "std.out", "a") as f:
                f.write("\n")
            w.partial = False
        self.trial_subprocess[trial_id] = FakeProc(self, trial_id)
        self._busy_trial_id_candidates.add(trial_id)
        # a fast job writes its first report(s) right at launch, before control returns from _schedule
        eager = self.next_eager.pop(0) if self.next_eager else 0
        self.last_eager = min(eager, len(w.todo))
        if self.last_eager:
            self.emit(trial_id, self.last_eager)

    # ---- recording wrappers (call the real implementation) -------------------
    def fetch_status_results(self, trial_ids, mid=None):
        for tid in list(self.stopping):      # a delayed stop takes effect after its number of polls
            self.stopping[tid] -= 1
            if self.stopping[tid] < 0:
                del self.stopping[tid]
                LocalBackend._stop_trial(self, tid, None)
        self._apply_post()      # not consumed by busy_trial_ids: happens before this poll reads
        evs = list(self.world_fn(self)) if self.world_fn is not None else []
        self.unobserved_exit_save = self.unobserved_exit
        self.apply_world([e for e in evs if not e[0].startswith(("mid_", "post_"))])
        self.unobserved_exit = self.unobserved_exit_save   # an exit before the poll reads is observed by it
        self.post_world = [(e[0][5:], e[1], e[2]) for e in evs if e[0].startswith("post_")]
        self.mid_world = {}
        for kind, tid, k in [e for e in evs if e[0].startswith("mid_")] + list(mid or []):
            self.mid_world.setdefault(tid, []).append((kind, k))
        self.npolls += 1
        ids = list(trial_ids)
        self._in_poll, self._read_once, self.mid_fired = True, set(), []
        try:
            st, res = super().fetch_status_results(ids)
        finally:
            self._in_poll = False
        self.calls.append(("poll", ids, [(i, r["v"]) for i, r in res], {i: s for i, (_, s) in st.items()},
                           list(self.mid_fired)))
        self._flush_exits()
        self.mid_world = {}     # events for trials that were not read in this poll do not happen
        return st, res

    def _apply_post(self):
        evs, self.post_world = self.post_world, []
        if evs:
            self.apply_world(evs)

    def busy_trial_ids(self):
        # the moment between fetch_status_results and busy_trial_ids of one tuner iteration
        self._apply_post()
        return super().busy_trial_ids()

    def start_trial(self, config, checkpoint_trial_id=None):
        reports = list(self.next_run[0])
        t = super().start_trial(config, checkpoint_trial_id)
        self.calls.append(("start", t.trial_id, reports))
        if self.last_eager:
            self.calls.append(("emit", t.trial_id, self.last_eager))
        return t

    def resume_trial(self, trial_id, new_config=None):
        reports = list(self.next_run[0]) if self.next_run else []
        t = super().resume_trial(trial_id, new_config)
        self.calls.append(("resume", trial_id, reports))
        if self.last_eager:
            self.calls.append(("emit", trial_id, self.last_eager))
        return t


class FakeTime:
    """Substituted for the `time` module inside simulator_backend.time_keeper: no real time passes."""

    def time(self):
        return 0.0


class ScriptedSimBackend(SimulatorBackend):
    """Real SimulatorBackend; only the job runner is scripted (no subprocess)."""

    def __init__(self, simulator_config, tuner_sleep_time):
        super().__init__(entry_point=__file__, elapsed_time_attr="elapsed",
                         simulator_config=simulator_config, tuner_sleep_time=tuner_sleep_time)
        self.next_run = {}   # trial_id -> reports of the run scheduled last for it
        self.calls = []
        self.started = []    # trial ids of jobs whose start event was processed, in order
        self.npolls = 0

    def queue_run(self, trial_id, reports, eager=0):
        self.next_run[trial_id] = list(reports)

    def _run_job_and_collect_results(self, trial_id, config=None):
        reports = self.next_run.pop(trial_id)
        self.started.append(trial_id)
        return Status.completed, [dict(r) for r in reports]

    def copy_checkpoint(self, src_trial_id, tgt_trial_id):
        pass

    def delete_checkpoint(self, trial_id):
        pass

    # snapshot through the documented hook: arrived reports and status per trial
    def snapshot(self):
        snap = {}
        for tr in self._all_trial_results(list(self.trial_ids)):
            snap[tr.trial_id] = (len(tr.metrics), tr.status)
        return snap

    def _wrap(self, name, fn, *args, tid=None):
        before = self.snapshot()
        nstarted = len(self.started)
        out = fn(*args)
        after = self.snapshot()
        self.calls.append(dict(op=name, tid=tid, before=before, after=after,
                               started=list(self.started[nstarted:])))
        return out

    def fetch_status_results(self, trial_ids):
        ids = list(trial_ids)
        self.npolls += 1
        st, res = self._wrap("poll", super().fetch_status_results, ids)
        self.calls[-1].update(ids=ids, batch=[(i, r["v"]) for i, r in res],
                              status={i: s for i, (_, s) in st.items()})
        return st, res

    def start_trial(self, config, checkpoint_trial_id=None):
        t = self._wrap("start", super().start_trial, config, checkpoint_trial_id)
        self.calls[-1]["tid"] = t.trial_id
        return t

    def resume_trial(self, trial_id, new_config=None):
        return self._wrap("resume", super().resume_trial, trial_id, new_config, tid=trial_id)

    def pause_trial(self, trial_id, result=None):
        return self._wrap("pause", super().pause_trial, trial_id, result, tid=trial_id)

    def stop_trial(self, trial_id, result=None):
        return self._wrap("stop", super().stop_trial, trial_id, result, tid=trial_id)


class ScriptedScheduler(TrialScheduler):
    """policy.suggest(trial_id) -> ("start", reports) | ("resume", id, reports);
    policy.decide(trial_id, result) -> (decision, late)."""

    def __init__(self, policy, backend):
        super().__init__(config_space={})
        self.policy = policy
        self.backend = backend
        self.log = []   # ("result", id, payload, decision, late) | ("add", id) | ("remove", id) | ("complete", id) | ("error", id)

    def suggest(self, trial_id):
        s = self.policy.suggest(trial_id)
        if s is None:
            return None
        if s[0] == "start":
            self.backend.queue_run(trial_id, s[1], *(s[2:3]))
            self.backend.calls.append(("suggest", "start", trial_id, [r["v"] for r in s[1]]))
            return TrialSuggestion.start_suggestion({"n": trial_id})
        self.backend.queue_run(s[1], s[2], *(s[3:4]))
        self.backend.calls.append(("suggest", "resume", s[1], [r["v"] for r in s[2]]))
        return TrialSuggestion.resume_suggestion(s[1])

    def on_trial_add(self, trial):
        self.log.append(("add", trial.trial_id))

    def on_trial_result(self, trial, result):
        dec, late = self.policy.decide(trial.trial_id, result)
        if hasattr(self.backend, "next_late"):
            self.backend.next_late = late if dec != "CONTINUE" else 0
        self.log.append(("result", trial.trial_id, result["v"], dec, late))
        self.backend.calls.append(("result", trial.trial_id, result["v"], dec, late))
        return {"CONTINUE": SchedulerDecision.CONTINUE, "PAUSE": SchedulerDecision.PAUSE,
                "STOP": SchedulerDecision.STOP}[dec]

    def on_trial_remove(self, trial):
        self.log.append(("remove", trial.trial_id))

    def on_trial_complete(self, trial, result):
        self.log.append(("complete", trial.trial_id))

    def on_trial_error(self, trial):
        self.log.append(("error", trial.trial_id))

    def metric_names(self):
        return ["v"]

    def metric_mode(self):
        return "min"


from syne_tune.results_callback import ExtraResultsComposer


class ScriptedComposer(ExtraResultsComposer):
    """extra columns for the results log; per its API it may return None ("nothing to append")"""

    def __init__(self, mode, backend=None):
        self.mode, self.backend, self.ncalls = mode, backend, 0
        self.answers = []     # what was answered at each call (None or the value of the extra column)

    def __call__(self, tuner):
        self.ncalls += 1
        ans = self.ncalls
        if self.mode == "none_always":
            ans = None
        elif self.mode == "none_odd" and self.ncalls % 2 == 1:
            ans = None
        elif self.mode == "none_until_completion" and tuner.tuning_status.num_trials_completed == 0:
            ans = None
        self.answers.append(ans)
        return None if ans is None else {"extra_calls": ans}

    def keys(self):
        return ["extra_calls"]
