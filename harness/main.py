"""./check <ID> [--tier quick|thorough] [--replay FILE]   (see DESIGN.md section 2)"""
import argparse
import hashlib
import importlib
import json
import os
import sys
import time
import traceback

sys.path.insert(0, os.path.dirname(os.path.abspath(__file__)))
import common  # noqa: E402
from common import VERIF, Ctx  # noqa: E402


def load_fragment(prop):
    return json.load(open(os.path.join(VERIF, "manifest.d", prop + ".json")))


def main():
    ap = argparse.ArgumentParser()
    ap.add_argument("prop")
    ap.add_argument("--tier", default=os.environ.get("VERIF_TIER", "quick"))
    ap.add_argument("--replay", default=None)
    ap.add_argument("--no-proof", action="store_true", help="skip the Coq step (debugging only)")
    args = ap.parse_args()
    prop = args.prop
    tier = "thorough" if args.tier == "thorough" else "quick"
    try:
        seed = int(os.environ.get("VERIF_SEED", "0"))
    except ValueError:
        seed = 0
    t0 = time.time()
    frag = load_fragment(prop)
    ctx = Ctx(prop, tier, seed)
    allowed = set(frag.get("allowed_axioms", []))
    prop_file = frag.get("props_file", "props/%s.v" % prop)

    # ---- step 1: proof obligations ------------------------------------------
    obligations, discharged, checker_cmds, axioms_seen = 0, 0, [], {}
    proof_broken = []
    if not args.no_proof:
        bad = common.gate_sources()
        if bad:
            proof_broken.append("source gate: " + "; ".join(bad[:5]))
        # one critical section for regenerating facts from the tree under test and the build -- concurrent checks
        # (of other properties, or of other trees) must not interleave here
        with common.BuildLock():
            for pre in frag.get("pre_build", []):
                # e.g. regenerate facts from /repo (translator), module path relative to harness/
                mod = importlib.import_module(pre)
                mod.generate(ctx)
            ok, log, cmd = common.make_target(prop_file + "o", jobs=8 if tier == "quick" else 16)
        checker_cmds.append(cmd)
        if not ok:
            proof_broken.append("build of %s failed: %s" % (prop_file, log[-1500:]))
            thms = []
        else:
            # the re-check only reads the compiled dependencies and writes under build/props: outside the lock
            ok2, thms, log2, cmd2 = common.check_props_file(prop_file)
            checker_cmds.append(cmd2)
            if not ok2:
                proof_broken.append("re-check of %s failed: %s" % (prop_file, log2[-1500:]))
        obligations = len(thms)
        for name, axs in thms:
            axioms_seen[name] = axs
            extra = [a for a in axs if a not in allowed]
            if extra:
                proof_broken.append("theorem %s depends on non-allow-listed axioms %s" % (name, extra))
            else:
                discharged += 1
        if obligations == 0 and not proof_broken:
            proof_broken.append("no theorem found in %s" % prop_file)
        if tier == "thorough" and not proof_broken and frag.get("coqchk", True):
            import subprocess
            mod = "Verif." + prop_file[:-2].replace("/", ".")
            cmd = ["coqchk", "-silent", "-o", "-R", common.COQ, "Verif", mod]
            p = subprocess.run(["timeout", "1500"] + cmd, stdout=subprocess.PIPE, stderr=subprocess.STDOUT, text=True)
            checker_cmds.append(" ".join(cmd))
            ctx.notes.append("coqchk -o: rc=%d; %s" % (p.returncode, " ".join(p.stdout.split())[-1200:]))
            if p.returncode != 0:
                proof_broken.append("coqchk failed: " + p.stdout[-800:])
    for pb in proof_broken:
        ctx.violation("proof", pb, case={}, failing_input=False, broken=pb[:200])

    # ---- step 2: correspondence + checker on implementation traces ----------
    driver = importlib.import_module("drivers." + prop.lower())
    replay_case = None
    if args.replay:
        replay_case = json.load(open(args.replay))
    try:
        if replay_case is not None:
            driver.run(ctx, replay=replay_case.get("case"))
        else:
            driver.run(ctx)
    except Exception:
        tb = traceback.format_exc()
        ctx.violation("correspondence", "driver crashed: " + tb[-2500:], case={}, failing_input=False,
                      broken="driver drivers/%s.py" % prop.lower())

    # ---- step 3: verdict -----------------------------------------------------
    known = [e for e in common.load_known_findings() if e.get("property") == prop and e.get("status") == "known"]
    os.makedirs(os.path.join(VERIF, "replays"), exist_ok=True)
    printed_known, n_viol = set(), 0
    # a violation with a concrete failing input takes precedence in reporting
    def known_match(v):
        if v["failing_input"]:
            for e in known:
                if common.sig_matches(e.get("signature"), v["signature"]):
                    return e
        return None

    # only a NEW (not listed) failing input may absorb the 'no failing input' violations
    has_input = any(v["failing_input"] and known_match(v) is None for v in ctx.violations)
    out_lines = []
    for v in ctx.violations:
        match = known_match(v)
        if match is not None:
            if match["id"] not in printed_known:
                printed_known.add(match["id"])
                out_lines.append("KNOWN-FINDING: property=%s %s" % (prop, match["what"]))
            continue
        n_viol += 1
        blob = json.dumps(v, sort_keys=True, default=str)
        digest = hashlib.sha1(blob.encode()).hexdigest()[:12]
        path = os.path.join(VERIF, "replays", "%s-%s.json" % (prop, digest))
        json.dump(dict(property=prop, driver="drivers/%s.py" % prop.lower(), tier=tier, seed=seed,
                       kind=v["kind"], what=v["what"], signature=v["signature"], case=v["case"],
                       no_longer_checks=v.get("broken"),
                       failing_input_found=v["failing_input"]),
                  open(path, "w"), indent=1, default=str)
        line = "VIOLATION property=%s replay=%s" % (prop, path)
        if not v["failing_input"]:
            if has_input:
                # the concrete failing input is reported by another line; keep this as a note
                ctx.notes.append("also: " + v["what"][:300])
                n_viol -= 1
                continue
            line += " no-failing-input-found"
        out_lines.append(line)
        if n_viol >= 8:
            break
    # de-duplicate identical lines
    seen = set()
    for l in out_lines:
        if l not in seen:
            print(l)
            seen.add(l)
    # details on stderr: violations not listed as known findings first
    shown = sorted(ctx.violations, key=lambda v: known_match(v) is not None)[:6]
    for v in shown:
        tag = v["kind"] + (", listed as %s" % known_match(v)["id"] if known_match(v) is not None else "")
        print("  [%s] %s" % (tag, v["what"][:600].replace("\n", " | ")), file=sys.stderr)

    wall = time.time() - t0
    tb = list(frag.get("trusted_base", []))
    cov = dict(
        obligations=obligations, discharged=discharged,
        checker_cmd=" && ".join(checker_cmds) if checker_cmds else "(skipped)",
        trusted_base=tb,
        theorems={k: (v if v else "Closed under the global context") for k, v in axioms_seen.items()},
        evaluations=ctx.evaluations, distinct_nontrivial=len(ctx.nontrivial),
        rule=ctx.rule or frag.get("rule", ""), samples=ctx.samples[:4] or ["(no correspondence case ran)"],
        traces_validated_against_impl=ctx.traces_validated,
        input_distribution=ctx.hist, notes=ctx.notes,
        known_findings_reported=sorted(printed_known),
    )
    ev = dict(property_id=prop, tier=tier, seed=seed, level=frag["level_claimed"]["category"], coverage=cov,
              assumptions=frag.get("assumptions", []), wall_s=round(wall, 2), violations=n_viol)
    os.makedirs(os.path.join(VERIF, "evidence"), exist_ok=True)
    if args.no_proof or args.replay or os.environ.get("VERIF_REPO"):
        # debugging / replay / scratch-tree runs never overwrite the evidence of the real check
        ev_path = os.path.join(VERIF, "build", "evidence-%s-debug.json" % prop)
    else:
        ev_path = os.path.join(VERIF, "evidence", prop + ".json")
    json.dump(ev, open(ev_path, "w"), indent=1, default=str)
    print("%s: %s obligations=%d discharged=%d evaluations=%d distinct_nontrivial=%d violations=%d known=%d wall=%.1fs"
          % (prop, tier, obligations, discharged, ctx.evaluations, len(ctx.nontrivial), n_viol, len(printed_known), wall))
    sys.exit(1 if n_viol else 0)


if __name__ == "__main__":
    main()
