"""C20, file-system stream: the REAL LocalBackend (subprocess jobs, checkpoint directories on disk).

`ObservedLocalBackend` is a harness-side subclass of the public LocalBackend that only observes:
it snapshots the source checkpoint directory before and after every copy_checkpoint and records
stop_trial / stop_all / delete_checkpoint calls. Checker (`check_events`): after a copy the source
directory still exists with identical content and the target has that content, unless the
scheduler stopped the source trial before (or stop_all ran); a copy must not fail while the
source's checkpoint has not been removed by an allowed deletion.

Stream 1 drives the backend directly (a trial completes, is polled, two trials are warm-started
from it); stream 2 is one short run of the real Tuner + PopulationBasedTraining
(delete_checkpoints=True, n_workers=1) with a script whose best configuration finishes early.
"""
import contextlib
import hashlib
import io
import logging
import tempfile
import time
from pathlib import Path

SCRIPT = '''
import argparse, os
from syne_tune.report import Reporter
from syne_tune.constants import ST_CHECKPOINT_DIR

parser = argparse.ArgumentParser()
parser.add_argument("--" + ST_CHECKPOINT_DIR, type=str)
parser.add_argument("--lr", type=float)
parser.add_argument("--sync_dir", type=str, default=None)
args, _ = parser.parse_known_args()
ckpt_dir = getattr(args, ST_CHECKPOINT_DIR)
os.makedirs(ckpt_dir, exist_ok=True)
ckpt = os.path.join(ckpt_dir, "checkpoint.txt")
start = 0
if os.path.exists(ckpt):
    start = int(open(ckpt).read().split("step=")[1])
report = Reporter()
if args.sync_dir:
    # scenario "the job keeps training between the poll and pause_trial": a fresh run reports step 1, waits
    # for the harness (file "go"), trains 2 more epochs; a resumed run trains 2 epochs from its checkpoint;
    # then it signals "done_<start>" and idles until it is killed
    import time
    def epoch(step):
        with open(ckpt, "w") as f:
            f.write("lr=%r,step=%d" % (args.lr, step))
        report(step=step, loss=1.0)
    steps = [start + 1, start + 2]
    if start == 0:
        epoch(1)
        while not os.path.exists(os.path.join(args.sync_dir, "go")):
            time.sleep(0.02)
        steps = [2, 3]
    for step in steps:
        epoch(step)
    open(os.path.join(args.sync_dir, "done_%d" % start), "w").close()
    time.sleep(60)
    raise SystemExit(0)
is_best = abs(args.lr - 0.5) < 1e-9
# the best configuration converges after 2 steps and the script ends on its own
num_steps = 2 if is_best else 20
for step in range(start + 1, max(num_steps, start + 1) + 1):
    with open(ckpt, "w") as f:
        f.write("lr=%r,step=%d" % (args.lr, step))
    report(step=step, loss=0.1 if is_best else 1.0 + abs(args.lr - 0.5))
'''


def snapshot(path):
    """content of a checkpoint directory: {relative file name: sha1}, or None if it does not exist"""
    path = Path(path)
    if not path.exists():
        return None
    return {str(p.relative_to(path)): hashlib.sha1(p.read_bytes()).hexdigest()
            for p in sorted(path.rglob("*")) if p.is_file()}


def make_backend(script, **kwargs):
    from syne_tune.backend import LocalBackend

    class ObservedLocalBackend(LocalBackend):
        def __init__(self, *a, **k):
            super().__init__(*a, **k)
            self.events = []
            self.copied_step = {}   # clone -> step stored in the checkpoint it was started from

        def copy_checkpoint(self, src_trial_id, tgt_trial_id):
            before = snapshot(self.checkpoint_trial_path(src_trial_id))
            f = self.checkpoint_trial_path(src_trial_id) / "checkpoint.txt"
            self.copied_step[int(tgt_trial_id)] = int(f.read_text().split("step=")[1]) if f.exists() else None
            err = None
            try:
                super().copy_checkpoint(src_trial_id, tgt_trial_id)
            except Exception as e:   # recorded, then passed on unchanged
                err = "%s: %s" % (type(e).__name__, str(e)[:120])
                raise
            finally:
                self.events.append(("copy", int(src_trial_id), int(tgt_trial_id), before,
                                    snapshot(self.checkpoint_trial_path(src_trial_id)),
                                    snapshot(self.checkpoint_trial_path(tgt_trial_id)), err))

        def delete_checkpoint(self, trial_id):
            self.events.append(("delete", int(trial_id)))
            super().delete_checkpoint(trial_id)

        def _schedule(self, trial_id, config):
            super()._schedule(trial_id, config)
            # the job has just been launched (the script needs far longer to start than this snapshot)
            self.events.append(("launch", int(trial_id), snapshot(self.checkpoint_trial_path(trial_id))))

        def stop_trial(self, trial_id, result=None):
            self.events.append(("stop", int(trial_id)))
            super().stop_trial(trial_id, result)

        def stop_all(self):
            self.events.append(("stop_all",))
            super().stop_all()

    return ObservedLocalBackend(entry_point=str(script), **kwargs)


def check_events(events):
    """violations (what, signature) of the property on the real file system"""
    viol, stopped, deleted, ended = [], set(), set(), False
    copied = {}   # target trial -> (source, content copied into its checkpoint directory)
    for e in events:
        if e[0] == "launch" and e[1] in copied:
            src, content = copied.pop(e[1])
            if e[2] != content:
                viol.append(("trial %d was started with checkpoint_trial_id=%d and copy_checkpoint(%d, %d) was made, but when its job "
                             "is launched its checkpoint directory %s: the clone trains from scratch" % (
                                 e[1], src, src, e[1], "is gone" if e[2] is None else "differs from the copied content"),
                             dict(backend="LocalBackend", event="warm_start_checkpoint_missing_at_job_launch")))
        if e[0] == "resume_check":
            _, t, before, launch, stored, first = e
            if before is None or launch != before:
                viol.append(("paused trial %d is resumed, but when the resumed job is launched its checkpoint directory %s "
                             "(the job last wrote step %s before it was paused; nobody stopped the trial)" % (
                                 t, "is gone" if launch is None else "differs from what the job last wrote", stored),
                             dict(backend="LocalBackend", event="paused_checkpoint_lost_at_resume")))
            if first is not None and stored is not None and first != stored + 1:
                viol.append(("resumed trial %d reports step %d first although its checkpoint held step %d: it did not "
                             "continue from its checkpoint" % (t, first, stored),
                             dict(backend="LocalBackend", event="resume_did_not_continue_from_checkpoint")))
        if e[0] == "first_report" and e[2] is not None and e[3] is not None and e[2] != e[3] + 1:
            viol.append(("trial %d, warm-started from a checkpoint written at step %d, reports step %d first: it did not resume "
                         "from that checkpoint" % (e[1], e[3], e[2]),
                         dict(backend="LocalBackend", event="warm_start_did_not_resume_from_checkpoint")))
        if e[0] == "stop":
            stopped.add(e[1])
        elif e[0] == "stop_all":
            ended = True
        elif e[0] == "delete":
            deleted.add(e[1])
        elif e[0] == "copy":
            _, src, tgt, before, after, tgt_snap, err = e
            if err is None and tgt_snap is not None:
                copied[tgt] = (src, before)
            if ended or src in stopped or src in deleted:
                continue   # covered by the call-log checker of the main stream
            if before is None or err is not None:
                viol.append(("copy_checkpoint(%d -> %d) on the real LocalBackend fails / finds no checkpoint although trial %d "
                             "was not stopped by the scheduler and no delete_checkpoint(%d) was called: %s" % (
                                 src, tgt, src, src, err or "source directory missing"),
                             dict(backend="LocalBackend", event="checkpoint_missing_at_copy")))
            elif after != before:
                viol.append(("after copy_checkpoint(%d -> %d) the checkpoint directory of trial %d (never stopped, tuning running) "
                             "%s" % (src, tgt, src, "is gone" if after is None else "has changed"),
                             dict(backend="LocalBackend", event="checkpoint_lost_by_copy")))
            elif tgt_snap != before:
                viol.append(("copy_checkpoint(%d -> %d): the target does not hold the source's content" % (src, tgt),
                             dict(backend="LocalBackend", event="checkpoint_copy_differs")))
    return viol


def stream_pause_resume(tmp, delete_checkpoints=True):
    """poll -> the job reports 2 more epochs -> pause_trial -> resume_trial: the paused trial's checkpoint must
    still be what the job last wrote when the resumed job is launched, and the resumed run continues from it"""
    sync = tmp / ("sync_%s" % delete_checkpoints)
    sync.mkdir()
    backend = make_backend(tmp / "train.py", delete_checkpoints=delete_checkpoints)
    backend.set_path(results_root=str(tmp / ("exp3_%s" % delete_checkpoints)))
    crash = None

    def wait_file(name, timeout=30):
        t0 = time.time()
        while not (sync / name).exists():
            if time.time() - t0 > timeout:
                raise RuntimeError("script did not signal " + name)
            time.sleep(0.02)

    try:
        backend.start_trial(config={"lr": 0.9, "sync_dir": str(sync)})
        t0, result = time.time(), None
        while result is None and time.time() - t0 < 30:
            _, results = backend.fetch_status_results([0])     # the poll: delivers step 1
            result = results[0][1] if results else None
            time.sleep(0.02)
        (sync / "go").touch()                                  # the job trains on: steps 2, 3 (not polled)
        wait_file("done_0")
        backend.pause_trial(0, result)                         # the scheduler's PAUSE for the step-1 report
        before = snapshot(backend.checkpoint_trial_path(0))
        f = backend.checkpoint_trial_path(0) / "checkpoint.txt"
        stored = int(f.read_text().split("step=")[1]) if f.exists() else None
        backend.resume_trial(0)
        launch = [e for e in backend.events if e[0] == "launch" and e[1] == 0][-1][2]
        backend.events.append(("resume_check", 0, before, launch, stored, first_report(backend, 0)))
    except Exception as e:
        crash = "%s: %s" % (type(e).__name__, str(e)[:120])
    finally:
        events = list(backend.events)
        backend.stop_all()
    return events, crash


def contract_violations(events):
    """the training script's contract used as a hypothesis by c20_pbt_clone_source_on_disk: a trial that has
    reported has written its checkpoint before ('reported' events carry whether the directory existed)"""
    return ["trial %d reported step %s but has no checkpoint directory" % (e[1], e[2])
            for e in events if e[0] == "reported" and not e[3]]


def wait_done(backend, trial_id, timeout=60):
    from syne_tune.backend.trial_status import Status
    t0 = time.time()
    while time.time() - t0 < timeout:
        status, _ = backend.fetch_status_results([trial_id])
        if status[trial_id][1] != Status.in_progress:
            return status[trial_id][1]
        time.sleep(0.1)
    raise RuntimeError("trial %d did not finish" % trial_id)


def first_report(backend, trial_id, timeout=30):
    t0 = time.time()
    while time.time() - t0 < timeout:
        _, results = backend.fetch_status_results([trial_id])
        if results:
            return int(results[0][1]["step"])
        time.sleep(0.1)
    return None


def stream_backend(tmp, delete_checkpoints=True):
    """a completed, polled, never stopped trial is the source of two warm starts"""
    backend = make_backend(tmp / "train.py", delete_checkpoints=delete_checkpoints)
    backend.set_path(results_root=str(tmp / ("exp1_%s" % delete_checkpoints)))
    crash = None
    try:
        backend.start_trial(config={"lr": 0.5})
        wait_done(backend, 0)
        for t in (1, 2):
            backend.start_trial(config={"lr": 0.9}, checkpoint_trial_id=0)
        for t in (1, 2):
            step = first_report(backend, t)
            backend.events.append(("reported", t, step, snapshot(backend.checkpoint_trial_path(t)) is not None))
            backend.events.append(("first_report", t, step, backend.copied_step.get(t)))
    except Exception as e:
        crash = "%s: %s" % (type(e).__name__, str(e)[:120])
    finally:
        events = list(backend.events)
        backend.stop_all()
    return events, crash


def stream_tuner(tmp):
    from syne_tune import Tuner, StoppingCriterion
    from syne_tune.config_space import uniform
    from syne_tune.optimizer.schedulers.pbt import PopulationBasedTraining
    scheduler = PopulationBasedTraining(
        config_space={"lr": uniform(0.0, 1.0)}, metric="loss", mode="min", resource_attr="step", max_t=20,
        perturbation_interval=1, population_size=2, quantile_fraction=0.5, points_to_evaluate=[{"lr": 0.5}],
        random_seed=31415927)
    backend = make_backend(tmp / "train.py", delete_checkpoints=True)
    from syne_tune.tuner_callback import TunerCallback

    class FirstReport(TunerCallback):
        def __init__(self):
            self.seen = set()

        def on_trial_result(self, trial, status, result, decision):
            backend.events.append(("reported", int(trial.trial_id), int(result["step"]),
                                   snapshot(backend.checkpoint_trial_path(trial.trial_id)) is not None))
            if trial.trial_id not in self.seen:
                self.seen.add(trial.trial_id)
                backend.events.append(("first_report", int(trial.trial_id), int(result["step"]),
                                       backend.copied_step.get(int(trial.trial_id))))

    tuner = Tuner(trial_backend=backend, scheduler=scheduler, callbacks=[FirstReport()],
                  stop_criterion=StoppingCriterion(max_num_trials_started=4, max_wallclock_time=60),
                  n_workers=1, sleep_time=0.1, tuner_name="c20-localfs", save_tuner=False,
                  trial_backend_path=str(tmp / "exp2"))
    crash = None
    try:
        with contextlib.redirect_stdout(io.StringIO()):
            tuner.run()
    except Exception as e:
        crash = "%s: %s" % (type(e).__name__, str(e)[:120])
    return list(backend.events), crash


def run_streams(which=("backend", "backend_keep", "pause_resume", "pause_resume_keep", "tuner")):
    """[(stream name, events, crash, violations)]"""
    logging.disable(logging.CRITICAL)
    out = []
    with tempfile.TemporaryDirectory(prefix="verif_c20_fs_") as tmp:
        tmp = Path(tmp)
        (tmp / "train.py").write_text(SCRIPT)
        for name in which:
            if name == "tuner":
                events, crash = stream_tuner(tmp)
            elif name.startswith("pause_resume"):
                events, crash = stream_pause_resume(tmp, delete_checkpoints=(name == "pause_resume"))
            else:
                events, crash = stream_backend(tmp, delete_checkpoints=(name == "backend"))
            out.append((name, events, crash, check_events(events)))
    return out
