"""Helpers shared by drivers/c03.py and drivers/c15.py (owned by the C03/C15 builder)."""
import datetime
import logging
import math
from fractions import Fraction

import numpy as np

def round_off_tol(n):
    """Relative (to the largest |metric| in the rung) size of the `Boundary` class for a rung with n entries: a bound on the
    round-off of the binary64 evaluation of Rung.quantile, 8 (n + 1) half-ulps. The error of q = r/r' and of
    virt_index = (n-1) q + 1 is at most 3 n half-ulps, it enters the cutoff through frac_part * (v1 - v0), the final
    g v1 + (1-g) v0 adds 3 more. Nothing wider is accepted: "equal up to round-off may go either way"."""
    return 8 * (n + 1) * 2.0 ** -53


class OneHotBrackets:
    """Harness-side BracketDistribution: the bracket of the next suggested trial is chosen by the script.
    Assigned to the public attribute ``scheduler.bracket_distribution``."""

    def __init__(self, num_brackets):
        self.num_brackets = num_brackets
        self.bracket = 0

    def __call__(self):
        a = np.zeros(self.num_brackets)
        a[self.bracket] = 1.0
        return a

    def configure(self, scheduler):
        pass


def quiet():
    logging.disable(logging.CRITICAL)


def mk_trial(trial_id, config):
    from syne_tune.backend.trial_status import Trial
    return Trial(trial_id=trial_id, config=config, creation_time=datetime.datetime(2020, 1, 1))


def round_half_even(x):
    """Python's round() on exact rationals"""
    f = math.floor(x)
    d = x - f
    if d < Fraction(1, 2):
        return f
    if d > Fraction(1, 2):
        return f + 1
    return f if f % 2 == 0 else f + 1


def documented_rung_levels(spec):
    """Independent recomputation of the rung levels from the documented formula, in exact rational arithmetic:
    explicit list, or r_min + k * nu, or round(r_min * eta^k) for all k with r_min * eta^k < max_t (eta = exact value
    of the given float; closed form, roundings do not compound); a final max_t is stripped.
    Returns (levels, boundary): boundary = some r_min * eta^k is within 1e-9 (relative) of a rounding boundary x.5
    or of max_t without being exactly on it, so that the binary64 evaluation may legitimately differ."""
    max_t = spec["max_t"]
    boundary = False
    if spec.get("rung_levels") is not None:
        lv = [int(x) for x in spec["rung_levels"]]
    elif spec.get("reduction_factor") is not None:
        rf = Fraction(spec["reduction_factor"])
        lv, cur = [], Fraction(spec["grace_period"])
        tol = Fraction(1, 10 ** 9)
        while True:
            if cur != max_t and abs(cur - max_t) <= tol * max_t:
                boundary = True
            if not cur < max_t:
                break
            d = cur - math.floor(cur) - Fraction(1, 2)
            if d != 0 and abs(d) <= tol * cur:
                boundary = True
            lv.append(round_half_even(cur))
            cur *= rf
    else:
        lv = list(range(spec["grace_period"], max_t, spec["rung_increment"]))
    if lv and lv[-1] == max_t:
        lv = lv[:-1]
    return lv, boundary


def expected_rung_levels(spec):
    """documented rung levels, or None when the case is a rounding Boundary"""
    lv, boundary = documented_rung_levels(spec)
    return None if boundary else lv


DEFAULT_MAX_T_KEYS = ("epochs", "max_t", "max_epochs")


def documented_max_t(max_t_arg, max_resource_attr, consts):
    """The documented rule for the maximum resource: the max_t argument takes precedence; otherwise the constant
    config_space[max_resource_attr]; otherwise the first constant among config_space["epochs"], ["max_t"], ["max_epochs"]."""
    if max_t_arg is not None:
        return max_t_arg
    if max_resource_attr is not None and max_resource_attr in consts:
        return consts[max_resource_attr]
    for k in DEFAULT_MAX_T_KEYS:
        if k in consts:
            return consts[k]
    return None


def gen_max_t_variant(rng, max_t):
    """How the maximum resource reaches the constructor: explicitly, via config_space[max_resource_attr] (default or
    non-default key name), or via a default-named constant; with distractor constants (other values) under default names."""
    via = rng.choice(["arg", "arg", "arg_distractors", "attr_custom", "attr_custom", "attr_default", "default_key"])
    other = lambda: rng.choice([v for v in (9, 16, 27, 50, 81, 100, 7) if v != max_t])
    consts, arg, attr = {}, None, None
    if via in ("arg", "arg_distractors"):
        arg = max_t
        if via == "arg_distractors":
            for k in rng.sample(DEFAULT_MAX_T_KEYS, rng.randint(1, 3)):
                consts[k] = other()
            if rng.random() < 0.5:
                attr = "num_steps"
                consts[attr] = other()
    elif via == "attr_custom":
        attr = "num_steps"
        consts[attr] = max_t
        for k in rng.sample(DEFAULT_MAX_T_KEYS, rng.randint(0, 3)):
            consts[k] = other()
    elif via == "attr_default":
        attr = rng.choice(DEFAULT_MAX_T_KEYS)
        consts[attr] = max_t
        for k in DEFAULT_MAX_T_KEYS:
            if k != attr and rng.random() < 0.5:
                consts[k] = other()
    else:
        keys = sorted(rng.sample(range(3), rng.randint(1, 3)))
        for j, i in enumerate(keys):  # the first present default key (in the documented order) carries the value
            consts[DEFAULT_MAX_T_KEYS[i]] = max_t if j == 0 else other()
    return dict(max_t_via=via, max_t_arg=arg, max_resource_attr=attr, space_consts=consts)


def hyperband_kwargs(spec):
    kw = dict(type=spec["type"], searcher="random", metric="m", mode=spec["mode"], resource_attr="epoch",
              brackets=spec["brackets"], random_seed=spec.get("seed", 0),
              rung_system_per_bracket=spec.get("per_bracket", False))
    if "max_t_via" in spec:
        if spec["max_t_arg"] is not None:
            kw["max_t"] = spec["max_t_arg"]
        if spec["max_resource_attr"] is not None:
            kw["max_resource_attr"] = spec["max_resource_attr"]
    else:
        kw["max_t"] = spec["max_t"]
    if spec.get("rung_levels") is not None:
        kw["rung_levels"] = list(spec["rung_levels"])
    else:
        kw["grace_period"] = spec["grace_period"]
        if spec.get("reduction_factor") is not None:
            kw["reduction_factor"] = spec["reduction_factor"]
        else:
            kw["rung_increment"] = spec["rung_increment"]
    if spec["type"].startswith("rush"):
        kw["rung_system_kwargs"] = dict(num_threshold_candidates=spec.get("num_threshold_candidates", 0))
    return kw


def gen_rung_params(rng):
    """grace period / reduction factor / rung increment / explicit rung list, max_t <= 81"""
    max_t = rng.choice([9, 16, 20, 27, 30, 50, 64, 81])
    style = rng.choice(["rf", "rf", "rf", "incr", "explicit"])
    p = dict(max_t=max_t)
    if style == "rf":
        p["grace_period"] = rng.choice([1, 1, 1, 2, 3])
        p["reduction_factor"] = rng.choice([2, 3, 4, 2.5, 2.2, 2.7, 3.5, 2, 3])
    elif style == "incr":
        p["grace_period"] = rng.choice([1, 2, 3])
        p["rung_increment"] = rng.choice([1, 2, 3, 5])
        if len(range(p["grace_period"], max_t, p["rung_increment"])) > 12:
            p["rung_increment"] = max(p["rung_increment"], max_t // 8)
    else:
        k = rng.randint(2, 5)
        lv = sorted(rng.sample(range(1, max_t + 1), k))
        p["rung_levels"] = lv
    return p


def rel_close(a, b, scale, n):
    return abs(a - b) <= round_off_tol(n) * scale


def ceil_div(a, b):
    return int(math.ceil(a / b))


class Hang(BaseException):  # not an Exception: must not be swallowed by handlers around scheduler calls
    pass


class watchdog:
    """`with watchdog(60): ...` raises Hang in the main thread if the block runs longer than the given number
    of seconds (a scheduler call that never returns must become a reported failure, not a hanging check)."""

    def __init__(self, seconds):
        self.seconds = seconds

    def _fire(self, signum, frame):
        raise Hang("no answer within %d s" % self.seconds)

    def __enter__(self):
        import signal
        self.old = signal.signal(signal.SIGALRM, self._fire)
        signal.alarm(self.seconds)

    def __exit__(self, *a):
        import signal
        signal.alarm(0)
        signal.signal(signal.SIGALRM, self.old)
        return False


NUMPY_METRIC_TYPES = ("float64", "float32", "int64", "int32")


def cast_metric(value, dtype):
    """the metric value as the training code may report it: Python float, or a numpy scalar (numpy.float64 is a float
    subclass, numpy.float32 / int64 / int32 are not)"""
    if dtype in (None, "py"):
        return value
    return getattr(np, dtype)(value)
