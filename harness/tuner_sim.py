"""C01 stream (c): whole ``Tuner.run()`` with the REAL ``SimulatorBackend`` (+ ``SimulatorCallback``).

Only the job runner of the backend is scripted (``_run_job_and_collect_results``, the hook the tabular
backends override too): a job is a list of reports (metric "m", resource "epoch", cumulative "elapsed"
seconds) and a final status; jobs may fail or complete BEFORE their first report or after some reports
(the simulator's job runner reports the return code of the script, i.e. completed or failed; a job that ends
"stopped" on its own does not exist for this backend, external stops are exercised on the ScriptedBackend). Real time outside the backend is a scripted fake (``time`` as seen by
``simulator_backend.time_keeper``), so a run is deterministic and takes milliseconds.
Schedulers: the ScriptedScheduler of harness/scripted.py, or real FIFO / Hyperband stopping / promotion.

Ground truth for "when did a run end" comes from the scripted job itself: the harness knows the simulated
time at which a job is started (time of the start_trial / resume_trial call + ``delay_start``) and how long
it runs (last ``elapsed`` + ``delay_complete_after_final_report``); a run that the tuner stops or pauses is
cancelled at that moment. The independent checker (``check_sim``) uses it for
  * "every end of a run that happens before tuning stops is reported to the scheduler": a trial whose job
    ended before the poll two polls ago must not be listed as running any more;
  * "at most n_workers trials occupy workers": jobs scheduled, not cancelled and not yet ended, counted at
    every start / resume / poll;
and ``tuner_cases.check_c01`` judges ids, life cycle and notifications on the recorded call trace.
No comparison with model/Tuner.v here (the simulator's event queue is the subject of C10 / model/Sim.v)."""
import contextlib
import io
import logging
import os
import random
import tempfile
import traceback
from unittest import mock

import scripted
import tuner_cases as tc

MAX_T = 9


class FakeOutsideTime:
    """``time`` inside simulator_backend.time_keeper: every call moves on by a scripted amount."""

    def __init__(self, src):
        self.now, self.src = 1000.0, src

    def time(self):
        self.now += self.src.next_dt()
        return self.now


class SimScript:
    """Lazily generated and recorded (or replayed) jobs and outside-time increments."""

    def __init__(self, rng=None, profile=None, record=None):
        self.rng, self.profile, self.replay = rng, dict(profile or {}), record
        self.jobs, self.dts = [], []
        self.n_failed = 0

    def record(self):
        return dict(jobs=list(self.jobs), dts=list(self.dts))

    def next_dt(self):
        i = len(self.dts)
        if self.replay is not None:
            v = self.replay["dts"][i] if i < len(self.replay["dts"]) else 0.0
        else:
            v = self.rng.choice([0.0, 0.0, 0.0, 0.125, 0.5, 2.0]) * self.profile.get("outside", 1.0)
        self.dts.append(v)
        return v

    def next_job(self, trial_id, start_epoch, max_epoch=MAX_T):
        """-> (status, [[metric, epoch, elapsed, cost], ...]); the job trains up to ``max_epoch`` (the value of
        max_resource_attr in the trial's config, i.e. a rung level for Hyperband) unless it ends earlier"""
        i = len(self.jobs)
        if self.replay is not None:
            job = self.replay["jobs"][i] if i < len(self.replay["jobs"]) else ["Completed", []]
        else:
            p, r = self.profile, self.rng
            u = r.random()
            room = max(0, min(MAX_T, max_epoch) - start_epoch)
            if u < p.get("p_fail", 0.15) and (p.get("max_failed_total") is None or self.n_failed < p["max_failed_total"]):
                self.n_failed += 1
                status, n = "Failed", r.choice([0, 0, 1, 2, r.randint(0, room)])
            elif u < p.get("p_fail", 0.15) + p.get("p_early", 0.1):
                status, n = "Completed", r.choice([1, 1, 2, r.randint(0, room)])
            else:
                status, n = "Completed", room
            n = min(n, room)
            reps, el = [], 0.0
            for k in range(n):
                el += r.choice([0.25, 1.0, 1.0, 3.0, 7.5]) * p.get("epoch_scale", 1.0)
                reps.append([r.randint(0, 40) / 4.0, start_epoch + k + 1, el, r.randint(0, 8) / 4.0])
            if "p_nonmono" in p and n >= 2 and r.random() < p["p_nonmono"]:
                # elapsed times that do not increase with the report number (the evaluation of an earlier epoch
                # finishes later / a noisy time column): the LAST report is not the one with the largest elapsed time
                els = [x[2] for x in reps]
                r.shuffle(els)
                for x, e in zip(reps, els):
                    x[2] = e
            job = [status, reps]
        self.jobs.append(job)
        return job[0], [list(x) for x in job[1]]


def make_sim_backend_class():
    from syne_tune.backend.simulator_backend.simulator_backend import SimulatorBackend, SimulatorConfig
    from syne_tune.backend.trial_status import Status

    class ScriptedJobsSimulatorBackend(SimulatorBackend):
        """Real SimulatorBackend; the job runner is scripted; public methods are logged."""

        def __init__(self, sim_script, log, delays, tuner_sleep_time):
            super().__init__(entry_point=__file__, elapsed_time_attr="elapsed",
                             simulator_config=SimulatorConfig(**delays), tuner_sleep_time=tuner_sleep_time)
            self.sim_script, self.log = sim_script, log
            self.trace_ref = []        # set by run_sim_case: the trace list (its length = position of the next event)
            self.n_polls = 0
            self.n_reports = {}        # trial -> reports emitted so far (idx)
            self.epoch = {}            # trial -> epoch the next job starts after
            self.jobs = []             # ground truth: dict(trial, sched, start, end|None, cancelled|None, n)
            self.live = {}             # trial -> index in self.jobs of its current job
            self.poll_times = []       # simulated time after each poll
            self.checks = []           # (kind, now, polled ids | None, number of jobs scheduled before) at start / resume / poll
            self.configs = {}          # trial -> config the next job of the trial runs with
            self.status_after = []     # (call, trial, status the backend shows right after pause_trial / stop_trial)
            self.last_stdout_trial, self.last_stdout_after_stop_all, self.stop_all_called = None, False, False
            self.last_resume_error = None

        # ---- the scripted job runner ----------------------------------------------------------------
        def _run_job_and_collect_results(self, trial_id, config=None):
            cfg_now = self.configs.get(trial_id) or {}
            status, reps = self.sim_script.next_job(trial_id, self.epoch.get(trial_id, 0), int(cfg_now.get("epochs", MAX_T)))
            results = []
            job_now = self.jobs[self.live[trial_id]]
            job_now["idx_lo"] = self.n_reports.get(trial_id, 0)
            for rep in reps:
                metric, epoch, elapsed = rep[0], rep[1], rep[2]
                cost = rep[3] if len(rep) > 3 else 0.0
                idx = self.n_reports.get(trial_id, 0)
                self.n_reports[trial_id] = idx + 1
                self.epoch[trial_id] = epoch
                results.append({"m": metric, "epoch": epoch, "elapsed": elapsed, "idx": idx, "trial": trial_id,
                                "st_worker_cost": cost})
            job = self.jobs[self.live[trial_id]]
            job["idx_hi"] = self.n_reports.get(trial_id, 0)
            cfg = self.simulator_config
            # the run is over when its LATEST report (largest elapsed time, not necessarily the last one) is out
            t_last = max([x[2] for x in reps], default=0.0)
            job["end"] = job["start"] + t_last + cfg.delay_complete_after_final_report
            job["last_result_at"] = job["start"] + t_last + cfg.delay_on_trial_result
            job["status"], job["n"] = status, len(reps)
            return {"Completed": Status.completed, "Failed": Status.failed, "Stopped": Status.stopped}[status], results

        def _new_job(self, trial_id):
            now = self.time_keeper.time()
            self.jobs.append(dict(trial=trial_id, sched=now, start=now + self.simulator_config.delay_start,
                                  end=None, cancelled=None, release=None, status=None, n=None,
                                  pos=len(self.trace_ref), idx_lo=None, idx_hi=None))
            self.live[trial_id] = len(self.jobs) - 1

        def _status_after(self, call, trial_id):
            # the documented hook of the backend API (what stop_all reads): TrialResult of trials with results
            for tr in self._all_trial_results([trial_id]):
                self.status_after.append((call, trial_id, scripted.status_name(tr.status)))

        def _cancel(self, trial_id, t_call):
            """the tuner stopped / paused the trial at simulated time t_call: by the documented delays the worker is
            released at t_call + delay_stop + delay_complete_after_stop (or when the job ended by itself before)"""
            if trial_id in self.live:
                job = self.jobs[self.live[trial_id]]
                if job["cancelled"] is None:
                    job["cancelled"] = self.time_keeper.time()
                    cfg = self.simulator_config
                    rel = t_call + cfg.delay_stop + cfg.delay_complete_after_stop
                    job["release"] = rel if job["end"] is None else min(rel, job["end"])

        def copy_checkpoint(self, src_trial_id, tgt_trial_id):
            pass

        def delete_checkpoint(self, trial_id):
            pass

        def stdout(self, trial_id):
            self.last_stdout_trial, self.last_stdout_after_stop_all = trial_id, self.stop_all_called
            return []

        def stderr(self, trial_id):
            return []

        def paused_trial_ids(self):   # used by scripted.Script to propose resumes
            return sorted(self._paused)

        _paused = ()

        # ---- logged public API --------------------------------------------------------------------------
        def start_trial(self, config, checkpoint_trial_id=None):
            self.checks.append(("b_start", self.time_keeper.time(), None, len(self.jobs)))
            trial = super().start_trial(config=config, checkpoint_trial_id=checkpoint_trial_id)
            self.configs[trial.trial_id] = dict(config)
            self._new_job(trial.trial_id)
            self.log(("b_start", trial.trial_id, int(config.get("x", -1)), checkpoint_trial_id))
            return trial

        def resume_trial(self, trial_id, new_config=None):
            self.checks.append(("b_resume", self.time_keeper.time(), None, len(self.jobs)))
            try:
                trial = super().resume_trial(trial_id=trial_id, new_config=new_config)
            except (AssertionError, KeyError):
                self.last_resume_error = ("unknown" if not (0 <= trial_id < len(self.trial_ids)) else "not_paused", trial_id)
                raise
            self._paused = tuple(t for t in self._paused if t != trial_id)
            if new_config is not None:
                self.configs[trial_id] = dict(new_config)
            self._new_job(trial_id)
            self.log(("b_resume", trial_id, None if new_config is None else int(new_config.get("x", -1))))
            return trial

        def pause_trial(self, trial_id, result=None):
            self.log(("b_pause", trial_id))
            t_call = self.time_keeper.time()
            super().pause_trial(trial_id=trial_id, result=result)
            self._status_after("pause_trial", trial_id)
            self._cancel(trial_id, t_call)
            self._paused = tuple(sorted(set(self._paused) | {trial_id}))
            if result is not None and "epoch" in result:
                self.epoch[trial_id] = result["epoch"]   # a resumed job continues from the checkpoint of this moment

        def stop_trial(self, trial_id, result=None):
            self.log(("b_stop", trial_id))
            t_call = self.time_keeper.time()
            super().stop_trial(trial_id=trial_id, result=result)
            if not self.stop_all_called:
                self._status_after("stop_trial", trial_id)
            self._cancel(trial_id, t_call)

        def fetch_status_results(self, trial_ids):
            ids = list(trial_ids)
            self.n_polls += 1
            self.log(("b_fetch", ids))
            res = super().fetch_status_results(ids)
            now = self.time_keeper.time()
            self.poll_times.append(now)
            self.checks.append(("b_fetch", now, ids, len(self.jobs)))
            return res

        def stop_all(self):
            self.log(("b_stop_all",))
            self.stop_all_called = True
            super().stop_all()

    return ScriptedJobsSimulatorBackend


# ------------------------------------------------------------------------------------------------------
def run_sim_case(case, hard_limit=450):
    """case: dict(kind='sim', scheduler, sched_seed, mode, params(n_workers, async, wait, max_failures, criterion),
    delays, sleep, profile, seed) or the same with record=dict(sim=..., script=...) for a replay."""
    import sys
    if "yahpo_gym" not in sys.modules:
        sys.modules["yahpo_gym"] = None
    from syne_tune import Tuner, StoppingCriterion
    from syne_tune.backend.simulator_backend.simulator_callback import SimulatorCallback
    import syne_tune.backend.simulator_backend.time_keeper as time_keeper_module
    import tuner_real

    rec = case.get("record")
    rng = random.Random(case.get("seed", 0))
    sim_script = SimScript(rng, case.get("profile"), record=None if rec is None else rec["sim"])
    script = (scripted.Script.from_record(rec["script"]) if rec is not None
              else scripted.Script(random.Random(rng.getrandbits(48)), case.get("profile")))
    trace = []
    log = trace.append
    params = case["params"]
    logging.disable(logging.CRITICAL)
    backend = make_sim_backend_class()(sim_script, log, case["delays"], case["sleep"])
    script.backend = backend
    backend.trace_ref = trace
    if case["scheduler"] == "scripted":
        scheduler = scripted.make_scheduler_class()(script, log)
    else:
        scheduler = scripted.record_scheduler(
            tuner_real.build_scheduler(case["scheduler"], case["sched_seed"], case["mode"],
                                       max_resource_attr=case.get("mra", False)), log)
    class SimRecorder(scripted.make_recorder_class()):
        """additionally: what the StoppingCriterion fields refer to, at the end of every loop iteration (= the state
        in which Tuner._stop_condition is evaluated), read from the public TuningStatus API; the wall-clock of a
        simulated run is the largest st_tuner_time of a delivered result (SimulatorCallback docstring)"""
        loop_obs, max_tuner_time = None, None

        def on_tuning_start(self, tuner):
            super().on_tuning_start(tuner)
            self.loop_obs, self.max_tuner_time = [], None

        def on_trial_result(self, trial, status, result, decision):
            super().on_trial_result(trial, status, result, decision)
            t = result.get("st_tuner_time")
            if t is not None:
                self.max_tuner_time = t if self.max_tuner_time is None else max(self.max_tuner_time, t)

        def on_loop_end(self):
            super().on_loop_end()
            st = self.tuner.tuning_status
            stats = st.overall_metric_statistics
            self.loop_obs.append(dict(
                wallclock=self.max_tuner_time, evaluations=int(stats.count), started=int(st.num_trials_started),
                completed=int(st.num_trials_completed), finished=int(st.num_trials_finished), cost=float(st.cost),
                min_metrics={k: float(v) for k, v in stats.min_metrics.items() if k == "m"},
                max_metrics={k: float(v) for k, v in stats.max_metrics.items() if k == "m"}))

    recorder = SimRecorder(log, hard_limit=hard_limit)
    crit = {k: v for k, v in (params.get("criterion") or {}).items() if k in scripted.CRITERION_FIELDS}
    for k in ("min_metric_value", "max_metric_value"):
        if crit.get(k) is not None:
            crit[k] = {"m": crit[k]}
    criterion = StoppingCriterion(**crit)
    outcome, aborted = ["normal"], False
    old_folder = os.environ.get("SYNETUNE_FOLDER")
    try:
        with tempfile.TemporaryDirectory(prefix="verif-simtuner-") as tmp, \
                mock.patch.object(time_keeper_module, "time", FakeOutsideTime(sim_script)), \
                contextlib.redirect_stdout(io.StringIO()):
            os.environ["SYNETUNE_FOLDER"] = tmp
            tuner = Tuner(trial_backend=backend, scheduler=scheduler, stop_criterion=criterion,
                          n_workers=params["n_workers"], sleep_time=0, max_failures=params["max_failures"],
                          tuner_name="verif-sim", asynchronous_scheduling=params["async"],
                          wait_trial_completion_when_stopping=params["wait"],
                          callbacks=[SimulatorCallback(), recorder], suffix_tuner_name=False, save_tuner=False)
            try:
                tuner.run()
            except scripted.HarnessAbort:
                aborted, outcome = True, ["aborted"]
            except Exception as e:
                where = os.path.basename(traceback.extract_tb(e.__traceback__)[-1].filename)
                if isinstance(e, AssertionError) and where == "trial_backend.py" and backend.last_resume_error is not None:
                    outcome = ["resume_" + backend.last_resume_error[0], backend.last_resume_error[1]]
                elif isinstance(e, AssertionError) and where == "tuner.py":
                    outcome = ["assert_budget"]
                elif isinstance(e, ValueError) and where == "tuner.py":
                    outcome = ["failure_limit" if backend.last_stdout_after_stop_all else "no_metrics",
                               backend.last_stdout_trial]
                else:
                    outcome = ["exception", type(e).__name__, where, str(e)[:200]]
    finally:
        logging.disable(logging.NOTSET)
        if old_folder is None:
            os.environ.pop("SYNETUNE_FOLDER", None)
        else:
            os.environ["SYNETUNE_FOLDER"] = old_folder
    end = None
    if not aborted:
        logging.disable(logging.CRITICAL)
        try:
            status = tuner.tuning_status
            end = dict(busy=[t for t, _ in backend.busy_trial_ids()], time=backend.time_keeper.time(),
                       smap=[[t, scripted.status_name(v)] for t, v in status.last_trial_status_seen.items()],
                       counters=dict(started=status.num_trials_started, completed=status.num_trials_completed,
                                     failed=status.num_trials_failed, finished=status.num_trials_finished,
                                     running=status.num_trials_running))
        finally:
            logging.disable(logging.NOTSET)
    return dict(trace=trace, outcome=outcome, aborted=aborted, iterations=recorder.iterations, end=end,
                jobs=backend.jobs, delays=dict(case["delays"]), poll_times=backend.poll_times, checks=backend.checks, occupancy=[],
                status_after=backend.status_after, loop_obs=recorder.loop_obs, at_exit=recorder.at_exit,
                record=dict(sim=sim_script.record(), script=script.record()))


def check_sim(params, out):
    """Ground-truth checks (see module docstring). Returns [(what, signature)]."""
    bad = []
    n = params["n_workers"]
    jobs = out["jobs"]

    def occupying(now, njobs):
        return sorted({j["trial"] for j in jobs[:njobs] if j["sched"] <= now and
                       (j["cancelled"] is None or j["cancelled"] > now) and (j["end"] is None or j["end"] > now)})

    polls = [c for c in out["checks"] if c[0] == "b_fetch"]
    # ---- the backend does what pause_trial / stop_trial document: status paused / stopped afterwards -----------
    for call, t, status in out.get("status_after", []):
        want = "Paused" if call == "pause_trial" else "Stopped"
        if status != want:
            bad.append(("after %s(%d) the backend shows status %s (documented: %s)" % (call, t, status, want),
                        dict(check="lifecycle", event="status_after_" + call, backend="simulator", status=status)))
            break
    # ---- every resume_trial targets a trial the backend holds as paused (the scheduler paused it itself) ------
    if out["outcome"][0] in ("resume_not_paused", "resume_unknown") and not tc.check_discipline(out):
        bad.append(("run() aborted: resume_trial(%s) raised the backend's assertion (%s) although the scheduler only "
                    "resumes trials it paused itself" % (out["outcome"][1], out["outcome"][0]),
                    dict(check="lifecycle", event="resume_of_trial_not_paused_in_backend", backend="simulator")))
    # ---- budget ------------------------------------------------------------------------------------------
    delay_start = (out.get("delays") or {}).get("delay_start", 0.0)
    for kind, now, ids, njobs in out["checks"]:
        if kind == "b_fetch":
            occ = occupying(now, njobs)
            if len(occ) > n:
                bad.append(("%d jobs occupy workers at a poll (simulated time %.3f) with n_workers=%d" % (len(occ), now, n),
                            dict(check="budget", call=kind, backend="simulator")))
                break
        else:
            # the job scheduled by this call starts at now + delay_start; a worker is held until the job ended by
            # itself or, when the tuner stopped / paused it, until stop time + delay_stop + delay_complete_after_stop
            start = now + delay_start
            def free_at(j):
                t_free = j["release"] if j["cancelled"] is not None else j["end"]
                return float("inf") if t_free is None else t_free
            held = sorted({j["trial"] for j in jobs[:njobs] if j["sched"] <= now and free_at(j) > start})
            if len(held) > n - 1:
                bad.append(("the job scheduled by %s at simulated time %.3f starts at %.3f while %d workers (n_workers=%d) are "
                            "still held by the jobs of trials %s (stopped / paused jobs hold their worker until stop time + "
                            "delay_stop + delay_complete_after_stop)" % (kind, now, start, len(held), n, held),
                            dict(check="budget", call=kind, backend="simulator", measured="simulated_time")))
                break
    # ---- every delivered result belongs to the CURRENT run of its trial ------------------------------------------
    for p, ev in enumerate(out["trace"]):
        if ev[0] != "s_result":
            continue
        t, idx = ev[1], ev[2]
        mine = [j for j in jobs if j["trial"] == t]
        owner = [k for k, j in enumerate(mine) if j["idx_lo"] is not None and j["idx_lo"] <= idx < j["idx_hi"]]
        current = [k for k, j in enumerate(mine) if j["pos"] <= p]
        if owner and current and owner[0] != current[-1]:
            bad.append(("trial %d: result %d, reported by run number %d of the trial, is delivered to the scheduler after run "
                        "number %d of the trial was started (event %d of the trace): a result of a paused run arrives after "
                        "the resume" % (t, idx, owner[0], current[-1], p),
                        dict(check="callbacks", event="result_of_earlier_run_delivered_after_resume", backend="simulator")))
            break
    # ---- the scheduler is told "completed" only after ALL reports of that run were delivered -------------------------
    for p, ev in enumerate(out["trace"]):
        if ev[0] != "s_complete":
            continue
        t = ev[1]
        mine = [j for j in jobs if j["trial"] == t and j["pos"] <= p]
        if not mine or mine[-1]["cancelled"] is not None or mine[-1]["idx_lo"] is None:
            continue
        j = mine[-1]
        got = {e[2] for e in out["trace"][:p] if e[0] == "s_result" and e[1] == t}
        missing = [i for i in range(j["idx_lo"], j["idx_hi"]) if i not in got]
        if missing:
            bad.append(("trial %d: on_trial_complete (event %d of the trace) although reports %s of this run (reports %d..%d, "
                        "job started at simulated time %.3f, its latest report at %.3f) had not been delivered: the run was "
                        "declared complete before its last report was out" % (t, p, missing, j["idx_lo"], j["idx_hi"] - 1,
                                                                              j["start"], j["last_result_at"]),
                        dict(check="callbacks", event="complete_before_all_results_delivered", backend="simulator")))
            break
    # ---- every end of a run reaches the tuning loop / scheduler --------------------------------------------------
    ended_told = {}
    for ev in out["trace"]:
        if ev[0] in ("s_complete", "s_error", "s_remove"):
            ended_told[ev[1]] = ended_told.get(ev[1], 0) + 1
    for k in range(2, len(polls)):
        t_before = polls[k - 2][1]
        for t in polls[k][2]:
            live = [i for i, j in enumerate(jobs[:polls[k][3]]) if j["trial"] == t]
            if not live or live[-1] >= polls[k - 2][3]:
                continue  # the trial's current job was scheduled after the poll two polls ago
            j = jobs[live[-1]]
            if j["cancelled"] is None and j["end"] is not None and j["end"] <= t_before:
                bad.append(("trial %d: its job ended (%s after %d reports) at simulated time %.3f, before the poll at %.3f, "
                            "but two polls later (time %.3f) the tuning loop still lists it as running; the scheduler was "
                            "told about %d ends of this trial" % (t, j["status"], j["n"], j["end"], t_before, polls[k][1],
                                                                 ended_told.get(t, 0)),
                            dict(check="callbacks", event="end_of_run_never_reported", backend="simulator",
                                 job_status=j["status"], reports_before_end=min(j["n"], 1))))
                return bad
    return bad


def gen_sim_case(rng):
    sched = rng.choice(["scripted", "scripted", "fifo_random", "hyperband_stopping", "hyperband_promotion",
                        "hyperband_promotion", "sync_hyperband", "dehb"])
    n_workers = rng.choice([1, 2, 2, 3, 4])
    params = dict(n_workers=n_workers, wait=rng.random() < 0.3, max_failures=rng.choice([1, 3, 50, 50]),
                  criterion=dict(max_wallclock_time=float(rng.choice([20, 40, 80])),
                                 max_num_trials_started=rng.choice([4, 8, 15, 25])))
    params["async"] = rng.random() < 0.8
    if rng.random() < 0.3:
        d = rng.choice([0.0, 0.05, 0.5])
        delays = dict(delay_on_trial_result=d, delay_complete_after_final_report=d, delay_complete_after_stop=d,
                      delay_start=d, delay_stop=d)
    else:   # all five independent (SimulatorConfig requires result delay <= completion delay)
        pick = lambda: rng.choice([0.0, 0.05, 0.3, 1.0, 2.5, 6.0])
        a, b = sorted([pick(), pick()])
        delays = dict(delay_on_trial_result=a, delay_complete_after_final_report=b, delay_complete_after_stop=pick(),
                      delay_start=pick(), delay_stop=pick())
    profile = dict(p_fail=rng.choice([0.05, 0.15, 0.3]), p_stop_ext=rng.choice([0.0, 0.05]), p_early=0.1,
                   outside=rng.choice([0.0, 1.0]), p_pause=0.15, p_stop=0.15, p_none=0.02, p_resume=0.4, p_resume_bad=0.0,
                   p_ckpt=0.1)
    if sched in ("scripted", "hyperband_promotion") and n_workers >= 2 and rng.random() < 0.5:
        # a stop delay that is long compared with the time per epoch: while the blocking stop / pause of one trial advances
        # the clock, the jobs of the other trials report their remaining results and complete; a PAUSE for an earlier
        # result of such a trial, followed by its resume in the same iteration, must not let results of the paused run through
        delays = dict(delays, delay_stop=rng.choice([6.0, 20.0]))
        profile.update(epoch_scale=rng.choice([0.05, 0.2]), p_pause=0.35, p_stop=0.2, p_resume=0.8, p_fail=0.05)
    if sched in ("scripted", "fifo_random") and rng.random() < 0.6:
        profile["p_nonmono"] = rng.choice([0.3, 0.6])   # non-monotone elapsed times within a job
    if sched in ("sync_hyperband", "dehb"):   # see tuner_real.FEW_FAILURES: one failed job per run at most
        profile.update(max_failed_total=1, p_early=0.0)
        params["criterion"] = dict(max_wallclock_time=float(rng.choice([60, 120, 200])),
                                   max_num_trials_started=rng.choice([15, 25, 40]))
    sleep = rng.choice([1.0, 5.0]) if sched in ("sync_hyperband", "dehb") else rng.choice([0.5, 1.0, 5.0])
    return dict(kind="sim", scheduler=sched, sched_seed=rng.randrange(1000), mode=rng.choice(["min", "max"]),
                mra=(sched.startswith("hyperband") and rng.random() < 0.7),
                params=params, delays=delays, sleep=sleep, profile=profile,
                seed=rng.getrandbits(48))



# ------------------------------------------------------------------------------------------------------
# C12 on the simulator: the user's StoppingCriterion (with max_wallclock_time, which SimulatorCallback rewrites
# onto simulated time) must keep ALL its fields during the run
# ------------------------------------------------------------------------------------------------------
# SimulatorCallback._modify_stop_criterion (unchanged /repo) does not carry min_metric_value over and replaces the
# user's max_metric_value: criteria combining max_wallclock_time with metric thresholds are generated only when
# this is switched on (see findings/C12-sim-callback-drops-metric-thresholds.json)
SIM_METRIC_THRESHOLDS = True


def gen_sim_case_c12(rng):
    case = gen_sim_case(rng)
    crit = dict(max_wallclock_time=float(rng.choice([30, 60, 120, 200])))
    others = ["max_num_evaluations", "max_num_trials_started", "max_num_trials_completed", "max_num_trials_finished",
              "max_cost"] + (["min_metric_value", "max_metric_value"] if SIM_METRIC_THRESHOLDS else [])
    for f in rng.sample(others, rng.choice([1, 1, 1, 2])):
        crit[f] = {"max_num_evaluations": rng.randint(3, 25), "max_num_trials_started": rng.randint(2, 10),
                   "max_num_trials_completed": rng.randint(0, 4), "max_num_trials_finished": rng.randint(0, 6),
                   "max_cost": rng.randint(4, 40) / 4.0, "min_metric_value": rng.randint(1, 6) / 4.0,
                   "max_metric_value": rng.randint(34, 39) / 4.0}[f]
    case["params"]["criterion"] = crit
    case["params"]["max_failures"] = 50
    case["profile"]["p_fail"] = min(case["profile"]["p_fail"], 0.15)
    return case


def check_sim_criterion(params, out):
    """At the end of every loop iteration the fields of the ORIGINAL user criterion are re-evaluated from the
    recorded observables (tuner_cases.expected_criterion; wall-clock = largest simulated time stamp of a delivered
    result). Once a field holds the loop must end (wait=False) / nothing may be started any more (wait=True), and
    count budgets are overshot by at most n_workers."""
    bad = []
    crit = params.get("criterion") or {}
    n = params["n_workers"]
    tr = out["trace"]
    ends = [i for i, ev in enumerate(tr) if ev[0] == "cb_loop_end"]
    obs_list = out.get("loop_obs") or []
    for k, (pos, obs) in enumerate(zip(ends, obs_list)):
        o = dict(obs)
        if o["wallclock"] is None:
            o["wallclock"] = float("-inf")
        exp = tc.expected_criterion(crit, o)
        must = [f for f, v in exp.items() if v is True]
        if not must:
            continue
        later = tr[pos + 1:]
        went_on = any(ev[0] == "cb_loop_start" for ev in later) if not params["wait"] else \
            any(ev[0] in ("s_suggest", "b_start", "b_resume") for ev in later)
        if went_on:
            shown = {a: obs[a] for a in ("wallclock", "evaluations", "started", "completed", "finished", "cost")}
            shown.update(min_m=obs["min_metrics"].get("m"), max_m=obs["max_metrics"].get("m"))
            bad.append(("at the end of iteration %d the user's criterion %s holds (%s: %s) but the simulated run went on "
                        "(%d more iterations)" % (k, crit, must[0], shown, sum(1 for ev in later if ev[0] == "cb_loop_start")),
                        dict(check="stopping_criterion", field=must[0], backend="simulator")))
        break
    at_exit = out.get("at_exit")
    if at_exit is not None and out["outcome"][0] == "normal":
        for field, key in (("max_num_trials_started", "started"), ("max_num_trials_completed", "completed"),
                           ("max_num_trials_finished", "finished")):
            b = crit.get(field)
            if b is None or (key != "started" and params["wait"]):
                continue
            if at_exit[key] > max(b, 0) + n:
                bad.append(("%s=%d but %d trials %s at loop exit with n_workers=%d (simulated run)" % (field, b, at_exit[key], key, n),
                            dict(check="overshoot", field=field, backend="simulator")))
    return bad



def check_sim_end(params, out):
    """After run() returned (normally or by exception): nothing is left running in the simulator backend - judged on
    trials that have reported at least once (trials without a report are invisible to stop_all, as the simulator
    documents) - and the counters equal the numbers of trials per status."""
    bad = []
    end = out.get("end")
    if end is None:
        return bad
    tr = out["trace"]
    reported = {t for ev in tr if ev[0] == "cb_fetch" for t, _ in ev[2]}
    busy = [t for t in end["busy"] if t in reported]
    if busy:
        bad.append(("after run() returned (%s) backend.busy_trial_ids() still lists trials %s" % (out["outcome"][:2], busy),
                    dict(check="finally", event="left_running", backend="simulator")))
    live = sorted({j["trial"] for j in out["jobs"] if j["cancelled"] is None and j["end"] is not None
                   and j["end"] > end["time"] and j["trial"] in reported})
    if live and not busy:
        bad.append(("after run() returned the scripted jobs of trials %s are still running (end after simulated time %.3f) "
                    "and were never stopped" % (live, end["time"]),
                    dict(check="finally", event="job_not_stopped", backend="simulator")))
    smap, c = end["smap"], end["counters"]
    cnt = lambda names: sum(1 for _, s in smap if s in names)
    want = dict(started=len(smap), completed=cnt(("Completed",)), failed=cnt(("Failed",)),
                finished=cnt(("Completed", "Stopped", "Stopping", "Failed")), running=cnt(("InProgress",)))
    for k, v in want.items():
        if c[k] != v:
            bad.append(("counter %s = %d but the status map has %d" % (k, c[k], v), dict(check="counters", counter=k, backend="simulator")))
    n_started = sum(1 for ev in tr if ev[0] == "b_start")
    if c["started"] != n_started or c["running"] != 0:
        bad.append(("num_trials_started = %d (start_trial calls %d), num_trials_running = %d after run() returned" % (
            c["started"], n_started, c["running"]), dict(check="counters", counter="started_running", backend="simulator")))
    stale = [t for t, s in smap if s == "Paused" and t in live + busy]
    if stale:
        bad.append(("trials %s are listed Paused by TuningStatus although their (resumed) job was running when run() "
                    "returned" % stale, dict(check="counters", counter="paused_but_running", backend="simulator")))
    return bad


def run_sim(ctx, replay_cases, prop="C01"):
    if replay_cases is not None:
        cases = replay_cases
    elif prop == "C12":
        cases = [gen_sim_case_c12(ctx.rng) for _ in range(ctx.n(120, 3000))]
    else:
        cases = [gen_sim_case(ctx.rng) for _ in range(ctx.n(120, 3000))]
    for case in cases:
        out = run_sim_case(case)
        rep = {k: case.get(k) for k in ("kind", "scheduler", "sched_seed", "mode", "mra", "params", "delays", "sleep")}
        rep["record"] = out["record"]
        ctx.count(rep, nontrivial=tc.nontrivial(out) or any(j["n"] == 0 and j["status"] for j in out["jobs"]))
        ctx.traces_validated += 1
        ctx.h("sim_scheduler", case["scheduler"])
        ctx.h("sim_outcome", out["outcome"][0] if out["outcome"][0] != "exception" else "exception:" + out["outcome"][1])
        for j in out["jobs"]:
            if j["status"] is not None:
                ctx.h("sim_jobs", "%s_%s" % (j["status"], "no_report" if j["n"] == 0 else "after_reports")
                      + ("_cancelled" if j["cancelled"] is not None else ""))
        if prop == "C12":
            ctx.h("sim_criterion_fields", ",".join(sorted((case["params"].get("criterion") or {}).keys())))
            for what, sig in check_sim_criterion(case["params"], out) + check_sim_end(case["params"], out):
                ctx.violation("property", "[simulator backend, %s] %s" % (case["scheduler"], what), case=rep,
                              signature=dict(sig, scheduler=case["scheduler"]))
            continue
        problems = check_sim(case["params"], out)
        if not out["aborted"] or not problems:
            problems = problems + tc.check_c01(case["params"], out)
            if case["scheduler"] != "scripted":   # the scripted scheduler is an arbitrary oracle, real ones must be disciplined
                problems = problems + tc.check_discipline(out, case["scheduler"])
        if out["aborted"] and not problems:
            ctx.notes.append("a simulator run exceeded the hard iteration limit without a finding and was dropped")
        for what, sig in problems:
            ctx.violation("property", "[simulator backend, %s] %s" % (case["scheduler"], what), case=rep,
                          signature=dict(sig, scheduler=case["scheduler"]))
