"""Driver (b) for C01 / C12: real schedulers on the ScriptedBackend (filled in below)."""


def run_real(ctx, checker, replay_cases):
    return
