"""Driver (b) for C01 / C12: REAL schedulers of /repo (built from their classes) drive the real Tuner on the
ScriptedBackend; workers emit scripted metric curves (metric "m", resource "epoch" = number of reports so
far), completions, failures and external stops at scripted points. The recorded call trace is judged by the
independent Python checkers of tuner_cases (budget / ids / life cycle / notifications for C01; exit, finally
block, counters, overshoot, failure limit for C12). No model comparison here: the scheduler's answers are
not scripted."""
import random

import scripted
import tuner_cases as tc

MAX_T = 9


def build_scheduler(name, seed, mode, max_resource_attr=False):
    """max_resource_attr=True: Hyperband writes the level up to which a (re)started job should train into
    config["epochs"] (promotion type: the next rung level), so that jobs end by themselves at rung levels."""
    from syne_tune.config_space import randint, uniform
    space = {"x": randint(0, 1000), "lr": uniform(0.0, 1.0)}
    if max_resource_attr:
        space["epochs"] = MAX_T
    kw = dict(metric="m", mode=mode, random_seed=seed)
    if name == "fifo_random":
        from syne_tune.optimizer.schedulers.fifo import FIFOScheduler
        return FIFOScheduler(space, searcher="random", **kw)
    if name in ("hyperband_stopping", "hyperband_promotion", "hyperband_pasha", "hyperband_rush_promotion",
                "hyperband_cost_promotion"):
        from syne_tune.optimizer.schedulers.hyperband import HyperbandScheduler
        typ = name[len("hyperband_"):]
        extra = {}
        if typ == "rush_promotion":
            extra = dict(rung_system_kwargs={"num_threshold_candidates": 1}, points_to_evaluate=[{"x": 3, "lr": 0.3}])
        if typ == "cost_promotion":
            extra = dict(cost_attr="st_worker_cost")
        res = dict(max_resource_attr="epochs") if max_resource_attr else dict(max_t=MAX_T)
        return HyperbandScheduler(space, searcher="random", type=typ, resource_attr="epoch",
                                  grace_period=1, reduction_factor=3, brackets=1 + seed % 2, **res, **extra, **kw)
    if name == "dehb":
        from syne_tune.optimizer.schedulers.synchronous import GeometricDifferentialEvolutionHyperbandScheduler
        return GeometricDifferentialEvolutionHyperbandScheduler(space, resource_attr="epoch", max_resource_level=MAX_T,
                                                                grace_period=1, reduction_factor=3,
                                                                brackets=1 + seed % 3, **kw)
    if name == "median_rule":
        from syne_tune.optimizer.schedulers.fifo import FIFOScheduler
        from syne_tune.optimizer.schedulers.median_stopping_rule import MedianStoppingRule
        return MedianStoppingRule(scheduler=FIFOScheduler(space, searcher="random", **kw), resource_attr="epoch",
                                  metric="m", grace_time=1, grace_population=2)
    if name == "pbt":
        from syne_tune.optimizer.schedulers.pbt import PopulationBasedTraining
        return PopulationBasedTraining(space, resource_attr="epoch", max_t=MAX_T, population_size=3,
                                       perturbation_interval=2, **kw)
    # synchronous family: rung levels 1, 3, 9; the number of brackets per iteration is drawn from 1..3
    if name == "sync_hyperband":
        from syne_tune.optimizer.schedulers.synchronous import SynchronousGeometricHyperbandScheduler
        return SynchronousGeometricHyperbandScheduler(space, searcher="random", resource_attr="epoch",
                                                      max_resource_level=MAX_T, grace_period=1, reduction_factor=3,
                                                      brackets=1 + seed % 3, **kw)
    raise ValueError(name)


SCHEDULERS = ["fifo_random", "hyperband_stopping", "hyperband_promotion", "hyperband_pasha", "hyperband_rush_promotion",
              "hyperband_cost_promotion", "median_rule", "pbt", "sync_hyperband", "dehb"]
# the synchronous family aborts runs when a rung has fewer valid results than the next rung has slots (known findings
# F-C13-2 / F-C13-3, property C13). With rung sizes 9 -> 3 -> 1 every rung has at least 2 more slots than the next
# one, so ONE failed job per run keeps that condition out while failures (both modes) are still exercised
FEW_FAILURES = ("sync_hyperband", "dehb")


def gen_real_case(rng):
    name = rng.choice(SCHEDULERS)
    params = dict(n_workers=rng.choice([1, 2, 3, 4, 6]), wait=rng.random() < 0.4,
                  max_failures=rng.choice([0, 1, 3, 50]), criterion=tc.gen_criterion(rng, rich=rng.random() < 0.6))
    params["async"] = rng.random() < 0.8
    profile = dict(polls=rng.choice([6, 12, 25, 40]), max_reports=rng.choice([1, 2, 3]), ts_jitter=0,
                   dt=rng.choice([0.0, 1.0]), max_epochs=MAX_T, p_complete=0.02,
                   p_fail=rng.choice([0.0, 0.03, 0.1]), p_stop_ext=rng.choice([0.0, 0.02]),
                   p_stopping=rng.choice([0.0, 0.03]))
    if name in FEW_FAILURES:
        profile.update(p_fail=rng.choice([0.0, 0.1, 0.2]), p_stop_ext=0.0, max_failed_total=1,
                       polls=rng.choice([25, 40, 60]))
        params["max_failures"] = rng.choice([1, 3, 50])
    return dict(kind="real", scheduler=name, mode=rng.choice(["min", "max"]), sched_seed=rng.randrange(1000),
                params=params, profile=profile, seed=rng.getrandbits(48))


def run_real_case(case):
    if case.get("record") is not None:
        script = scripted.Script.from_record(case["record"])
    else:
        script = scripted.Script(random.Random(case["seed"]), case["profile"])
    out = scripted.run_tuner(case["params"], script,
                             scheduler_factory=lambda: build_scheduler(case["scheduler"], case["sched_seed"], case["mode"]))
    out["record"] = script.record()
    return out


def run_real(ctx, checker, replay_cases, discipline=False):
    """discipline=True (C01): also the resume discipline, by the Python checker and by the verified dok_b in Coq."""
    cases = replay_cases if replay_cases is not None else [gen_real_case(ctx.rng) for _ in range(ctx.n(100, 2500))]
    traces, reps = [], []
    for case in cases:
        out = run_real_case(case)
        if out["aborted"]:
            ctx.h("real_outcome", "aborted")
            continue
        rep = dict(kind="real", scheduler=case["scheduler"], mode=case["mode"], sched_seed=case["sched_seed"],
                   params=case["params"], record=out["record"])
        ctx.count(rep, nontrivial=tc.nontrivial(out))
        ctx.traces_validated += 1
        ctx.h("real_scheduler", case["scheduler"])
        ctx.h("real_outcome", out["outcome"][0] if out["outcome"][0] != "exception" else "exception:" + out["outcome"][1])
        for ev in out["trace"]:
            if ev[0] == "s_result":
                ctx.h("real_decisions", ev[3])
            elif ev[0] == "s_suggest":
                ctx.h("real_suggest", "none" if ev[2] is None else ev[2][0])
        problems = checker(case["params"], out)
        if discipline:
            py_bad = tc.check_discipline(out, case["scheduler"])
            problems = problems + py_bad
            traces.append(out["trace"])
            reps.append((rep, case["scheduler"], bool(py_bad)))
        for what, sig in problems:
            sig = dict(sig, scheduler=case["scheduler"])
            ctx.violation("property", "[%s] %s" % (case["scheduler"], what), case=rep, signature=sig)
    if discipline and traces:
        bad = set(tc.coq_discipline(ctx, "disc", traces))
        for i, (rep, name, py_bad) in enumerate(reps):
            if (i in bad) and not py_bad:
                ctx.violation("property", "[%s] the verified checker dok_b rejects the trace: the scheduler breaks the "
                              "resume discipline" % name, case=rep,
                              signature=dict(check="resume_discipline", scheduler=name, by="dok_b"))
            elif py_bad and i not in bad:
                ctx.violation("correspondence", "Python discipline checker and dok_b disagree on a trace of %s" % name,
                              case=rep, failing_input=False, broken="correspondence chk_disc (dok_b)")
