"""C11 twin-run worker: executed in a FRESH process (`/venv/bin/python c11_worker.py`, PYTHONPATH=/repo:/verif/harness,
PYTHONHASHSEED chosen by the driver).  Reads a JSON job {"twin": "A"|"B", "cases": [...]} from stdin, runs every case
on the REAL schedulers / Tuner and prints one JSON line {"results": [...]}.

A scheduler case fixes: scheduler kind + arguments + random_seed + event_seed.  The event history (which worker
acts next, reported metric values, failures) is drawn from a PRIVATE random.Random(event_seed) and from the
scheduler's own answers, so both twins see the same history as long as they agree.  What differs between the twins:
PYTHONHASHSEED, the perturbations of numpy.random / random between calls, and the unrelated scheduler objects that are
created and stepped in between (twin B only, model-free schedulers).  Around every call of the scheduler under test
the state of the two global generators is compared (a seeded scheduler must not consume them).
"""
import contextlib
import datetime
import io
import json
import logging
import os
import random as pyrandom
import sys
import threading

import numpy as np

logging.disable(logging.CRITICAL)

T0 = datetime.datetime(2020, 1, 1)


# ---------------------------------------------------------------------------------------------------------
def canon(x):
    """JSON-able canonical form; floats bit-exactly (hex)"""
    if isinstance(x, dict):
        return [[str(k), canon(v)] for k, v in sorted(x.items(), key=lambda kv: str(kv[0]))]
    if isinstance(x, (list, tuple)):
        return [canon(v) for v in x]
    if isinstance(x, (bool, np.bool_)):
        return bool(x)
    if isinstance(x, (int, np.integer)):
        return int(x)
    if isinstance(x, (float, np.floating)):
        return float(x).hex()
    if x is None or isinstance(x, str):
        return x
    if isinstance(x, np.ndarray):
        return canon(x.tolist())
    return repr(type(x).__name__)


def build_space(spec):
    from syne_tune import config_space as cs
    out = {}
    for name, kind, args in spec:
        if kind == "const":
            out[name] = args[0]
        else:
            out[name] = getattr(cs, kind)(*args)
    return out


def build_options(space, opts):
    """searcher / scheduler options the property quantifies over, derived deterministically (private RandomState,
    independent of hash seed and of the global generators) from the case's option spec:
    restrict_configurations (finite list), points_to_evaluate with entries inside / outside that list, partial
    entries (imputed by the searcher), or the empty list"""
    from syne_tune.config_space import Domain
    if not opts:
        return None, None
    rs = np.random.RandomState(opts["opt_seed"])

    def sample_cfg():
        out = {}
        for k, v in space.items():
            if isinstance(v, Domain):
                x = v.sample(random_state=rs)
                out[k] = x.item() if hasattr(x, "item") else x
            else:
                out[k] = v
        return out

    restrict = None
    if opts.get("restrict_n"):
        restrict, seen = [], set()
        for _ in range(opts["restrict_n"] * 3):
            c = sample_cfg()
            key = json.dumps(canon(c))
            if key not in seen:
                seen.add(key)
                restrict.append(c)
            if len(restrict) >= opts["restrict_n"]:
                break
    p2e = None
    if opts.get("p2e_given"):
        p2e = []
        if restrict:
            for i in rs.choice(len(restrict), size=min(opts.get("p2e_inside", 0), len(restrict)), replace=False):
                p2e.append(dict(restrict[int(i)]))
        for _ in range(opts.get("p2e_outside", 0)):
            p2e.append(sample_cfg())
        for _ in range(opts.get("p2e_partial", 0)):
            c = sample_cfg()
            keys = sorted(k for k in c if isinstance(space[k], Domain))
            for k in keys:
                if len(c) > 1 and rs.rand() < 0.5:
                    del c[k]
            p2e.append(c)
        order = rs.permutation(len(p2e))
        p2e = [p2e[int(i)] for i in order]
    return restrict, p2e


def make_time_keeper():
    from syne_tune.backend.time_keeper import TimeKeeper

    class ScriptedTimeKeeper(TimeKeeper):
        """the clock is an explicit input: time advances by 1 per reading"""

        def __init__(self):
            self.t = 0.0

        def start_of_time(self):
            self.t = 0.0

        def time(self):
            self.t += 1.0
            return self.t

        def time_stamp(self):
            return T0 + datetime.timedelta(seconds=self.t)

        def advance(self, step):
            self.t += step

    return ScriptedTimeKeeper()


NO_CLOCK = [False]


def with_clock(sched):
    if NO_CLOCK[0]:     # simulated experiments: SimulatorCallback assigns the backend's simulated time keeper
        return sched
    # the clock is an explicit input.  (Passing time_keeper= to the constructor raises AttributeError in this
    # snapshot: FIFOScheduler.__init__ calls set_time_keeper before self.time_keeper exists; the documented
    # alternative set_time_keeper() is used.)
    tk = make_time_keeper()
    tk.start_of_time()
    sched.set_time_keeper(tk)
    return sched


def make_scheduler(kind, space, p, seed):
    S = "syne_tune.optimizer.schedulers."
    import importlib

    def cls(mod, name):
        return getattr(importlib.import_module(S + mod), name)

    so = dict(p.get("search_options") or {})
    so.setdefault("debug_log", False)
    common = dict(metric="loss", mode=p.get("mode", "min"), random_seed=seed)
    restrict, p2e = p["_built"] if "_built" in p else build_options(space, p.get("opts"))
    if restrict is not None:
        so["restrict_configurations"] = restrict
    p2e_kw = {} if p2e is None else {"points_to_evaluate": p2e}
    if kind != "msr":
        common.update(p2e_kw)
    if kind == "fifo":
        searcher = p["searcher"]
        if searcher == "rea":
            rea = cls("searchers.regularized_evolution", "RegularizedEvolution")(
                space, metric="loss", mode=common["mode"], random_seed=p.get("rea_seed", seed),
                population_size=p.get("population_size", 4), sample_size=p.get("sample_size", 2), **p2e_kw)
            searcher = rea
            common.pop("points_to_evaluate", None)
        return with_clock(cls("fifo", "FIFOScheduler")(space, searcher=searcher, search_options=so, **common))
    if kind == "hyperband":
        kw = dict(searcher=p["searcher"], search_options=so, type=p["type"], resource_attr="epoch",
                  max_t=p["max_t"], grace_period=p.get("grace", 1), reduction_factor=p.get("rf", 3),
                  brackets=p.get("brackets", 1), **common)
        if p["type"] == "cost_promotion":
            kw["cost_attr"] = "elapsed_time"
        if p.get("rung_system_kwargs") is not None:
            kw["rung_system_kwargs"] = dict(p["rung_system_kwargs"])     # explicit nested option dict
        return with_clock(cls("hyperband", "HyperbandScheduler")(space, **kw))
    if kind in ("synchb", "dehb"):
        name = ("SynchronousGeometricHyperbandScheduler" if kind == "synchb"
                else "GeometricDifferentialEvolutionHyperbandScheduler")
        kw = dict(search_options=so, resource_attr="epoch", max_resource_level=p["max_t"],
                  grace_period=p.get("grace", 1), reduction_factor=p.get("rf", 3), brackets=p.get("brackets"), **common)
        if "searcher" in p:
            kw["searcher"] = p["searcher"]
        return cls("synchronous.hyperband_impl", name)(space, **kw)
    if kind == "pbt":
        return with_clock(cls("pbt", "PopulationBasedTraining")(
            space, resource_attr="epoch", max_t=p["max_t"], population_size=p.get("population_size", 3),
            perturbation_interval=p.get("perturbation_interval", 2), quantile_fraction=p.get("quantile_fraction", 0.34),
            resample_probability=p.get("resample_probability", 0.5), search_options=so, **common))
    if kind == "msr":
        inner = with_clock(cls("fifo", "FIFOScheduler")(space, searcher="random", search_options=so, **common,
                                                         **p2e_kw))
        return cls("median_stopping_rule", "MedianStoppingRule")(
            scheduler=inner, resource_attr="epoch", metric="loss", grace_time=p.get("grace", 1),
            grace_population=p.get("grace_population", 2), rank_cutoff=p.get("rank_cutoff", 0.5))
    raise ValueError(kind)


class Recorder:
    """global generators must not be consumed by a seeded scheduler"""

    def __init__(self, prof=None):
        self.consumed = []
        self.prof = prof     # profile only the calls of the scheduler under test

    @staticmethod
    def snap():
        st = np.random.get_state()
        return (st[1].tobytes(), st[2], st[3], st[4], pyrandom.getstate())

    def call(self, label, fn, *a, **k):
        before = self.snap()
        try:
            if self.prof is not None:
                if self.prof.targets:
                    sys.settrace(self.prof.trace)
                else:
                    self.prof.reset_baseline()
                    sys.setprofile(self.prof)
            return fn(*a, **k)
        finally:
            if self.prof is not None:
                sys.settrace(None)
                sys.setprofile(None)
            after = self.snap()
            if before[:4] != after[:4]:
                self.consumed.append([label, "numpy.random"])
            if before[4] != after[4]:
                self.consumed.append([label, "random"])


class Profiler:
    """names (file, first line) of the syne_tune functions executed; with `targets` = [[file, lo, hi, [lines]], ..]
    (functions containing effect sites the driver wants to exercise) also which of those LINES were executed"""

    def __init__(self, root, targets=None):
        self.root = os.path.join(os.path.realpath(root), "syne_tune") + os.sep
        self.seen = set()
        self.targets = [(t[0], t[1], t[2], set(t[3])) for t in (targets or [])]
        self.hit_lines = set()
        self.hit_funcs = set()
        self.order, self.first_caller, self.dyn_edges, self.rng_consumers = [], {}, set(), set()
        self.last, self.stack = None, []

    def trace(self, frame, event, arg):
        if event != "call":
            return None
        co = frame.f_code
        fn = co.co_filename
        if fn.startswith(self.root) and co.co_name not in ("<module>", "<listcomp>", "<dictcomp>", "<setcomp>",
                                                           "<genexpr>", "<lambda>"):
            self.seen.add(self.key_of(co))
        if self.targets and fn.startswith(self.root):
            rel = fn[len(self.root) - len("syne_tune/"):]
            for (f, lo, hi, lines) in self.targets:
                if rel == f and lo <= co.co_firstlineno <= hi:
                    self.hit_funcs.add((f, lo))
                    return self.local
        return None

    def local(self, frame, event, arg):
        if event == "line":
            fn = frame.f_code.co_filename
            rel = fn[len(self.root) - len("syne_tune/"):]
            for (f, lo, hi, lines) in self.targets:
                if rel == f and frame.f_lineno in lines:
                    self.hit_lines.add((f, frame.f_lineno))
        return self.local

    # ---- dynamic call edges, first-execution order, attribution of global-generator consumption ----
    def reset_baseline(self):
        self.last = None
        self.stack = []

    @staticmethod
    def rng_mark():
        st = np.random.get_state()
        ps = pyrandom.getstate()[1]
        return (st[2], int(st[1][0]), int(st[1][-1]), ps[-1], ps[0])

    def key_of(self, co):
        return (co.co_filename[len(self.root) - len("syne_tune/"):], co.co_firstlineno, co.co_name)

    def __call__(self, frame, event, arg):
        if event not in ("call", "return"):
            return
        co = frame.f_code
        if not co.co_filename.startswith(self.root) or co.co_name == "<module>":
            return
        # consumption of a global generator since the previous syne_tune event belongs to the syne_tune function on
        # top of the stack (frames of other packages in between are attributed to their syne_tune caller)
        mark = self.rng_mark()
        if self.last is not None and mark != self.last:
            self.rng_consumers.add(self.stack[-1] if self.stack else ("<harness>", 0, ""))
        self.last = mark
        k = self.key_of(co)
        if event == "return":
            if self.stack and self.stack[-1] == k:
                self.stack.pop()
            return
        caller = self.stack[-1] if self.stack else None
        self.stack.append(k)
        if co.co_name not in ("<listcomp>", "<dictcomp>", "<setcomp>", "<genexpr>", "<lambda>"):
            self.seen.add(k)
        if k not in self.first_caller:
            self.first_caller[k] = caller
            self.order.append(k)
        if caller is not None and caller != k:
            self.dyn_edges.add((caller, k))


def perturb(pert):
    np.random.seed(pert.randrange(2 ** 32))
    pyrandom.seed(pert.randrange(2 ** 32))
    n = pert.randint(0, 3)
    if n:
        np.random.rand(n)
        pyrandom.random()


def run_sched_case(case, twin, repo):
    from syne_tune.backend.trial_status import Trial
    ev = pyrandom.Random(case["event_seed"])
    pert = pyrandom.Random("%s-%s" % (case["perturb_seed"], twin))
    space = build_space(case["space"])
    # profiling (executed functions, dynamic call edges, attribution) in twin A only: twin B carries the interleaving
    prof = Profiler(repo, case.get("targets")) if (case.get("targets") or (case.get("profile") and twin == "A")) else None
    rec = Recorder(prof)
    sink = io.StringIO()
    others = []
    trace = []
    err = None

    def other_step():
        # unrelated scheduler objects in the same process (twin B, model-free only)
        if not case.get("interleave") or twin != "B":
            return
        if len(others) < 3 and pert.random() < 0.3:
            k = pert.choice(case["other_kinds"])
            try:
                others.append([make_scheduler(k[0], build_space(case["space"]), k[1], pert.randrange(2 ** 31)), 0])
            except Exception:
                pass
        if others:
            step_other(pert.choice(others))

    def step_other(o):
        """one new trial of an unrelated instance: started and reported epoch by epoch (all rung levels on the
        way) while the instance says CONTINUE; o = [scheduler, next trial id, loss shift, max epochs]"""
        try:
            s = o[0].suggest(o[1])
            if s is not None and s.spawn_new_trial_id:
                tr = Trial(o[1], s.config, T0)
                o[0].on_trial_add(tr)
                o[1] += 1
                shift = o[2] if len(o) > 2 else 0.0
                for ep in range(1, (o[3] if len(o) > 3 else 1) + 1):
                    d = o[0].on_trial_result(tr, {"loss": pert.random() + shift, "epoch": ep, "elapsed_time": float(ep)})
                    if d != "CONTINUE":
                        o[0].on_trial_remove(tr)
                        break
        except Exception:
            pass

    try:
        with contextlib.redirect_stdout(sink):
            perturb(pert)
            # option lists are built by the harness OUTSIDE the profiled constructor call
            params = dict(case["params"], _built=build_options(space, case["params"].get("opts")))
            caller_list = params["_built"][0]
            caller_before = None if caller_list is None else json.dumps(canon(caller_list))
            caller_len = None if caller_list is None else len(caller_list)
            NO_CLOCK[0] = bool(case.get("no_clock"))   # no TimeKeeper passed: the scheduler falls back to real time
            try:
                # unrelated instances of the same class with explicit NON-default nested options, sharing the
                # configuration-space object and the option lists with the scheduler under test: twin B is
                # constructed AFTER them, twin A BEFORE them
                def pollute():
                    for pk, pp in case.get("polluters") or []:
                        try:
                            # shared with the scheduler under test (SAME objects): the configuration space, the
                            # points_to_evaluate list and the restrict_configurations list (finding F-C11-1: a
                            # searcher must not keep and shrink the caller's list)
                            q = dict(pp, _built=params["_built"]) if pp.get("share_opts") else dict(pp)
                            sp = build_space(pp["alt_space"]) if pp.get("alt_space") else space
                            o = make_scheduler(pk, sp, q, pert.randrange(2 ** 31))
                            # own trial ids from 0 (RUSH threshold candidates are the FIRST trials of a scheduler);
                            # losses shifted by a constant, reports at all levels up to `report_epochs`
                            rec_o = [o, 0, float(pp.get("loss_shift", 0.0)), int(pp.get("report_epochs", 1))]
                            others.append(rec_o)
                            # lazily configured parts (bracket distribution, searcher) are set up by the first
                            # suggest: the unrelated instance is USED before the scheduler under test
                            for _ in range(int(pp.get("initial_trials", 1))):
                                step_other(rec_o)
                        except Exception:
                            pass

                if twin == "B":
                    pollute()
                sched = rec.call("__init__", make_scheduler, case["kind"], space, params, case["random_seed"])
            finally:
                NO_CLOCK[0] = False
            polluted = (twin == "B")
            max_t = case["params"].get("max_t", 4)
            workers = case["workers"]
            running, paused_epoch, configs = {}, {}, {}
            next_id = 0
            for step in range(case["steps"]):
                perturb(pert)
                other_step()
                perturb(pert)
                if not polluted and step >= 1:
                    # twin A: the unrelated instances appear only AFTER its own first suggest (twin B was
                    # constructed and used after them)
                    pollute()
                    polluted = True
                ids = sorted(running)
                if len(ids) < workers and (not ids or ev.random() < 0.45):
                    s = rec.call("suggest", sched.suggest, next_id)
                    if s is None:
                        trace.append(["suggest", next_id, None])
                        if not ids:
                            break
                        continue
                    if s.spawn_new_trial_id:
                        cfg = dict(s.config)
                        tr = Trial(next_id, cfg, T0)
                        rec.call("on_trial_add", sched.on_trial_add, tr)
                        running[next_id] = [tr, 0]
                        configs[next_id] = cfg
                        trace.append(["start", next_id, canon(cfg), s.checkpoint_trial_id])
                        next_id += 1
                    else:
                        tid = s.checkpoint_trial_id
                        cfg = dict(s.config) if s.config is not None else configs.get(tid, {})
                        configs[tid] = cfg
                        running[tid] = [Trial(tid, cfg, T0), paused_epoch.pop(tid, 0)]
                        trace.append(["resume", tid, canon(s.config)])
                    continue
                tid = ev.choice(ids)
                tr, epoch = running[tid]
                u = ev.random()
                if u < case.get("p_fail", 0.05):
                    rec.call("on_trial_error", sched.on_trial_error, tr)
                    del running[tid]
                    trace.append(["error", tid])
                    continue
                epoch += 1
                running[tid][1] = epoch
                val = round(ev.random(), 3) if case.get("ties") else ev.random()
                if case.get("loss_profile") == "rush":
                    # the first two trials (threshold candidates of RUSH) are good; later ones are spread, so that
                    # some pass the successive-halving quantile rule but not the RUSH threshold
                    val = (ev.uniform(0.2, 0.4) if tid < 2 else ev.uniform(0.25, 0.9)) + 0.3 / epoch
                    if case["params"].get("mode") == "max":
                        val = -val
                result = {"loss": val, "epoch": epoch, "elapsed_time": float(epoch) * (1.0 + ev.random())}
                dec = rec.call("on_trial_result", sched.on_trial_result, tr, result)
                trace.append(["result", tid, epoch, str(dec)])
                if dec == "STOP":
                    rec.call("on_trial_remove", sched.on_trial_remove, tr)
                    del running[tid]
                elif dec == "PAUSE":
                    rec.call("on_trial_remove", sched.on_trial_remove, tr)
                    paused_epoch[tid] = epoch
                    del running[tid]
                elif epoch >= max_t:
                    rec.call("on_trial_complete", sched.on_trial_complete, tr, result)
                    del running[tid]
                    trace.append(["complete", tid])
    except Exception as e:   # both twins must fail alike
        err = "%s: %s" % (type(e).__name__, str(e)[:200])
    out = dict(trace=trace, error=err, consumed=rec.consumed)
    try:
        # the caller's restrict_configurations list must be unchanged (length and content)
        if caller_list is not None:
            out["shared_restrict"] = any(pp.get("share_opts") for _, pp in case.get("polluters") or [])
            if json.dumps(canon(caller_list)) != caller_before:
                out["caller_list_changed"] = [caller_len, len(caller_list)]
    except NameError:
        pass
    if prof:
        out["executed"] = sorted(prof.seen)
        out["order"] = [[k[0], k[1], k[2], (list(prof.first_caller[k])[:2] if prof.first_caller[k] else None)]
                        for k in prof.order]
        out["dyn_edges"] = sorted([a[0], a[1], b[0], b[1]] for a, b in prof.dyn_edges)
        out["rng_consumers"] = sorted(list(k) for k in prof.rng_consumers)
        out["hit_lines"] = sorted(prof.hit_lines)
        out["hit_funcs"] = sorted(prof.hit_funcs)
    return out


# ---------------------------------------------------------------------------------------------------------
# long PASHA run: many trials, criss-crossing learning curves (PASHA's epsilon estimate walks over SETS of trial-id
# strings; which pairs it sees, and in which order, must not influence decisions)
# ---------------------------------------------------------------------------------------------------------
def pasha_metric(pl):
    import math
    ms = float(pl.get("mseed", 0))
    if pl["profile"] == "crisscross":
        def f(t, e):
            t = t + ms
            return (0.5 + 0.12 * math.sin(1.7 * t) + 0.1 * math.sin(2.3 * t + 1.3 * e)
                    + 0.06 * math.sin(0.37 * t * e + ms) + 0.05 / e)
        return f
    # "bimodal": every third trial is good; good trials form a large cluster A and a small cluster B (one in
    # b_period), so that roughly 10% of the pairs have a large gap and the 90% quantile of the gaps (= epsilon)
    # is sensitive to WHICH pairs are looked at; the ranking of any two trials at epoch 2 is the opposite of the
    # one at epochs 1 and 3 (every pair counts as a rank swap); from trial d_start on some good trials are
    # mediocre at epoch 1 and best from epoch 3 on (a displacement of about the cluster gap between rungs)
    bp, ds, la, lb = pl.get("b_period", 16), pl.get("d_start", 165), pl.get("level_a", 0.1), pl.get("level_b", 0.3)

    def g(t, e):
        tiny = 0.01 * math.sin(12.9898 * t + ms)
        displaced = False
        if t % 3 == 0:
            k = t // 3
            if t >= ds and k % 10 == 3:
                level, displaced = (la + lb) / 2.0, True
            elif k % bp == 5:
                level = lb
            else:
                level = la
        else:
            level = 0.8 + 0.1 * math.sin(78.233 * t + ms)
        level += tiny
        if e == 2:
            return 1.0 - level
        if e >= 3 and displaced:
            return la / 2.0 + tiny
        return level
    return g


def run_pasha_long(pl, twin, repo):
    from syne_tune.backend.trial_status import Trial
    from syne_tune.config_space import uniform, randint
    from syne_tune.optimizer.schedulers.hyperband import HyperbandScheduler
    pert = pyrandom.Random("%s-%s" % (pl["perturb_seed"], twin))
    metric = pasha_metric(pl)
    rec = Recorder()
    max_t = pl["max_t"]
    trace, err = [], None
    try:
        with contextlib.redirect_stdout(io.StringIO()):
            perturb(pert)
            s = rec.call("__init__", HyperbandScheduler,
                         {"lr": uniform(0.0, 1.0), "width": randint(1, 1000), "epochs": max_t}, type="pasha",
                         searcher="random", metric="error", mode="min", resource_attr="epoch",
                         max_resource_attr="epochs", grace_period=pl["grace"], reduction_factor=pl["rf"],
                         random_seed=pl["random_seed"], search_options={"debug_log": False})
            tk = make_time_keeper()
            tk.start_of_time()
            s.set_time_keeper(tk)
            trials, nxt, workers, n = {}, {}, [None] * pl["workers"], 0
            for ev_i in range(pl["n_events"]):
                if ev_i % 7 == 0:
                    perturb(pert)
                w = ev_i % len(workers)
                tid = workers[w]
                if tid is None:
                    sg = rec.call("suggest", s.suggest, n)
                    if sg is None:
                        trace.append(["suggest", n, None])
                        break
                    if sg.spawn_new_trial_id:
                        tid = n
                        n += 1
                        trials[tid] = Trial(tid, dict(sg.config), T0)
                        nxt[tid] = 1
                        rec.call("on_trial_add", s.on_trial_add, trials[tid])
                        trace.append(["start", tid, canon(sg.config)])
                    else:
                        tid = sg.checkpoint_trial_id
                        trace.append(["resume", tid])
                    workers[w] = tid
                else:
                    e = nxt[tid]
                    res = {"epoch": e, "error": metric(tid, e)}
                    d = rec.call("on_trial_result", s.on_trial_result, trials[tid], res)
                    nxt[tid] = e + 1
                    trace.append(["result", tid, e, str(d)])
                    if e >= max_t:
                        rec.call("on_trial_complete", s.on_trial_complete, trials[tid], res)
                        d = "STOP"
                    elif d == "STOP":
                        rec.call("on_trial_remove", s.on_trial_remove, trials[tid])
                    elif d == "PAUSE":
                        rec.call("on_trial_remove", s.on_trial_remove, trials[tid])
                    if d != "CONTINUE":
                        workers[w] = None
    except Exception as e:
        err = "%s: %s" % (type(e).__name__, str(e)[:200])
    return dict(trace=trace, error=err, consumed=rec.consumed)


# ---------------------------------------------------------------------------------------------------------
# multi-objective model-based searcher with deterministic nearest-neighbour surrogates (harness-side subclasses of
# the public SKLearnEstimator / SKLearnPredictor): every random decision comes from generators seeded by the library
# ---------------------------------------------------------------------------------------------------------
def run_mo_searcher(mo, twin, repo):
    from syne_tune.optimizer.schedulers.random_seeds import RandomSeedGenerator
    from syne_tune.optimizer.schedulers.multiobjective.multi_surrogate_multi_objective_searcher import (
        MultiObjectiveMultiSurrogateSearcher)
    from syne_tune.optimizer.schedulers.searchers.bayesopt.models.sklearn_model import SKLearnEstimatorWrapper
    from syne_tune.optimizer.schedulers.searchers.bayesopt.sklearn.estimator import SKLearnEstimator
    from syne_tune.optimizer.schedulers.searchers.bayesopt.sklearn.predictor import SKLearnPredictor

    class NNPredictor(SKLearnPredictor):
        def __init__(self, X, y):
            self.X, self.y = np.array(X), np.array(y).reshape((-1,))

        def predict(self, X):
            dist = np.linalg.norm(X[:, None, :] - self.X[None, :, :], axis=-1)
            pos = np.argmin(dist, axis=1)
            return self.y[pos] + dist[np.arange(X.shape[0]), pos], 0.05 + np.min(dist, axis=1)

    class NNEstimator(SKLearnEstimator):
        def fit(self, X, y, update_params):
            return NNPredictor(X, y)

    pert = pyrandom.Random("%s-%s" % (mo["perturb_seed"], twin))
    ev = pyrandom.Random(mo["event_seed"])
    space = build_space(mo["space"])
    metrics = ["loss", "cost", "lat"][:mo["n_metrics"]]
    kw = dict(config_space=space, metric=metrics, mode=mo.get("mode", "min"),
              estimators={m: SKLearnEstimatorWrapper(NNEstimator(), active_metric=m) for m in metrics},
              points_to_evaluate=[], num_initial_random_choices=mo["n_init"], num_initial_candidates=mo["n_cand"])
    if mo["seed_mode"] == "generator":
        kw["random_seed_generator"] = RandomSeedGenerator(mo["random_seed"])
    else:
        kw["random_seed"] = mo["random_seed"]
    rec = Recorder()
    trace, err = [], None
    coef = [[ev.random() for _ in range(4)] for _ in metrics]
    try:
        with contextlib.redirect_stdout(io.StringIO()):
            perturb(pert)
            s = rec.call("__init__", MultiObjectiveMultiSurrogateSearcher, **kw)
            for t in range(mo["n_suggest"]):
                perturb(pert)
                cfg = rec.call("get_config", s.get_config, trial_id=str(t))
                trace.append(["suggest", t, canon(cfg)])
                if cfg is None:
                    break
                rec.call("register_pending", s.register_pending, trial_id=str(t), config=cfg)
                nums = [float(v) for v in cfg.values() if isinstance(v, (int, float))] + [0.3, 0.6]
                # disagreeing metrics: each has its own optimum
                res = {m: (nums[0] - c[0]) ** 2 + (nums[1] - c[1]) ** 2 + 0.1 * c[2] for m, c in zip(metrics, coef)}
                perturb(pert)
                if ev.random() < mo.get("p_fail", 0.0):
                    rec.call("evaluation_failed", s.evaluation_failed, str(t))
                    trace.append(["failed", t])
                else:
                    rec.call("on_trial_result", s.on_trial_result, str(t), cfg, result=res, update=True)
    except Exception as e:
        err = "%s: %s" % (type(e).__name__, str(e)[:200])
    return dict(trace=trace, error=err, consumed=rec.consumed)


# ---------------------------------------------------------------------------------------------------------
# simulated experiment: real Tuner + SimulatorBackend over a synthetic tabular blackbox
# ---------------------------------------------------------------------------------------------------------
def run_sim_case(case, twin, repo):
    import pandas as pd
    if "yahpo_gym" not in sys.modules:
        # optional dependency whose ConfigSpace binary is incompatible with numpy 2 here (ValueError instead of
        # the ImportError that blackbox_repository/repository.py handles): mark it absent
        sys.modules["yahpo_gym"] = None
    from syne_tune import Tuner, StoppingCriterion
    from syne_tune.config_space import randint
    from syne_tune.blackbox_repository.blackbox_tabular import BlackboxTabular
    from syne_tune.blackbox_repository.simulated_tabular_backend import UserBlackboxBackend
    from syne_tune.backend.simulator_backend.simulator_callback import SimulatorCallback
    from syne_tune.backend.simulator_backend import time_keeper as sim_tk
    import tempfile
    import shutil

    pert = pyrandom.Random("%s-%s" % (case["perturb_seed"], twin))
    gen = np.random.RandomState(case["table_seed"])
    nx, ny, fid, nseeds = case["nx"], case["ny"], case["max_t"], case["num_seeds"]
    n = nx * ny      # full grid: every sampled (x, y) is a row of the table
    hp = pd.DataFrame({"x": np.repeat(np.arange(nx), ny), "y": np.tile(np.arange(ny), nx)})
    obj = gen.rand(n, nseeds, fid, 2)
    obj[..., 1] = 1.0 + obj[..., 1]   # runtime per epoch
    bb = BlackboxTabular(hyperparameters=hp, configuration_space={"x": randint(0, nx - 1), "y": randint(0, ny - 1)},
                         fidelity_space={"epoch": randint(1, fid)}, objectives_evaluations=obj,
                         objectives_names=["loss", "runtime"])
    backend = UserBlackboxBackend(blackbox=bb, elapsed_time_attr="runtime", seed=case["backend_seed"])
    space = dict(bb.configuration_space)
    space["epochs"] = fid
    perturb(pert)
    NO_CLOCK[0] = True
    try:
        sched = make_scheduler(case["kind"], space, dict(case["params"], max_t=fid), case["random_seed"])
    finally:
        NO_CLOCK[0] = False
    # real time stubbed: a counter instead of the wall clock inside the simulated time keeper
    class FakeTime:
        def __init__(self):
            self.t = 1000.0

        def time(self):
            self.t += pert.random() * (0.0 if case.get("zero_real_time", True) else 1e-3)
            return self.t

    sim_tk.time = FakeTime()
    tmp = tempfile.mkdtemp(prefix="c11sim_")
    os.environ["SYNETUNE_FOLDER"] = tmp      # results / tuner files of the experiment go to the scratch directory
    os.makedirs(os.path.join(tmp, "c11sim"), exist_ok=True)
    err = None
    rows = None
    rec = Recorder()
    try:
        with contextlib.redirect_stdout(io.StringIO()), contextlib.redirect_stderr(io.StringIO()):
            tuner = Tuner(trial_backend=backend, scheduler=sched,
                          stop_criterion=StoppingCriterion(max_num_trials_started=case["max_trials"]),
                          n_workers=case["workers"], sleep_time=0, callbacks=[SimulatorCallback()],
                          tuner_name="c11sim", save_tuner=False, suffix_tuner_name=False,
                          results_update_interval=1e9, print_update_interval=1e9,
                          metadata={})
            before = rec.snap()
            tuner.run()
            after = rec.snap()
            if before[:4] != after[:4]:
                rec.consumed.append(["Tuner.run", "numpy.random"])
            from syne_tune.experiments import load_experiment
            df = None
            for cb in tuner.callbacks:
                if hasattr(cb, "dataframe"):
                    df = cb.dataframe()
            if df is None:
                raise RuntimeError("no results dataframe")
            cols = sorted(df.columns)    # every column, incl. the simulated clock st_tuner_time
            rows = [[c, canon(df[c].tolist())] for c in cols]
    except Exception as e:
        import traceback
        err = "%s: %s | %s" % (type(e).__name__, str(e)[:300], traceback.format_exc()[-600:] if os.environ.get("C11_DEBUG") else "")
    finally:
        shutil.rmtree(tmp, ignore_errors=True)
    return dict(table=rows, error=err, consumed=rec.consumed)


def main():
    job = json.load(sys.stdin)
    repo = os.environ.get("VERIF_REPO", "/repo")
    results = []
    import signal

    class CaseTimeout(BaseException):
        pass

    def on_alarm(signum, frame):
        raise CaseTimeout()

    signal.signal(signal.SIGALRM, on_alarm)
    limit = int(job.get("case_timeout", 300))
    for case in job["cases"]:
        try:
            signal.alarm(limit)
            if case["kind"] == "sim":
                results.append(run_sim_case(case["sim"], job["twin"], repo))
            elif case["kind"] == "mo_searcher":
                results.append(run_mo_searcher(case["mo"], job["twin"], repo))
            elif case["kind"] == "pasha_long":
                results.append(run_pasha_long(case["pl"], job["twin"], repo))
            else:
                results.append(run_sched_case(case, job["twin"], repo))
        except CaseTimeout:
            # a scheduler call that does not return (both twins behave alike): recorded, compared like an error
            sys.setprofile(None)
            sys.settrace(None)
            results.append(dict(trace=None, table=None, error="Timeout: case did not finish within %d s" % limit,
                                consumed=[]))
        except Exception as e:   # harness trouble, reported as such
            results.append(dict(harness_error="%s: %s" % (type(e).__name__, str(e)[:300])))
        finally:
            signal.alarm(0)
    sys.stdout.write("\n@@C11@@" + json.dumps(dict(results=results, hashseed=os.environ.get("PYTHONHASHSEED"))) + "\n")


if __name__ == "__main__":
    main()
