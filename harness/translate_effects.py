"""C11 / C16 translator: Python `ast` of /repo's CURRENT working tree -> Coq facts (coq/gen/EffFacts.v).

What is generated (see DESIGN.md 5.2, coq/model/EffGraph.v for the Coq side):

* nodes (numbered, `positive`): one per function / method (`F`), one per class (`C`, "an object of this class
  or of a subclass may exist / the class is used as a value"), one per module-level variable (`G`, whose
  initialiser may mention classes / functions), one per module (`M`, import-time code), one per method NAME
  (`N`, the by-name dispatch point), and one `@rsnone` twin (`D`) for every function that has a parameter
  `random_state` (the part of its body that only runs when that parameter is None / omitted).
* `edges : list (src * dst * cond * lits)`: OVER-approximate call / reference graph.
    - call or mere mention of a function        : F -> F
    - mention of a class (call = constructor)   : F -> C ;  C -> every dunder method along its MRO ; C -> C_base
    - attribute access `x.m` (call or not; properties, bound methods passed as callbacks):
         F -> N(m) ; N(m) -> D.m  under cond C(D)  for EVERY class D of the closure defining m   (RTA-style:
         the method of D can only run if an object of D or of a subclass exists)
    - mention of a module-level variable        : F -> G ; G -> what its initialiser mentions
    - `lits`: guard literals: the site is syntactically inside the branch of an `if` whose test only talks
      about names the property fixes (`random_seed is None`, `searcher_name == "kde"`, `self._seed is not None`);
      a configuration lists the literals that are FALSE under its fixing (`off_<cfg>`), those edges are disabled.
* `effs : list (node * eff * lits * name)`: syntactic effect sites (name = qualified function name, so that
  allow-lists in theorem statements are stable under renumbering).
* per configuration `roots_<cfg>`, `off_<cfg>`.

Fail-closed: an AST node type that is not in KNOWN_NODES, a module of the closure that does not parse, or a
relative import that cannot be resolved raises TranslatorError (the check then reports a broken proof step).
Blind spots (trusted base): see BLIND_SPOTS at the end of this file.
"""
import ast
import json
import os
import sys

try:
    import common
except ImportError:  # stand-alone use
    common = None


class TranslatorError(Exception):
    pass


# ---------------------------------------------------------------------------------------------------------
# configuration of the analysis
# ---------------------------------------------------------------------------------------------------------
PKG = "syne_tune"
ROOT_MODULES = [
    "syne_tune.optimizer.schedulers.fifo",
    "syne_tune.optimizer.schedulers.hyperband",
    "syne_tune.optimizer.schedulers.pbt",
    "syne_tune.optimizer.schedulers.median_stopping_rule",
    "syne_tune.optimizer.schedulers.random_seeds",
    "syne_tune.optimizer.schedulers.scheduler_searcher",
    "syne_tune.optimizer.schedulers.synchronous.hyperband_impl",
    "syne_tune.optimizer.schedulers.synchronous.dehb",
    "syne_tune.optimizer.schedulers.searchers.searcher_factory",
    "syne_tune.optimizer.schedulers.searchers.random_grid_searcher",
    "syne_tune.optimizer.schedulers.searchers.regularized_evolution",
    "syne_tune.optimizer.schedulers.searchers.gp_fifo_searcher",
    "syne_tune.optimizer.schedulers.searchers.gp_multifidelity_searcher",
    "syne_tune.optimizer.schedulers.searchers.hypertune.hypertune_searcher",
    "syne_tune.config_space",
    "syne_tune.tuner",
    "syne_tune.backend.simulator_backend.simulator_backend",
    "syne_tune.backend.simulator_backend.simulator_callback",
    "syne_tune.blackbox_repository.simulated_tabular_backend",
    "syne_tune.blackbox_repository.blackbox_tabular",
    "syne_tune.backend.trial_status",
    "syne_tune.optimizer.schedulers.multiobjective.multi_surrogate_multi_objective_searcher",
    "syne_tune.optimizer.schedulers.searchers.bayesopt.models.sklearn_model",
]
# modules whose classes are supplied by the USER of a scheduler (configuration spaces, trials): instances exist
ENV_MODULES = ["syne_tune.config_space", "syne_tune.backend.trial_status"]

NOTNONE = "<given>"      # value of a fixed name that is known to be given (not None) but otherwise arbitrary
OBJECT = "<object>"      # value that is an object, not a string

SCHED = "syne_tune.optimizer.schedulers."
# name -> (root classes, fixing of names).  Every configuration fixes random_seed as given.
CONFIGS = {
    "fifo_random": ([SCHED + "fifo.FIFOScheduler"], {"searcher_name": "random"}),
    "fifo_grid": ([SCHED + "fifo.FIFOScheduler"], {"searcher_name": "grid"}),
    "fifo_rea": ([SCHED + "fifo.FIFOScheduler", SCHED + "searchers.regularized_evolution.RegularizedEvolution"],
                 {"searcher": OBJECT, "searcher_name": "<none>"}),
    "fifo_bayesopt": ([SCHED + "fifo.FIFOScheduler"], {"searcher_name": "bayesopt"}),
    "hyperband_random": ([SCHED + "hyperband.HyperbandScheduler"], {"searcher_name": "random"}),
    "hyperband_bayesopt": ([SCHED + "hyperband.HyperbandScheduler"], {"searcher_name": "bayesopt"}),
    "hyperband_hypertune": ([SCHED + "hyperband.HyperbandScheduler"], {"searcher_name": "hypertune"}),
    "hyperband_dyhpo": ([SCHED + "hyperband.HyperbandScheduler"], {"searcher_name": "dyhpo"}),
    "synchb_random": ([SCHED + "synchronous.hyperband_impl.SynchronousGeometricHyperbandScheduler"],
                      {"searcher_name": "random"}),
    "synchb_bayesopt": ([SCHED + "synchronous.hyperband_impl.SynchronousGeometricHyperbandScheduler"],
                        {"searcher_name": "bayesopt"}),
    "dehb": ([SCHED + "synchronous.hyperband_impl.GeometricDifferentialEvolutionHyperbandScheduler"],
             {"searcher_name": "random"}),
    "pbt": ([SCHED + "pbt.PopulationBasedTraining"], {"searcher_name": "random"}),
    "msr": ([SCHED + "median_stopping_rule.MedianStoppingRule", SCHED + "fifo.FIFOScheduler"],
            {"searcher_name": "random"}),
    # simulated experiment: real Tuner + SimulatorBackend over a tabular blackbox, backend seed given
    "sim_experiment": ([SCHED + "fifo.FIFOScheduler", SCHED + "hyperband.HyperbandScheduler",
                        "syne_tune.tuner.Tuner",
                        "syne_tune.backend.simulator_backend.simulator_callback.SimulatorCallback",
                        "syne_tune.blackbox_repository.simulated_tabular_backend.UserBlackboxBackend",
                        "syne_tune.blackbox_repository.blackbox_tabular.BlackboxTabular",
                        "syne_tune.stopping_criterion.StoppingCriterion",
                        "syne_tune.results_callback.StoreResultsCallback"],
                       {"searcher_name": "random", "self._seed": NOTNONE, "seed": NOTNONE}),
}
# multi-objective model-based searcher with user-supplied (sklearn-style) surrogates, seeded through either route
# (random_seed or random_seed_generator): random_seed itself is NOT fixed here
CONFIGS["mo_multisurrogate"] = (
    [SCHED + "multiobjective.multi_surrogate_multi_objective_searcher.MultiObjectiveMultiSurrogateSearcher",
     SCHED + "searchers.bayesopt.models.sklearn_model.SKLearnEstimatorWrapper",
     SCHED + "searchers.bayesopt.sklearn.estimator.SKLearnEstimator",
     SCHED + "searchers.bayesopt.sklearn.predictor.SKLearnPredictor"],
    {"random_seed": "<unfixed>"})
MODEL_FREE = ["fifo_random", "fifo_grid", "fifo_rea", "hyperband_random", "synchb_random", "dehb", "pbt", "msr"]
# random_seed is given; the clock is an explicit input (a TimeKeeper object is passed to the scheduler)
COMMON_FIX = {"random_seed": NOTNONE, "time_keeper": NOTNONE, "self.time_keeper": NOTNONE}
RS_PARAM = "random_state"

EFFS = ["GlobalNumpyRNG", "PyRandom", "HashOrderIter", "WallClock", "ModuleGlobalWrite", "ClassAttrWrite",
        "CustomPickle", "ProcEntropy", "DynamicCode", "DynamicAttr", "UnseededGenerator", "UnknownRngReceiver",
        "RandomStateOmitted"]
# seed flow (naming-convention based): a generator is constructed from a seed-derived expression, and every draw goes
# through a receiver that is generator-valued by construction or by name
DRAW_METHODS = {"rand", "randn", "randint", "uniform", "normal", "choice", "shuffle", "permutation", "multinomial",
                "random_sample", "binomial", "standard_normal", "integers", "beta", "gamma", "exponential",
                "dirichlet", "multivariate_normal", "lognormal", "poisson"}
GENERATOR_NAMES = ("random_state", "rng", "prng")
MUTABLE_CTORS = {"dict", "list", "set", "defaultdict", "OrderedDict", "deque", "Counter"}

NUMPY_MODS = {"numpy", "autograd.numpy"}
NP_RANDOM_SAFE = {"RandomState", "Generator", "default_rng", "SeedSequence", "BitGenerator", "MT19937", "PCG64",
                  "Philox", "SFC64", "PCG64DXSM", "mtrand", "bit_generator"}
NP_RANDOM_CTORS = {"RandomState", "default_rng", "SeedSequence", "MT19937", "PCG64", "Philox", "SFC64", "PCG64DXSM"}
WALLCLOCK = {"time.time", "time.perf_counter", "time.monotonic", "time.time_ns", "time.perf_counter_ns",
             "time.monotonic_ns", "time.process_time", "time.localtime", "time.gmtime", "time.ctime",
             "time.strftime", "time.asctime",
             "datetime.datetime.now", "datetime.datetime.utcnow", "datetime.datetime.today", "datetime.date.today"}
PROC_ENTROPY = {"uuid.uuid1", "uuid.uuid4", "os.urandom", "os.getpid", "os.getrandom", "secrets",
                "tempfile.mkdtemp", "tempfile.mkstemp", "threading.get_ident"}
DYNAMIC_CODE_BUILTINS = {"exec", "eval", "compile", "__import__", "globals"}
DYNAMIC_CODE_EXT = {"importlib.import_module", "importlib.__import__"}
MUTATORS = {"append", "extend", "insert", "pop", "remove", "clear", "update", "add", "discard", "setdefault",
            "popitem", "sort", "reverse", "appendleft", "popleft", "__setitem__", "__delitem__"}
ORDER_FREE_CONSUMERS = {"sorted", "sum", "min", "max", "any", "all", "len", "set", "frozenset", "bool"}
ITERTOOLS_CONSUMERS = {"combinations", "combinations_with_replacement", "permutations", "islice", "product", "accumulate",
                       "cycle", "zip_longest", "starmap", "takewhile", "dropwhile", "groupby", "pairwise", "tee",
                       "compress", "batched"}
# consumers that look at a PREFIX / a bounded part of what they are given: the hash order decides WHICH elements count
TRUNCATORS = {"islice", "next", "takewhile", "zip", "zip_longest", "batched", "head", "first"}
ORDERED_CONSUMER_FUNCS = {"list", "tuple", "enumerate", "iter", "next", "zip", "map", "filter", "reversed", "dict",
                          "OrderedDict", "deque"} | ITERTOOLS_CONSUMERS
ORDERED_CONSUMER_ATTRS = {"join", "extend", "choice", "shuffle", "permutation", "array", "asarray", "fromkeys",
                          "DataFrame", "Series", "concatenate", "stack", "fromiter", "from_iterable", "chain"} \
    | ITERTOOLS_CONSUMERS
WITH_DUNDERS = {"__enter__", "__exit__", "__aenter__", "__aexit__"}
PICKLE_HOOKS = {"__getstate__", "__setstate__", "__reduce__", "__reduce_ex__", "__deepcopy__", "__copy__",
                "__getnewargs__", "__getnewargs_ex__"}

KNOWN_NODES = {
    "Module", "FunctionDef", "AsyncFunctionDef", "ClassDef", "Return", "Delete", "Assign", "AugAssign", "AnnAssign",
    "For", "AsyncFor", "While", "If", "With", "AsyncWith", "Raise", "Try", "Assert", "Import", "ImportFrom",
    "Global", "Nonlocal", "Expr", "Pass", "Break", "Continue", "BoolOp", "NamedExpr", "BinOp", "UnaryOp", "Lambda",
    "IfExp", "Dict", "Set", "ListComp", "SetComp", "DictComp", "GeneratorExp", "Await", "Yield", "YieldFrom",
    "Compare", "Call", "FormattedValue", "JoinedStr", "Constant", "Attribute", "Subscript", "Starred", "Name",
    "List", "Tuple", "Slice", "Load", "Store", "Del", "And", "Or", "Add", "Sub", "Mult", "MatMult", "Div", "Mod",
    "Pow", "LShift", "RShift", "BitOr", "BitXor", "BitAnd", "FloorDiv", "Invert", "Not", "UAdd", "USub", "Eq",
    "NotEq", "Lt", "LtE", "Gt", "GtE", "Is", "IsNot", "In", "NotIn", "comprehension", "ExceptHandler", "arguments",
    "arg", "keyword", "alias", "withitem", "TryStar",
}


# ---------------------------------------------------------------------------------------------------------
# module table / import closure
# ---------------------------------------------------------------------------------------------------------
class Mod:
    def __init__(self, name, path, is_pkg, tree):
        self.name, self.path, self.is_pkg, self.tree = name, path, is_pkg, tree
        self.syms = {}       # top-level name -> sym
        self.init_node = None


def mod_path(repo, name):
    base = os.path.join(repo, *name.split("."))
    if os.path.isfile(os.path.join(base, "__init__.py")):
        return os.path.join(base, "__init__.py"), True
    if os.path.isfile(base + ".py"):
        return base + ".py", False
    return None, False


def check_known(tree, path):
    for n in ast.walk(tree):
        if type(n).__name__ not in KNOWN_NODES:
            raise TranslatorError("%s:%s: syntax node %s is not understood by the translator (fail-closed)" % (
                path, getattr(n, "lineno", "?"), type(n).__name__))


class Analysis:
    def __init__(self, repo):
        self.repo = repo
        self.mods = {}
        self.nodes = []          # id-1 -> (kind, qualified name)
        self.node_id = {}
        self.edges = set()       # (src, dst, cond, lits)
        self.effs = set()        # (node, eff, lits, site text)
        self.classes = {}        # qualified name -> ClassInfo
        self.funcs = {}          # qualified name -> FuncInfo
        self.methods_by_name = {}  # name -> [(ClassInfo, FuncInfo)]
        self.tests = {}          # canonical test text -> (id, ast)
        self.stats = {"unresolved_local_calls": 0, "dynamic_getattr": 0, "modules": 0}
        self.blind = []
        self.set_attrs = {}
        self._fam_cache = {}
        self.eff_tags = {}
        self._clm_cache = {}
        self.instance_assigned = {}   # class -> attribute names assigned as self.X = ... in some method
        self.TOP = self.node("T", "<top>")

    def class_level_mutable(self, c, attr):
        key = (c.qual, attr)
        if key not in self._clm_cache:
            res = False
            for k in c.mro():
                v = k.class_attrs.get(attr)
                if v is not None and (isinstance(v, (ast.Dict, ast.List, ast.Set, ast.ListComp, ast.DictComp, ast.SetComp))
                                      or (isinstance(v, ast.Call) and isinstance(v.func, (ast.Name, ast.Attribute))
                                          and (v.func.id if isinstance(v.func, ast.Name) else v.func.attr) in MUTABLE_CTORS)):
                    res = True
                    break
            if res:
                fam = [k for k in c.mro()] + [d for d in self.classes.values() if any(k.qual == c.qual for k in d.mro())]
                for k in fam:
                    if attr in self.instance_assigned.get(k.qual, ()):
                        res = False
            self._clm_cache[key] = res
        return self._clm_cache[key]

    def family_set_attrs(self, c):
        """attribute names assigned a set expression in c, an ancestor or a descendant of c"""
        if c.qual not in self._fam_cache:
            fam = set(k.qual for k in c.mro())
            for d in self.classes.values():
                if any(k.qual == c.qual for k in d.mro()):
                    fam.add(d.qual)
            out = set()
            for q in fam:
                out |= self.set_attrs.get(q, set())
            self._fam_cache[c.qual] = out
        return self._fam_cache[c.qual]

    # ---- nodes ----
    def node(self, kind, name):
        key = (kind, name)
        if key not in self.node_id:
            self.nodes.append(key)
            self.node_id[key] = len(self.nodes)
        return self.node_id[key]

    def edge(self, src, dst, cond=None, lits=()):
        if src == dst and cond is None:
            return
        self.edges.add((src, dst, cond or self.TOP, tuple(sorted(set(lits)))))

    def eff(self, node, kind, lits, where, tag=""):
        assert kind in EFFS
        self.effs.add((node, kind, tuple(sorted(set(lits))), where))
        if tag:
            self.eff_tags.setdefault((node, kind), set()).add(tag)

    # ---- loading ----
    def load(self, name):
        if name in self.mods:
            return self.mods[name]
        path, is_pkg = mod_path(self.repo, name)
        if path is None:
            return None
        try:
            src = open(path).read()
            tree = ast.parse(src, filename=path)
        except SyntaxError as e:
            raise TranslatorError("cannot parse %s: %s" % (path, e))
        check_known(tree, path)
        m = Mod(name, path, is_pkg, tree)
        self.mods[name] = m
        # parent packages are imported first
        if "." in name:
            self.load(name.rsplit(".", 1)[0])
        for n in ast.walk(tree):
            if isinstance(n, ast.Import):
                for a in n.names:
                    if a.name.split(".")[0] == PKG:
                        self.load_prefixes(a.name)
            elif isinstance(n, ast.ImportFrom):
                base = self.abs_from(m, n)
                if base is not None and base.split(".")[0] == PKG:
                    self.load_prefixes(base)
                    for a in n.names:
                        if mod_path(self.repo, base + "." + a.name)[0]:
                            self.load(base + "." + a.name)
        return m

    def load_prefixes(self, dotted):
        parts = dotted.split(".")
        for i in range(1, len(parts) + 1):
            self.load(".".join(parts[:i]))

    def abs_from(self, m, n):
        if n.level == 0:
            return n.module
        pkg = m.name if m.is_pkg else m.name.rsplit(".", 1)[0]
        parts = pkg.split(".")
        if n.level - 1 > len(parts):
            raise TranslatorError("%s:%d: relative import beyond top level" % (m.path, n.lineno))
        parts = parts[:len(parts) - (n.level - 1)]
        return ".".join(parts + ([n.module] if n.module else []))


class ClassInfo:
    def __init__(self, qual, mod, node, outer_func=None):
        self.qual, self.mod, self.node = qual, mod, node
        self.bases = []          # ClassInfo list (resolved later)
        self.methods = {}        # name -> [FuncInfo]
        self.class_attrs = {}    # name -> value ast
        self.cid = None
        self.scope_syms = {}     # nested classes

    def mro(self):
        seen, out, todo = set(), [], [self]
        while todo:
            c = todo.pop(0)
            if c.qual in seen:
                continue
            seen.add(c.qual)
            out.append(c)
            todo.extend(c.bases)
        return out


class FuncInfo:
    def __init__(self, qual, mod, node, cls):
        self.qual, self.mod, self.node, self.cls = qual, mod, node, cls
        self.fid = None
        self.did = None   # @rsnone twin


# ---------------------------------------------------------------------------------------------------------
# pass 1: symbols
# ---------------------------------------------------------------------------------------------------------
def collect_symbols(A):
    for m in list(A.mods.values()):
        m.init_node = A.node("M", m.name)
        _collect_block(A, m, m.tree.body, m.name, None, m.syms, toplevel=True)


def _collect_block(A, m, body, prefix, cls, syms, toplevel):
    for st in body:
        if isinstance(st, (ast.FunctionDef, ast.AsyncFunctionDef)):
            qual = prefix + "." + st.name
            k = 2
            while qual in A.funcs:   # several defs of one name (property setter, overloads, if/else defs)
                qual = "%s.%s#%d" % (prefix, st.name, k)
                k += 1
            f = FuncInfo(qual, m, st, cls)
            f.fid = A.node("F", qual)
            A.funcs[qual] = f
            if cls is not None:
                cls.methods.setdefault(st.name, []).append(f)
                A.methods_by_name.setdefault(st.name, []).append((cls, f))
            else:
                if syms.get(st.name, ("func", []))[0] != "func":
                    syms[st.name] = ("func", [])
                syms.setdefault(st.name, ("func", []))[1].append(f)
            _collect_nested_classes(A, m, st, qual)
        elif isinstance(st, ast.ClassDef):
            qual = prefix + "." + st.name
            if qual in A.classes:
                qual = qual + "#2"
            c = ClassInfo(qual, m, st)
            c.cid = A.node("C", qual)
            A.classes[qual] = c
            syms[st.name] = ("class", c)
            if cls is not None:
                cls.scope_syms[st.name] = ("class", c)
            _collect_block(A, m, st.body, qual, c, c.scope_syms, toplevel=False)
        elif isinstance(st, (ast.Assign, ast.AnnAssign, ast.AugAssign)):
            targets = st.targets if isinstance(st, ast.Assign) else [st.target]
            for t in targets:
                for nm in _target_names(t):
                    if cls is not None:
                        cls.class_attrs[nm] = getattr(st, "value", None)
                    elif toplevel and syms.get(nm, ("global",))[0] == "global":
                        syms[nm] = ("global", A.node("G", m.name + "." + nm))
        elif isinstance(st, (ast.If, ast.Try, ast.With, ast.For, ast.While)) or type(st).__name__ == "TryStar":
            for fld in ("body", "orelse", "finalbody"):
                _collect_block(A, m, getattr(st, fld, []) or [], prefix, cls, syms, toplevel)
            for h in getattr(st, "handlers", []) or []:
                _collect_block(A, m, h.body, prefix, cls, syms, toplevel)


def _collect_nested_classes(A, m, fnode, fqual):
    """classes defined inside a function body: registered with a qualified name under the function"""
    for n in ast.walk(fnode):
        if isinstance(n, ast.ClassDef):
            qual = fqual + ".<locals>." + n.name
            if qual in A.classes:
                continue
            c = ClassInfo(qual, m, n)
            c.cid = A.node("C", qual)
            c.local_to = fqual
            A.classes[qual] = c
            _collect_block(A, m, n.body, qual, c, c.scope_syms, toplevel=False)


def _target_names(t):
    if isinstance(t, ast.Name):
        return [t.id]
    if isinstance(t, (ast.Tuple, ast.List)):
        return [x for e in t.elts for x in _target_names(e)]
    if isinstance(t, ast.Starred):
        return _target_names(t.value)
    return []


def collect_imports(A):
    """module-level imports (anywhere in the module outside def bodies incl. try/if) -> syms"""
    for m in A.mods.values():
        for st in _module_level_statements(m.tree.body):
            if isinstance(st, (ast.Import, ast.ImportFrom)):
                for k, v in import_bindings(A, m, st).items():
                    if k not in m.syms or m.syms[k][0] in ("mod", "ext", "imp"):
                        m.syms[k] = v


def _is_main_guard(st):
    return (isinstance(st, ast.If) and isinstance(st.test, ast.Compare) and isinstance(st.test.left, ast.Name)
            and st.test.left.id == "__name__")


def _module_level_statements(body):
    for st in body:
        if _is_main_guard(st):
            continue   # script entry point: not import-time code
        yield st
        if isinstance(st, (ast.If, ast.Try, ast.With)) or type(st).__name__ == "TryStar":
            for fld in ("body", "orelse", "finalbody"):
                for x in _module_level_statements(getattr(st, fld, []) or []):
                    yield x
            for h in getattr(st, "handlers", []) or []:
                for x in _module_level_statements(h.body):
                    yield x


def import_bindings(A, m, st):
    out = {}
    if isinstance(st, ast.Import):
        for a in st.names:
            if a.asname:
                out[a.asname] = ("mod", a.name) if a.name.split(".")[0] == PKG else ("ext", a.name)
            else:
                top = a.name.split(".")[0]
                out[top] = ("mod", top) if top == PKG else ("ext", top)
    else:
        base = A.abs_from(m, st)
        for a in st.names:
            nm = a.asname or a.name
            if a.name == "*":
                tgt = A.mods.get(base)
                if tgt is not None:
                    for k, v in tgt.syms.items():
                        if not k.startswith("_"):
                            out[k] = ("imp", base, k)
                continue
            if base is not None and base.split(".")[0] == PKG:
                if (base + "." + a.name) in A.mods:
                    out[nm] = ("mod", base + "." + a.name)
                else:
                    out[nm] = ("imp", base, a.name)
            else:
                out[nm] = ("ext", (base or "") + "." + a.name)
    return out


def resolve_sym(A, sym, depth=0):
    """follow re-exports; returns ('func',[..]) | ('class',c) | ('global',gid) | ('mod',name) | ('ext',dotted) | None"""
    while sym is not None and sym[0] == "imp":
        if depth > 12:
            return None
        depth += 1
        tgt = A.mods.get(sym[1])
        if tgt is None:
            return None
        sym = tgt.syms.get(sym[2])
    return sym


def resolve_bases(A):
    for c in A.classes.values():
        for b in c.node.bases:
            s = resolve_expr_static(A, c.mod, b, getattr(c, "scope_chain", None))
            if s is not None and s[0] == "class":
                c.bases.append(s[1])


def resolve_expr_static(A, m, e, extra=None):
    """resolve a Name / dotted Attribute at module scope"""
    if isinstance(e, ast.Name):
        if extra and e.id in extra:
            return resolve_sym(A, extra[e.id])
        return resolve_sym(A, m.syms.get(e.id))
    if isinstance(e, ast.Attribute):
        base = resolve_expr_static(A, m, e.value, extra)
        return attr_of_sym(A, base, e.attr)
    if isinstance(e, ast.Subscript):   # Generic[T] etc.
        return resolve_expr_static(A, m, e.value, extra)
    return None


def attr_of_sym(A, base, attr):
    if base is None:
        return None
    if base[0] == "mod":
        full = base[1] + "." + attr
        if full in A.mods:
            return ("mod", full)
        tgt = A.mods.get(base[1])
        if tgt is None:
            return None
        return resolve_sym(A, tgt.syms.get(attr))
    if base[0] == "ext":
        return ("ext", base[1] + "." + attr)
    if base[0] == "class":
        c = base[1]
        for k in c.mro():
            if attr in k.scope_syms:
                return k.scope_syms[attr]
            if attr in k.methods:
                return ("func", k.methods[attr])
            if attr in k.class_attrs:
                return ("classattr", k, attr)
        return ("classattr", c, attr)
    return None


# ---------------------------------------------------------------------------------------------------------
# guard tests
# ---------------------------------------------------------------------------------------------------------
def test_key(e):
    """key of a test subject: Name x -> 'x', self.x -> 'self.x'"""
    if isinstance(e, ast.Name):
        return e.id
    if isinstance(e, ast.Attribute) and isinstance(e.value, ast.Name) and e.value.id == "self":
        return "self." + e.attr
    return None


def eval_test(t, env):
    """three-valued: True / False / None (unknown)"""
    if isinstance(t, ast.UnaryOp) and isinstance(t.op, ast.Not):
        v = eval_test(t.operand, env)
        return None if v is None else (not v)
    if isinstance(t, ast.BoolOp):
        vs = [eval_test(x, env) for x in t.values]
        if isinstance(t.op, ast.And):
            if any(v is False for v in vs):
                return False
            return True if all(v is True for v in vs) else None
        if any(v is True for v in vs):
            return True
        return False if all(v is False for v in vs) else None
    if isinstance(t, ast.Compare) and len(t.ops) == 1:
        k = test_key(t.left)
        if k is None or k not in env:
            return None
        val, op, rhs = env[k], t.ops[0], t.comparators[0]
        if isinstance(op, (ast.Is, ast.IsNot, ast.Eq, ast.NotEq)) and isinstance(rhs, ast.Constant):
            if rhs.value is None:
                r = False            # every fixed value is a given one
            elif val == NOTNONE:
                return None
            elif val == OBJECT:
                if not isinstance(rhs.value, str):
                    return None
                r = False
            else:
                r = (val == rhs.value)
            return r if isinstance(op, (ast.Is, ast.Eq)) else (not r)
        if isinstance(op, (ast.In, ast.NotIn)) and isinstance(rhs, (ast.Tuple, ast.List, ast.Set)) and all(
                isinstance(x, ast.Constant) for x in rhs.elts):
            if val == NOTNONE:
                return None
            r = val in [x.value for x in rhs.elts]
            return r if isinstance(op, ast.In) else (not r)
        return None
    if isinstance(t, ast.Call) and isinstance(t.func, ast.Name) and t.func.id == "isinstance" and len(t.args) == 2:
        k = test_key(t.args[0])
        if k in env and isinstance(t.args[1], ast.Name) and t.args[1].id == "str":
            v = env[k]
            if v == NOTNONE:
                return None
            return v != OBJECT
    return None


def test_mentions_fixed(t, fixed_keys):
    for n in ast.walk(t):
        if test_key(n) in fixed_keys:
            return True
    return False


# ---------------------------------------------------------------------------------------------------------
# pass 2: function bodies
# ---------------------------------------------------------------------------------------------------------
class Scope:
    def __init__(self, A, mod, attr_node, cls, func, locals_, local_syms):
        self.A, self.mod, self.node, self.cls, self.func = A, mod, attr_node, cls, func
        self.locals = locals_         # names bound in the function (params, assignments, loop vars ...)
        self.local_syms = local_syms  # function-local imports / local classes -> sym
        self.set_vars = set()
        self.gen_vars = set()         # locals bound to a generator by construction
        self.global_alias = set()     # locals bound to (parts of) class objects / module-level variables
        self.global_alias_kind = {}
        self.globals_decl = set()
        self.rs_param = False


def function_locals(fnode):
    names, globals_decl = set(), set()
    a = fnode.args
    for x in a.posonlyargs + a.args + a.kwonlyargs:
        names.add(x.arg)
    if a.vararg:
        names.add(a.vararg.arg)
    if a.kwarg:
        names.add(a.kwarg.arg)
    for n in ast.walk(fnode):
        if isinstance(n, ast.Name) and isinstance(n.ctx, (ast.Store, ast.Del)):
            names.add(n.id)
        elif isinstance(n, (ast.FunctionDef, ast.AsyncFunctionDef, ast.ClassDef)) and n is not fnode:
            names.add(n.name)
            if not isinstance(n, ast.ClassDef):
                b = n.args
                for x in b.posonlyargs + b.args + b.kwonlyargs:
                    names.add(x.arg)
                if b.vararg:
                    names.add(b.vararg.arg)
                if b.kwarg:
                    names.add(b.kwarg.arg)
        elif isinstance(n, ast.Lambda):
            b = n.args
            for x in b.posonlyargs + b.args + b.kwonlyargs:
                names.add(x.arg)
        elif isinstance(n, ast.Global):
            globals_decl.update(n.names)
        elif isinstance(n, ast.ExceptHandler) and n.name:
            names.add(n.name)
        elif isinstance(n, (ast.Import, ast.ImportFrom)):
            for al in n.names:
                names.add((al.asname or al.name).split(".")[0])
    return names - globals_decl, globals_decl


class BodyVisitor:
    """walks one function body (nested defs / lambdas are merged into the enclosing function)"""

    def __init__(self, A, fixed_keys):
        self.A = A
        self.fixed_keys = fixed_keys

    # ---- helpers ----
    def where(self, sc, n):
        rel = os.path.relpath(sc.mod.path, self.A.repo)
        return "%s:%d" % (rel, getattr(n, "lineno", 0))

    def lit(self, test, polarity):
        A = self.A
        key = ast.unparse(test)
        if key not in A.tests:
            A.tests[key] = (len(A.tests) + 1, test)
        tid = A.tests[key][0]
        return 2 * tid + (0 if polarity else 1)

    def target(self, sc, lits):
        """node the site is attributed to: the @rsnone twin when inside `if random_state is None`"""
        return sc.node

    def lookup(self, sc, name):
        if name in sc.local_syms:
            return resolve_sym(self.A, sc.local_syms[name])
        if name in sc.locals:
            return ("local", name)
        c = sc.cls
        # class scope names are NOT visible in method bodies (python scoping); module scope next
        s = resolve_sym(self.A, sc.mod.syms.get(name))
        if s is not None:
            return s
        return ("builtin", name)

    def chain(self, e):
        parts = []
        while isinstance(e, ast.Attribute):
            parts.append(e.attr)
            e = e.value
        return e, list(reversed(parts))

    # ---- references ----
    def ref_sym(self, sc, s, lits, n, called=False, call=None):
        """an expression resolved statically to symbol s is mentioned (or called) at n"""
        A = self.A
        if s is None:
            return
        k = s[0]
        if k == "func":
            for f in s[1]:
                A.edge(sc.node, f.fid, None, lits)
                if called and f.did is not None and call is not None and call_omits_rs(f, call, method=False):
                    A.edge(sc.node, f.did, None, lits)
                    if f.qual in A.rs_fallback:
                        A.eff(sc.node, "RandomStateOmitted", lits, "%s call %s(...) without random_state" % (
                            self.where(sc, n), f.node.name), tag="call %s() without random_state" % f.node.name)
                if not called and f.did is not None:
                    A.edge(sc.node, f.did, None, lits)   # passed as a value: may be called without random_state
        elif k == "class":
            A.edge(sc.node, s[1].cid, None, lits)
            if called and call is not None:
                for kls in s[1].mro():
                    for f in kls.methods.get("__init__", []):
                        if f.did is not None and call_omits_rs(f, call, method=True):
                            A.edge(sc.node, f.did, None, lits)
                        break
        elif k == "global":
            A.edge(sc.node, s[1], None, lits)
        elif k == "classattr":
            A.edge(sc.node, s[1].cid, None, lits)
            self.by_name(sc, s[2], lits, n, None)
        elif k == "ext":
            self.ext_ref(sc, s[1], lits, n, called, call)
        elif k == "builtin":
            nm = s[1]
            if nm in DYNAMIC_CODE_BUILTINS:
                A.eff(sc.node, "DynamicCode", lits, "%s %s()" % (self.where(sc, n), nm))
            elif nm in ("hash", "id") and called:
                A.eff(sc.node, "ProcEntropy", lits, "%s %s()" % (self.where(sc, n), nm))

    def ext_ref(self, sc, dotted, lits, n, called, call):
        A = self.A
        w = self.where(sc, n)
        for np_ in NUMPY_MODS:
            pre = np_ + ".random"
            if dotted == pre:
                A.eff(sc.node, "GlobalNumpyRNG", lits, "%s %s used as generator" % (w, dotted))
                return
            if dotted.startswith(pre + "."):
                rest = dotted[len(pre) + 1:].split(".")[0]
                if rest in NP_RANDOM_SAFE:
                    if called and rest in NP_RANDOM_CTORS and call is not None and dotted.endswith(rest):
                        if ctor_unseeded(call):
                            A.eff(sc.node, "GlobalNumpyRNG", lits, "%s %s() without seed" % (w, dotted))
                        else:
                            why = self.seed_arg_problem(call, sc)
                            if why:
                                A.eff(sc.node, "UnseededGenerator", lits, "%s %s(%s): %s" % (
                                    w, rest, ast.unparse(call.args[0] if call.args else call.keywords[0].value)[:40], why),
                                    tag="%s(%s)" % (rest, ast.unparse(call.args[0] if call.args else call.keywords[0].value)[:40]))
                    return
                A.eff(sc.node, "GlobalNumpyRNG", lits, "%s %s" % (w, dotted))
                return
        if dotted == "random" or dotted.startswith("random."):
            rest = dotted[7:]
            if rest.split(".")[0] in ("Random",):
                if called and call is not None and rest == "Random" and ctor_unseeded(call):
                    A.eff(sc.node, "PyRandom", lits, "%s random.Random() without seed" % w)
                return
            A.eff(sc.node, "PyRandom", lits, "%s %s" % (w, dotted))
            return
        if dotted in WALLCLOCK:
            A.eff(sc.node, "WallClock", lits, "%s %s" % (w, dotted))
            return
        if dotted in PROC_ENTROPY or dotted.split(".")[0] == "secrets":
            A.eff(sc.node, "ProcEntropy", lits, "%s %s" % (w, dotted))
            return
        if dotted in DYNAMIC_CODE_EXT:
            A.eff(sc.node, "DynamicCode", lits, "%s %s" % (w, dotted))

    def seed_arg_problem(self, call, sc):
        """None when the seed argument of a generator constructor is seed-derived: an int constant, a name /
        attribute / call whose text mentions 'seed' (random_seed, master_seed, self.random_seed_generator()), where a
        seed-named PARAMETER that may be None must be tested `is None` in the function; otherwise the reason"""
        a = call.args[0] if call.args else call.keywords[0].value
        if isinstance(a, ast.Constant) and isinstance(a.value, int):
            return None
        txt = ast.unparse(a)
        if "seed" not in txt.lower():
            return "seed argument is not derived from a seed-named value"
        if isinstance(a, ast.Name) and sc.func is not None:
            fa = sc.func.node.args
            pos = fa.posonlyargs + fa.args
            defaults = dict(zip([x.arg for x in pos[len(pos) - len(fa.defaults):]], fa.defaults))
            defaults.update({x.arg: d for x, d in zip(fa.kwonlyargs, fa.kw_defaults) if d is not None})
            d = defaults.get(a.id)
            maybe_none = (isinstance(d, ast.Constant) and d.value is None)
            for x in pos + fa.kwonlyargs:
                if x.arg == a.id and x.annotation is not None and "Optional" in ast.unparse(x.annotation):
                    maybe_none = True
            if maybe_none and a.id not in self.fixed_keys:
                tested = any(isinstance(t, ast.Compare) and isinstance(t.left, ast.Name) and t.left.id == a.id
                             and isinstance(t.ops[0], (ast.Is, ast.IsNot)) for t in ast.walk(sc.func.node))
                if not tested:
                    return "parameter %s may be None (OS entropy) and is not tested" % a.id
        return None

    def generator_like(self, e, sc):
        """the receiver of a draw is generator-valued by name (…random_state…, rng) or by construction (a local
        bound to RandomState(..)/default_rng(..) or to another generator-like value)"""
        if isinstance(e, ast.Name):
            return any(g in e.id.lower() for g in GENERATOR_NAMES) or e.id in sc.gen_vars
        if isinstance(e, ast.Attribute):
            return any(g in e.attr.lower() for g in GENERATOR_NAMES)
        if isinstance(e, ast.Call):
            t = ast.unparse(e.func)
            return t.endswith("RandomState") or t.endswith("default_rng") or self.generator_like(e.func, sc)
        if isinstance(e, ast.Subscript):
            return self.generator_like(e.value, sc)
        return False

    def by_name(self, sc, attr, lits, n, call):
        """attribute `attr` accessed on an object of unknown class"""
        A = self.A
        if attr in A.methods_by_name:
            A.edge(sc.node, A.node("N", attr), None, lits)
            if call is not None:
                hit = False
                for (c, f) in A.methods_by_name[attr]:
                    if f.did is not None and call_omits_rs(f, call, method=True):
                        A.edge(sc.node, f.did, c.cid, lits)
                        hit = hit or f.qual in A.rs_fallback
                if hit:
                    # the CALLER is the site: a call that leaves random_state of a callee with an ambient fallback
                    # to its default (seed flow is interrupted here)
                    A.eff(sc.node, "RandomStateOmitted", lits, "%s call .%s(...) without random_state" % (
                        self.where(sc, n), attr), tag="call .%s() without random_state" % attr)
            else:
                if any(f.did is not None for (_, f) in A.methods_by_name[attr]):
                    A.edge(sc.node, A.node("N", attr + "@rsnone"), None, lits)
                    if any(f.qual in A.rs_fallback for (_, f) in A.methods_by_name[attr]):
                        A.eff(sc.node, "RandomStateOmitted", lits, "%s bound method .%s mentioned (may be called without "
                              "random_state)" % (self.where(sc, n), attr), tag="mention of .%s" % attr)

    # ---- expression / statement walk ----
    def visit(self, n, sc, lits, ctxflag=None):
        if n is None:
            return
        if isinstance(n, list):
            for x in n:
                self.visit(x, sc, lits)
            return
        meth = getattr(self, "v_" + type(n).__name__, None)
        if meth is not None:
            return meth(n, sc, lits)
        for ch in ast.iter_child_nodes(n):
            self.visit(ch, sc, lits)

    def branch(self, test, sc, lits, body, orelse):
        if test_mentions_fixed(test, self.fixed_keys):
            lt, lf = self.lit(test, True), self.lit(test, False)
            self.visit(body, sc, lits + (lt,))
            self.visit(orelse, sc, lits + (lf,))
        else:
            self.visit(body, sc, lits)
            self.visit(orelse, sc, lits)

    def v_If(self, n, sc, lits):
        self.visit(n.test, sc, lits)
        if is_rs_none_test(n.test) and sc.func is not None and sc.func.did is not None:
            # body runs only when random_state is None -> attributed to the @rsnone twin
            sc2 = twin_scope(sc)
            self.visit(n.body, sc2, lits)
            self.visit(n.orelse, sc, lits)
            return
        self.branch(n.test, sc, lits, n.body, n.orelse)

    def v_IfExp(self, n, sc, lits):
        self.visit(n.test, sc, lits)
        if is_rs_none_test(n.test) and sc.func is not None and sc.func.did is not None:
            self.visit(n.body, twin_scope(sc), lits)
            self.visit(n.orelse, sc, lits)
            return
        self.branch(n.test, sc, lits, n.body, n.orelse)

    def v_FunctionDef(self, n, sc, lits):
        # nested function: decorators, defaults and body merged into the enclosing function
        self.visit(n.decorator_list, sc, lits)
        self.visit(n.args, sc, lits)
        self.visit(n.body, sc, lits)

    v_AsyncFunctionDef = v_FunctionDef

    def v_Lambda(self, n, sc, lits):
        self.A.stats["lambda_sites"] = self.A.stats.get("lambda_sites", 0) + 1
        self.visit(n.args, sc, lits)
        self.visit(n.body, sc, lits)

    def v_ClassDef(self, n, sc, lits):
        # class defined inside a function: mention = may be instantiated here
        qual = (sc.func.qual if sc.func else sc.mod.name) + ".<locals>." + n.name
        c = self.A.classes.get(qual)
        if c is not None:
            self.A.edge(sc.node, c.cid, None, lits)
            sc.local_syms[n.name] = ("class", c)
        self.visit(n.decorator_list, sc, lits)
        self.visit(n.bases, sc, lits)

    def v_Import(self, n, sc, lits):
        for k, v in import_bindings(self.A, sc.mod, n).items():
            sc.local_syms[k] = v
        self.import_edges(n, sc, lits)

    v_ImportFrom = v_Import

    def import_edges(self, n, sc, lits):
        # a lazy import runs the imported module's import-time code
        A = self.A
        if isinstance(n, ast.ImportFrom):
            base = A.abs_from(sc.mod, n)
            names = [base] + [base + "." + a.name for a in n.names] if base else []
        else:
            names = [a.name for a in n.names]
        for nm in names:
            if nm in A.mods:
                A.edge(sc.node, A.mods[nm].init_node, None, lits)

    def v_Global(self, n, sc, lits):
        pass

    def v_Name(self, n, sc, lits):
        if isinstance(n.ctx, ast.Load):
            s = self.lookup(sc, n.id)
            if s[0] != "local":
                self.ref_sym(sc, s, lits, n)
        else:
            if n.id in sc.globals_decl and sc.func is not None:
                self.A.eff(sc.node, "ModuleGlobalWrite", lits, "%s global %s assigned" % (self.where(sc, n), n.id))

    def v_Attribute(self, n, sc, lits, call=None):
        base, parts = self.chain(n)
        A = self.A
        if isinstance(base, ast.Name):
            s = self.lookup(sc, base.id)
            if s[0] in ("mod", "ext", "class", "classattr"):
                cur = s
                if s[0] == "class":
                    A.edge(sc.node, s[1].cid, None, lits)
                for i, p in enumerate(parts):
                    nxt = attr_of_sym(A, cur, p)
                    if nxt is None:
                        # unknown attribute of a syne_tune module / beyond a class attribute: by-name for the rest
                        for q in parts[i:]:
                            self.by_name(sc, q, lits, n, call if q == parts[-1] else None)
                        return
                    cur = nxt
                    if cur[0] in ("func", "classattr", "global") and i < len(parts) - 1:
                        self.ref_sym(sc, cur, lits, n)
                        for q in parts[i + 1:]:
                            self.by_name(sc, q, lits, n, call if q == parts[-1] else None)
                        return
                self.ref_sym(sc, cur, lits, n, called=call is not None, call=call)
                return
            if s[0] == "local" and base.id in ("self", "cls") and sc.cls is not None and len(parts) >= 1:
                pass  # by name below (no class-hierarchy narrowing: over-approximation)
            elif s[0] != "local":
                self.ref_sym(sc, s, lits, base)
        elif isinstance(base, ast.Call) and isinstance(base.func, ast.Name) and base.func.id == "super" \
                and sc.cls is not None:
            # super().m : every ancestor's m, unconditionally
            for k in sc.cls.mro()[1:]:
                for f in k.methods.get(parts[0], []):
                    A.edge(sc.node, f.fid, None, lits)
                    if f.did is not None and (call is None or len(parts) > 1 or call_omits_rs(f, call, True)):
                        A.edge(sc.node, f.did, None, lits)
            for q in parts[1:]:
                self.by_name(sc, q, lits, n, call if q == parts[-1] else None)
            return
        else:
            self.visit(base, sc, lits)
        for q in parts:
            self.by_name(sc, q, lits, n, call if q == parts[-1] else None)

    def v_Call(self, n, sc, lits):
        A = self.A
        f = n.func
        harmless = False
        if isinstance(f, ast.Name):
            s = self.lookup(sc, f.id)
            if s[0] == "local":
                A.stats["unresolved_local_calls"] += 1
            elif s[0] == "builtin":
                self.ref_sym(sc, s, lits, n, called=True, call=n)
                nm = f.id
                if nm in ("getattr", "setattr", "hasattr", "delattr") and len(n.args) >= 2:
                    if isinstance(n.args[1], ast.Constant) and isinstance(n.args[1].value, str):
                        self.by_name(sc, n.args[1].value, lits, n, None)
                    else:
                        A.stats["dynamic_getattr"] += 1
                        A.eff(sc.node, "DynamicAttr", lits, "%s %s(<non-constant name>)" % (self.where(sc, n), nm))
                if nm in ORDER_FREE_CONSUMERS and not (nm == "sorted" and any(k.arg == "key" for k in n.keywords)):
                    harmless = True
                if nm == "next" and n.args:
                    self.mutation(n.args[0], sc, lits, n, "next()")
            else:
                self.ref_sym(sc, s, lits, n, called=True, call=n)
        elif isinstance(f, ast.Attribute):
            self.v_Attribute(f, sc, lits, call=n)
            if f.attr in MUTATORS:
                self.mutation(f.value, sc, lits, n, "." + f.attr + "()")
            if f.attr in DRAW_METHODS:
                base, parts = self.chain(f)
                static = isinstance(base, ast.Name) and self.lookup(sc, base.id)[0] in ("mod", "ext", "class", "func")
                ctor_recv = isinstance(f.value, ast.Call) and isinstance(f.value.func, ast.Name) and \
                    self.lookup(sc, f.value.func.id)[0] == "class"     # Float(..).uniform(): a method of that class
                if not static and not ctor_recv and not self.generator_like(f.value, sc):
                    A.eff(sc.node, "UnknownRngReceiver", lits, "%s %s(...)" % (self.where(sc, n), ast.unparse(f)[:50]),
                          tag=ast.unparse(f)[:50])
            if f.attr == "pop" and not n.args and self.is_set_expr(f.value, sc):
                A.eff(sc.node, "HashOrderIter", lits, "%s set.pop()" % self.where(sc, n), tag="set.pop()")
        else:
            self.visit(f, sc, lits)
        fname = f.id if isinstance(f, ast.Name) else (f.attr if isinstance(f, ast.Attribute) else None)
        # a *seed* argument taken from a dict lookup (kwargs.get("random_seed")) may be None; harmless only when the
        # same call also forwards the generator route (random_seed_generator=...), as the searcher constructors do
        kw_names = [k.arg for k in n.keywords if k.arg]
        for k in n.keywords:
            if k.arg and "seed" in k.arg.lower() and "generator" not in k.arg.lower() \
                    and isinstance(k.value, ast.Call) and isinstance(k.value.func, ast.Attribute) \
                    and k.value.func.attr == "get" and len(k.value.args) == 1 \
                    and not any("seed_generator" in x for x in kw_names):
                A.eff(sc.node, "UnseededGenerator", lits, "%s %s=%s may be None and the generator route is not "
                      "forwarded" % (self.where(sc, n), k.arg, ast.unparse(k.value)[:40]),
                      tag="%s(%s=%s)" % (fname, k.arg, ast.unparse(k.value)[:40]))
        if fname == "partial":
            A.stats["functools_partial_sites"] = A.stats.get("functools_partial_sites", 0) + 1
        if isinstance(f, ast.Attribute) and f.attr not in A.methods_by_name and isinstance(f.value, ast.Name):
            b0 = f.value
            if b0.id in ("self", "cls"):
                # self.<attr>(...) where no class of the closure defines a method <attr>: a callable stored in an
                # attribute (callback) -- resolved only at the place where the callable is created / mentioned
                A.stats["calls_of_callable_valued_attributes"] = A.stats.get("calls_of_callable_valued_attributes", 0) + 1
        if fname in TRUNCATORS and any(self.consumes_set(a, sc) for a in n.args):
            A.eff(sc.node, "HashOrderIter", lits, "%s %s(...) takes a bounded part of an ordered view of a set" % (
                self.where(sc, n), ast.unparse(f)[:40]), tag="order-truncating: %s" % ast.unparse(f)[:40])
        type_test = isinstance(f, ast.Name) and f.id in ("isinstance", "issubclass") and len(n.args) == 2
        for ai, a in enumerate(n.args):
            v = a.value if isinstance(a, ast.Starred) else a
            if type_test and ai == 1:
                continue    # isinstance(x, C): mentions C but neither creates an object of C nor calls it
            if harmless:
                # sorted(list(S)), len(tuple(x for x in S)), ...: the order-free consumer sees through list()/tuple()
                while isinstance(v, ast.Call) and isinstance(v.func, ast.Name) and v.func.id in ("list", "tuple") \
                        and len(v.args) == 1 and not v.keywords:
                    v = v.args[0]
            if harmless and isinstance(v, (ast.GeneratorExp, ast.ListComp)):
                self.comp(v, sc, lits, harmless=True)
                continue
            if not harmless and self.is_set_expr(v, sc) and self.is_ordered_consumer(n):
                A.eff(sc.node, "HashOrderIter", lits, "%s set passed to %s" % (
                    self.where(sc, n), ast.unparse(f)[:40]), tag="set passed to %s" % ast.unparse(f)[:40])
            self.visit(v, sc, lits)
        for k in n.keywords:
            self.visit(k.value, sc, lits)

    def consumes_set(self, e, sc):
        """e is a set, or an expression that (transitively) hands a set to an ordered consumer: list(S),
        itertools.combinations(S, 2), enumerate(sorted-not(S)) ..."""
        if isinstance(e, ast.Starred):
            e = e.value
        if self.is_set_expr(e, sc):
            return True
        if isinstance(e, ast.Call):
            fn = e.func.id if isinstance(e.func, ast.Name) else (e.func.attr if isinstance(e.func, ast.Attribute) else None)
            if fn in ORDER_FREE_CONSUMERS and not (fn == "sorted" and any(k.arg == "key" for k in e.keywords)):
                return False
            return any(self.consumes_set(a, sc) for a in e.args)
        if isinstance(e, (ast.ListComp, ast.GeneratorExp)):
            return any(self.consumes_set(g.iter, sc) for g in e.generators)
        return False

    def v_Subscript(self, n, sc, lits):
        if isinstance(n.slice, ast.Slice) and isinstance(n.ctx, ast.Load) and self.consumes_set(n.value, sc) \
                and not self.is_set_expr(n.value, sc):
            self.A.eff(sc.node, "HashOrderIter", lits, "%s slice of an ordered view of a set" % self.where(sc, n),
                       tag="order-truncating: slice")
        for ch in ast.iter_child_nodes(n):
            self.visit(ch, sc, lits)

    def is_ordered_consumer(self, call):
        f = call.func
        if isinstance(f, ast.Name):
            return f.id in ORDERED_CONSUMER_FUNCS
        if isinstance(f, ast.Attribute):
            return f.attr in ORDERED_CONSUMER_ATTRS
        return False

    def is_set_op_call(self, call):
        f = call.func
        return isinstance(f, ast.Attribute) and f.attr in (
            "union", "intersection", "difference", "symmetric_difference", "issubset", "issuperset", "isdisjoint",
            "update", "difference_update", "intersection_update", "symmetric_difference_update", "add", "discard",
            "remove", "get", "isinstance", "__contains__")

    def is_set_expr(self, e, sc):
        if isinstance(e, (ast.Set, ast.SetComp)):
            return True
        if isinstance(e, ast.Call):
            f = e.func
            if isinstance(f, ast.Name) and f.id in ("set", "frozenset") and self.lookup(sc, f.id)[0] == "builtin":
                return True
            if isinstance(f, ast.Attribute) and f.attr in ("union", "intersection", "difference",
                                                           "symmetric_difference", "copy"):
                return self.is_set_expr(f.value, sc)
            return False
        if isinstance(e, ast.BinOp) and isinstance(e.op, (ast.BitOr, ast.BitAnd, ast.Sub, ast.BitXor)):
            def keysview(x):
                return isinstance(x, ast.Call) and isinstance(x.func, ast.Attribute) and x.func.attr in (
                    "keys", "items") and not x.args
            return (self.is_set_expr(e.left, sc) or self.is_set_expr(e.right, sc)
                    or keysview(e.left) or keysview(e.right))
        if isinstance(e, ast.Name):
            return e.id in sc.set_vars
        if isinstance(e, ast.Attribute) and isinstance(e.value, ast.Name) and e.value.id == "self":
            return sc.cls is not None and e.attr in self.A.family_set_attrs(sc.cls)
        # self.X[k] / self.X.get(k) where X is a container whose VALUES are sets (self.X[k] = set() somewhere)
        c = e
        if isinstance(c, ast.Call) and isinstance(c.func, ast.Attribute) and c.func.attr in ("get", "setdefault", "pop"):
            c = c.func.value
        elif isinstance(c, ast.Subscript):
            c = c.value
        else:
            c = None
        if isinstance(c, ast.Attribute) and isinstance(c.value, ast.Name) and c.value.id == "self" \
                and sc.cls is not None and ("[]" + c.attr) in self.A.family_set_attrs(sc.cls):
            return True
        if isinstance(e, ast.IfExp):
            return self.is_set_expr(e.body, sc) or self.is_set_expr(e.orelse, sc)
        return False

    def comp(self, n, sc, lits, harmless=False):
        for g in n.generators:
            if not harmless and not isinstance(n, ast.SetComp) and self.is_set_expr(g.iter, sc):
                self.A.eff(sc.node, "HashOrderIter", lits, "%s comprehension over a set" % self.where(sc, n),
                           tag="comprehension over a set")
            self.visit(g.iter, sc, lits)
            self.visit(g.target, sc, lits)
            self.visit(g.ifs, sc, lits)
        if isinstance(n, ast.DictComp):
            self.visit(n.key, sc, lits)
            self.visit(n.value, sc, lits)
        else:
            self.visit(n.elt, sc, lits)

    def v_ListComp(self, n, sc, lits):
        self.comp(n, sc, lits)

    v_GeneratorExp = v_ListComp
    v_DictComp = v_ListComp
    v_SetComp = v_ListComp

    def v_For(self, n, sc, lits):
        if self.is_set_expr(n.iter, sc) and assert_only(n.body):
            # category derived from the AST: the loop body only asserts / logs, no value flows out of the iteration
            # (the order can at most select which assertion message is raised) -> not an ordered consumption
            self.A.stats["hash_order_loops_assert_only"] = self.A.stats.get("hash_order_loops_assert_only", 0) + 1
        elif self.is_set_expr(n.iter, sc):
            brk = own_break(n.body, with_return=True)
            self.A.eff(sc.node, "HashOrderIter", lits, "%s for-loop over a set%s" % (
                self.where(sc, n), " left early (break/return)" if brk else ""),
                tag="for-loop over a set" + (" left early" if brk else ""))
        elif self.consumes_set(n.iter, sc) and own_break(n.body):
            self.A.eff(sc.node, "HashOrderIter", lits, "%s for-loop over an ordered view of a set, left by break"
                       % self.where(sc, n), tag="order-truncating: for ... break")
        for ch in ast.iter_child_nodes(n):
            self.visit(ch, sc, lits)

    v_AsyncFor = v_For

    def v_With(self, n, sc, lits):
        need = False
        for it in n.items:
            e = it.context_expr
            if isinstance(e, ast.Call):
                base, _ = self.chain(e.func) if isinstance(e.func, ast.Attribute) else (e.func, [])
                if isinstance(base, ast.Name) and self.lookup(sc, base.id)[0] in ("builtin", "ext"):
                    continue     # open(...), np.errstate(...), mock.patch(...): not an object of a closure class
            need = True
        if need:
            for d in ("__enter__", "__exit__"):
                self.by_name(sc, d, lits, n, None)
        for ch in ast.iter_child_nodes(n):
            self.visit(ch, sc, lits)

    v_AsyncWith = v_With

    def v_Starred(self, n, sc, lits):
        if self.is_set_expr(n.value, sc):
            self.A.eff(sc.node, "HashOrderIter", lits, "%s *set" % self.where(sc, n), tag="*set")
        self.visit(n.value, sc, lits)

    # ---- writes ----
    def v_Assign(self, n, sc, lits):
        self.visit(n.value, sc, lits)
        for t in n.targets:
            self.assign_target(t, n.value, sc, lits, n)

    def v_AnnAssign(self, n, sc, lits):
        self.visit(n.value, sc, lits)
        if n.value is not None:
            self.assign_target(n.target, n.value, sc, lits, n)

    def v_AugAssign(self, n, sc, lits):
        self.visit(n.value, sc, lits)
        self.assign_target(n.target, None, sc, lits, n, aug=True)

    def v_Delete(self, n, sc, lits):
        for t in n.targets:
            self.assign_target(t, None, sc, lits, n)

    def assign_target(self, t, value, sc, lits, st, aug=False):
        if isinstance(t, (ast.Tuple, ast.List)):
            for e in t.elts:
                self.assign_target(e, None, sc, lits, st)
            return
        if isinstance(t, ast.Starred):
            return self.assign_target(t.value, None, sc, lits, st)
        if isinstance(t, ast.Name):
            if value is not None:
                if self.is_set_expr(value, sc):
                    sc.set_vars.add(t.id)
                if isinstance(value, ast.Call) and self.generator_like(value, sc) or (
                        isinstance(value, (ast.Name, ast.Attribute)) and self.generator_like(value, sc)):
                    sc.gen_vars.add(t.id)
                k = self.mentions_shared(value, sc)
                if k is not None:
                    sc.global_alias.add(t.id)
                    sc.global_alias_kind[t.id] = k
            self.v_Name(t, sc, lits)
            if aug and t.id not in sc.locals and sc.func is not None:
                self.A.eff(sc.node, "ModuleGlobalWrite", lits, "%s %s augmented" % (self.where(sc, st), t.id))
            return
        if isinstance(t, ast.Attribute):
            # a generator-named attribute must be bound to a generator-valued expression
            if value is not None and any(g in t.attr.lower() for g in GENERATOR_NAMES) and not (
                    self.generator_like(value, sc) or (isinstance(value, ast.Constant) and value.value is None)):
                self.A.eff(sc.node, "UnseededGenerator", lits, "%s %s bound to %s" % (
                    self.where(sc, st), ast.unparse(t)[:40], ast.unparse(value)[:40]),
                    tag="%s = %s" % (ast.unparse(t)[:40], ast.unparse(value)[:40]))
            # x.attr = v : property setters by name; class attribute / module attribute writes
            self.v_Attribute(t, sc, lits)
            self.mutation(t.value, sc, lits, st, ".%s = ..." % t.attr, attr_write=True)
            return
        if isinstance(t, ast.Subscript):
            self.visit(t.value, sc, lits)
            self.visit(t.slice, sc, lits)
            self.mutation(t.value, sc, lits, st, "[...] = ...")
            return
        self.visit(t, sc, lits)

    def shared_root(self, e, sc):
        """('class', text) / ('module', text) when expression e denotes a class object, an attribute reached from
        a class object, a module-level variable, or a local alias of one of those"""
        base, parts = self.chain(e) if isinstance(e, ast.Attribute) else (e, [])
        while isinstance(base, ast.Subscript):
            base, p2 = self.chain(base.value) if isinstance(base.value, ast.Attribute) else (base.value, [])
            parts = p2 + parts
        if isinstance(base, ast.Name):
            s = self.lookup(sc, base.id)
            if s[0] == "class":
                return ("class", ast.unparse(e)[:60])
            if s[0] == "global":
                return ("module", ast.unparse(e)[:60])
            if s[0] == "mod" and parts:
                return ("module", ast.unparse(e)[:60])
            if s[0] == "local":
                if base.id == "cls" and sc.cls is not None:
                    return ("class", ast.unparse(e)[:60])
                if base.id == "self" and parts and parts[0] == "__class__":
                    return ("class", ast.unparse(e)[:60])
                if base.id == "self" and parts and sc.cls is not None and self.A.class_level_mutable(sc.cls, parts[0]):
                    # class-level mutable object (dict/list/set created in the class body) never rebound per
                    # instance: every instance, and every other scheduler of the process, shares it
                    return ("class", ast.unparse(e)[:60] + " (class-level mutable)")
                if base.id in sc.global_alias:
                    return ("alias", ast.unparse(e)[:60], base.id)
        if isinstance(base, ast.Call) and isinstance(base.func, ast.Name) and base.func.id == "type" and parts:
            return ("class", ast.unparse(e)[:60])
        return None

    def mentions_shared(self, e, sc):
        """kind ('class' | 'module') when the VALUE e is (an attribute / item of) a class object or module-level
        variable, possibly fetched through getattr(...)/.get(...): a local bound to it aliases shared state"""
        if isinstance(e, ast.Call):
            f = e.func
            if isinstance(f, ast.Name) and f.id == "getattr" and e.args:
                e = e.args[0]
            elif isinstance(f, ast.Attribute) and f.attr in ("get", "setdefault"):
                e = f.value
            else:
                return None
        if isinstance(e, (ast.Attribute, ast.Name, ast.Subscript)):
            r = self.shared_root(e, sc)
            if r is not None:
                if r[0] == "class" and isinstance(e, ast.Name):
                    return None    # the class object itself (used as a value), not its state
                return r[0] if r[0] != "alias" else sc.global_alias_kind.get(r[2], "class")
        return None

    def mutation(self, obj, sc, lits, st, how, attr_write=False):
        if sc.func is None:
            return   # import-time initialisation
        r = self.shared_root(obj, sc)
        if r is None and attr_write and isinstance(obj, ast.Name) and self.lookup(sc, obj.id)[0] == "mod":
            r = ("module", obj.id)
        if r is None:
            return
        kind, text = r[0], r[1]
        if kind == "alias":
            kind = sc.global_alias_kind.get(r[2], "class")
        if kind == "class":
            self.A.eff(sc.node, "ClassAttrWrite", lits, "%s %s%s" % (self.where(sc, st), text, how),
                       tag=(text + how) if "class-level mutable" in text else "")
        else:
            self.A.eff(sc.node, "ModuleGlobalWrite", lits, "%s %s%s" % (self.where(sc, st), text, how))


def assert_only(body):
    for st in body:
        if isinstance(st, (ast.Assert, ast.Pass)):
            continue
        if isinstance(st, ast.Expr) and isinstance(st.value, ast.Call) and isinstance(st.value.func, ast.Attribute) \
                and isinstance(st.value.func.value, ast.Name) and st.value.func.value.id in ("logger", "logging"):
            continue
        if isinstance(st, ast.Expr) and isinstance(st.value, ast.Constant):
            continue
        return False
    return bool(body)


def own_break(body, with_return=False):
    """a break (or return) that leaves THIS loop: nested loops keep their own breaks"""
    for st in body:
        if isinstance(st, ast.Break) or (with_return and isinstance(st, ast.Return)):
            return True
        if isinstance(st, (ast.For, ast.AsyncFor, ast.While)):
            if with_return and any(isinstance(x, ast.Return) for x in ast.walk(st)):
                return True
            if own_break(st.orelse, with_return):
                return True
            continue
        if isinstance(st, (ast.FunctionDef, ast.AsyncFunctionDef, ast.ClassDef)):
            continue
        for fld in ("body", "orelse", "finalbody"):
            if own_break(getattr(st, fld, []) or [], with_return):
                return True
        for h in getattr(st, "handlers", []) or []:
            if own_break(h.body, with_return):
                return True
    return False


def is_rs_none_test(t):
    return (isinstance(t, ast.Compare) and len(t.ops) == 1 and isinstance(t.ops[0], ast.Is)
            and isinstance(t.left, ast.Name) and t.left.id == RS_PARAM
            and isinstance(t.comparators[0], ast.Constant) and t.comparators[0].value is None)


def twin_scope(sc):
    s2 = Scope(sc.A, sc.mod, sc.func.did, sc.cls, sc.func, sc.locals, sc.local_syms)
    s2.set_vars, s2.global_alias, s2.globals_decl = sc.set_vars, sc.global_alias, sc.globals_decl
    s2.global_alias_kind = sc.global_alias_kind
    s2.gen_vars = sc.gen_vars
    return s2


def ctor_unseeded(call):
    if call.args:
        a = call.args[0]
        return isinstance(a, ast.Constant) and a.value is None
    for k in call.keywords:
        if k.arg in ("seed", None):
            return isinstance(k.value, ast.Constant) and k.value.value is None and k.arg is not None
    return True


def rs_param_index(f):
    """(index among positional parameters, has_default_none) of parameter random_state, or None"""
    a = f.node.args
    pos = a.posonlyargs + a.args
    for i, x in enumerate(pos):
        if x.arg == RS_PARAM:
            return i
    for x in a.kwonlyargs:
        if x.arg == RS_PARAM:
            return -1
    return None


def call_omits_rs(f, call, method):
    """True when the call may leave f's random_state parameter None: not passed, or passed as literal None,
    or passed as the caller's own (possibly None) random_state -- the last case is handled by the twin edge
    emitted from the caller's twin, so here only omission / literal None count."""
    idx = rs_param_index(f)
    if idx is None:
        return False
    if any(looks_like_rs(a) for a in call.args) or any(looks_like_rs(k.value) for k in call.keywords):
        return False       # a value called ...random_state is handed on (naming convention, trusted)
    for k in call.keywords:
        if k.arg == RS_PARAM:
            return isinstance(k.value, ast.Constant) and k.value.value is None
        if k.arg is None:
            AUDIT["kwargs_calls_to_random_state_callees"] += 1
            return False   # **kwargs: trusted to carry random_state when the callee needs it (blind spot, counted)
    if idx >= 0:
        eff_idx = idx - 1 if (method and f.cls is not None and not is_static(f)) else idx
        if any(isinstance(a, ast.Starred) for a in call.args):
            return False
        if len(call.args) > eff_idx >= 0:
            a = call.args[eff_idx]
            return isinstance(a, ast.Constant) and a.value is None
    return True


AUDIT = {"kwargs_calls_to_random_state_callees": 0}


def looks_like_rs(e):
    if isinstance(e, ast.Starred):
        e = e.value
    if isinstance(e, ast.Name):
        return RS_PARAM in e.id
    if isinstance(e, ast.Attribute):
        return RS_PARAM in e.attr
    return False


def is_static(f):
    for d in f.node.decorator_list:
        if isinstance(d, ast.Name) and d.id == "staticmethod":
            return True
    return False


# ---------------------------------------------------------------------------------------------------------
# driver of the analysis
# ---------------------------------------------------------------------------------------------------------
def analyze(repo):
    AUDIT["kwargs_calls_to_random_state_callees"] = 0
    A = Analysis(repo)
    for r in ROOT_MODULES:
        if A.load(r) is None:
            raise TranslatorError("root module %s not found under %s" % (r, repo))
    A.stats["modules"] = len(A.mods)
    collect_symbols(A)
    collect_imports(A)
    resolve_bases(A)
    fixed_keys = set(COMMON_FIX)
    for _, fx in CONFIGS.values():
        fixed_keys.update(fx)
    # functions that have a random_state parameter get a twin
    A.rs_fallback = set()
    for f in A.funcs.values():
        if rs_param_index(f) is not None:
            f.did = A.node("D", f.qual + "@rsnone")
            # has the function an ambient fallback for random_state (default value / `if random_state is None` branch /
            # `random_state or np.random`) or does it hand its own random_state on (fallback further down)?
            txt_fallback = any(isinstance(n, ast.Attribute) and n.attr == "random" and isinstance(n.value, ast.Name)
                               and n.value.id in ("np", "numpy", "anp", "onp") for n in ast.walk(f.node))
            forwards = any(isinstance(n, ast.Call) and (any(isinstance(a, ast.Name) and a.id == RS_PARAM for a in n.args)
                           or any(isinstance(k.value, ast.Name) and k.value.id == RS_PARAM for k in n.keywords))
                           for n in ast.walk(f.node))
            if txt_fallback or forwards:
                A.rs_fallback.add(f.qual)
    # attribute names that hold sets: self.<name> assigned a set expression in a method of the class family
    probe = BodyVisitor(A, fixed_keys)
    for f in A.funcs.values():
        if f.cls is None:
            continue
        dummy = Scope(A, f.mod, f.fid, None, f, set(), {})
        for n in ast.walk(f.node):
            if isinstance(n, (ast.Assign, ast.AnnAssign)) and n.value is not None:
                tg = n.targets if isinstance(n, ast.Assign) else [n.target]
                for t in tg:
                    if isinstance(t, ast.Attribute) and isinstance(t.value, ast.Name) and t.value.id == "self" \
                            and (probe.is_set_expr(n.value, dummy) or annotation_is_set(getattr(n, "annotation", None))):
                        A.set_attrs.setdefault(f.cls.qual, set()).add(t.attr)
                    # self.X[k] = <set>  /  self.X = defaultdict(set): X holds sets
                    if isinstance(t, ast.Subscript) and isinstance(t.value, ast.Attribute) \
                            and isinstance(t.value.value, ast.Name) and t.value.value.id == "self" \
                            and probe.is_set_expr(n.value, dummy):
                        A.set_attrs.setdefault(f.cls.qual, set()).add("[]" + t.value.attr)
                    if isinstance(t, ast.Attribute) and isinstance(t.value, ast.Name) and t.value.id == "self" \
                            and isinstance(n.value, ast.Call) and isinstance(n.value.func, ast.Name) \
                            and n.value.func.id == "defaultdict" and n.value.args \
                            and isinstance(n.value.args[0], ast.Name) and n.value.args[0].id in ("set", "frozenset"):
                        A.set_attrs.setdefault(f.cls.qual, set()).add("[]" + t.attr)
            if isinstance(n, ast.Call) and isinstance(n.func, ast.Attribute) and n.func.attr == "setdefault" \
                    and len(n.args) == 2 and probe.is_set_expr(n.args[1], dummy) \
                    and isinstance(n.func.value, ast.Attribute) and isinstance(n.func.value.value, ast.Name) \
                    and n.func.value.value.id == "self":
                A.set_attrs.setdefault(f.cls.qual, set()).add("[]" + n.func.value.attr)
    for f in A.funcs.values():
        if f.cls is not None:
            for n in ast.walk(f.node):
                if isinstance(n, (ast.Assign, ast.AnnAssign)):
                    for t in (n.targets if isinstance(n, ast.Assign) else [n.target]):
                        for x in ([t] if not isinstance(t, (ast.Tuple, ast.List)) else t.elts):
                            if isinstance(x, ast.Attribute) and isinstance(x.value, ast.Name) and x.value.id == "self":
                                A.instance_assigned.setdefault(f.cls.qual, set()).add(x.attr)
    V = BodyVisitor(A, fixed_keys)
    # --- function bodies
    for f in A.funcs.values():
        locs, gdecl = function_locals(f.node)
        sc = Scope(A, f.mod, f.fid, f.cls, f, locs, {})
        sc.globals_decl = gdecl
        aa = f.node.args
        for x in aa.posonlyargs + aa.args + aa.kwonlyargs:
            if annotation_is_set(x.annotation):
                sc.set_vars.add(x.arg)
        if getattr(f.cls, "local_to", None):
            pass
        if f.node.name in PICKLE_HOOKS:
            A.eff(f.fid, "CustomPickle", (), "%s %s" % (V.where(sc, f.node), f.qual))
        # defaults: evaluated at def time, used when the caller omits the argument
        a = f.node.args
        pos = a.posonlyargs + a.args
        defaults = list(zip(pos[len(pos) - len(a.defaults):], a.defaults)) + [
            (x, d) for x, d in zip(a.kwonlyargs, a.kw_defaults) if d is not None]
        for x, d in defaults:
            if x.arg == RS_PARAM and f.did is not None:
                V.visit(d, twin_scope(sc), ())
            else:
                V.visit(d, sc, ())
        V.visit(f.node.decorator_list, sc, ())
        V.visit(f.node.body, sc, ())
        if f.did is not None:
            # the twin runs the same body (it IS the function, with random_state None)
            A.edge(f.did, f.fid)
            # calls inside f that forward f's own random_state: callee twin reachable from f's twin
            forward_rs(A, V, f, sc)
    alias_pass(A, V)
    # --- class nodes
    for c in A.classes.values():
        for b in c.bases:
            A.edge(c.cid, b.cid)
        for k in c.mro():
            for nm, fs in k.methods.items():
                if nm.startswith("__") and nm.endswith("__") and nm not in WITH_DUNDERS:
                    for f in fs:
                        A.edge(c.cid, f.fid)
        # class body: import-time code (attributed to module init); decorators and attribute initialisers
        msc = Scope(A, c.mod, c.mod.init_node, None, None, set(), {})
        for st in c.node.body:
            if isinstance(st, (ast.FunctionDef, ast.AsyncFunctionDef, ast.ClassDef)):
                continue
            if isinstance(st, (ast.Assign, ast.AnnAssign)) and (st.value is None or not _has_call(st.value)):
                continue   # pure data: mentions are attributed to the class node below
            V.visit(st, msc, ())
        # class attributes holding functions / classes (e.g. default_sampler_cls = _Uniform): mention -> edge
        csc = Scope(A, c.mod, c.cid, c, None, set(), dict(c.scope_syms))
        for nm, val in c.class_attrs.items():
            if val is not None:
                V.visit(val, csc, ())
    # --- by-name dispatch nodes
    for nm, lst in A.methods_by_name.items():
        key = ("N", nm)
        for (c, f) in lst:
            if key in A.node_id:
                A.edge(A.node_id[key], f.fid, c.cid)
            k2 = ("N", nm + "@rsnone")
            if k2 in A.node_id and f.did is not None:
                A.edge(A.node_id[k2], f.did, c.cid)
    # --- module-level variables and import-time code
    for m in A.mods.values():
        msc = Scope(A, m, m.init_node, None, None, set(), {})
        for st in _module_level_statements(m.tree.body):
            if isinstance(st, (ast.FunctionDef, ast.AsyncFunctionDef, ast.ClassDef, ast.Import, ast.ImportFrom)):
                if isinstance(st, (ast.FunctionDef, ast.AsyncFunctionDef)):
                    V.visit(st.decorator_list, msc, ())
                continue
            if isinstance(st, (ast.If, ast.Try, ast.With)) or type(st).__name__ == "TryStar":
                continue   # their inner statements are yielded separately
            if isinstance(st, (ast.Assign, ast.AnnAssign)) and getattr(st, "value", None) is not None:
                tg = st.targets if isinstance(st, ast.Assign) else [st.target]
                names = [x for t in tg for x in _target_names(t)]
                gids = [m.syms[x][1] for x in names if m.syms.get(x, ("",))[0] == "global"]
                if gids and not _has_call(st.value):
                    for g in gids:   # pure data: mentions only
                        V.visit(st.value, Scope(A, m, g, None, None, set(), {}), ())
                    continue
                for g in gids:
                    V.visit(st.value, Scope(A, m, g, None, None, set(), {}), ())
            V.visit(st, msc, ())
    return A


def annotation_is_set(a):
    if a is None:
        return False
    t = ast.unparse(a)
    return any(w in t for w in ("Set[", "FrozenSet[", "AbstractSet[", "set[", "frozenset[")) or t in ("set", "frozenset")


def _has_call(e):
    return any(isinstance(x, ast.Call) for x in ast.walk(e))


# ---------------------------------------------------------------------------------------------------------
# aliasing pass: run-time mutation of module-level objects reached through aliases / parameters
# ---------------------------------------------------------------------------------------------------------
ALIAS_GETTERS = {"get", "setdefault", "pop", "values", "items", "keys"}
STORE_MUTATORS = {"append", "extend", "insert", "update", "add", "setdefault", "appendleft", "__setitem__"}


class TaintFn:
    """flow-insensitive, per function: which local names may refer to an object handed in through a parameter
    ('p', name) or to a module-level variable ('g', qualified name).  Two levels: 'a' = the name IS (a nested part
    of) that object; 'h' = the name is a fresh container that HOLDS references to (parts of) it.  Rules:
      <a|h>[k], <a|h>.get(..)/.pop(..)/.items()/.values(), iteration over <a|h>      -> 'a'
      [..<a>..], {k: <a>}, comprehension yielding <a>, list()/tuple()/sorted() of it -> 'h'
      X[k] = <a|h>, X.append(<a|h>), X.update(<a|h>)   (X local)                     -> X gets 'h'
    A subscript store / mutating method call / augmented attribute on an expression with an 'a' source is a
    mutation of that source; on a mere holder it is not."""

    def __init__(self, A, V, f, sc):
        self.A, self.V, self.f, self.sc = A, V, f, sc
        self.t = {}
        a = f.node.args
        for x in a.posonlyargs + a.args + a.kwonlyargs:
            if x.arg not in ("self", "cls"):
                self.t[x.arg] = {("p", x.arg, "a")}
        if a.kwarg:
            self.t[a.kwarg.arg] = {("p", a.kwarg.arg, "a")}
        self.mut = {}     # (kind, name) -> [(site text, expression tag)]
        self.stored = {}  # parameter name -> [(site text, tag)]: the object is kept in an attribute (outlives the call)
        self.calls = []

    @staticmethod
    def lvl(srcs, level):
        return set((k, n, level) for (k, n, _) in srcs)

    def src(self, e):
        if e is None:
            return set()
        if isinstance(e, ast.Name):
            if e.id in self.t:
                return set(self.t[e.id])
            if e.id in self.sc.locals:
                return set()
            s = self.V.lookup(self.sc, e.id)
            if s[0] == "global":
                return {("g", self.A.nodes[s[1] - 1][1], "a")}
            return set()
        if isinstance(e, ast.Starred):
            return self.src(e.value)
        if isinstance(e, ast.Subscript):
            return self.lvl(self.src(e.value), "a")
        if isinstance(e, ast.Attribute):
            base, parts = self.V.chain(e)
            if isinstance(base, ast.Name) and base.id not in self.t and base.id not in self.sc.locals:
                s = self.V.lookup(self.sc, base.id)
                if s[0] == "mod":
                    cur = s
                    for p_ in parts:
                        cur = attr_of_sym(self.A, cur, p_) if cur else None
                        if cur is not None and cur[0] == "global":
                            return {("g", self.A.nodes[cur[1] - 1][1], "a")}
                    return set()
            if isinstance(base, ast.Name) and base.id in ("self", "cls"):
                return set()
            return self.lvl(self.src(e.value), "a")
        if isinstance(e, ast.Call):
            f = e.func
            if isinstance(f, ast.Attribute) and f.attr in ALIAS_GETTERS:
                return self.lvl(self.src(f.value), "a")
            if isinstance(f, ast.Name) and f.id not in self.sc.locals:
                if f.id in ("enumerate", "zip", "reversed", "iter", "next"):
                    out = set()
                    for a in e.args:
                        out |= self.src(a)
                    return out
                if f.id in ("sorted", "list", "tuple", "dict", "set", "frozenset"):
                    out = set()
                    for a in e.args:       # shallow copy: a new container holding the same member objects
                        out |= self.src(a)
                    return self.lvl(out, "h")
            return set()
        if isinstance(e, ast.IfExp):
            return self.src(e.body) | self.src(e.orelse)
        if isinstance(e, ast.BoolOp):
            out = set()
            for v in e.values:
                out |= self.src(v)
            return out
        if isinstance(e, (ast.Tuple, ast.List, ast.Set)):
            out = set()
            for v in e.elts:
                out |= self.src(v)
            return self.lvl(out, "h")
        if isinstance(e, ast.Dict):
            out = set()
            for v in e.values:
                out |= self.src(v)
            return self.lvl(out, "h")
        if isinstance(e, (ast.ListComp, ast.SetComp, ast.GeneratorExp, ast.DictComp)):
            saved = {k: set(v) for k, v in self.t.items()}
            for g in e.generators:
                self.bind(g.target, self.lvl(self.src(g.iter), "a"))
            out = self.src(e.value) if isinstance(e, ast.DictComp) else self.src(e.elt)
            self.t = saved
            return self.lvl(out, "h")
        if isinstance(e, ast.NamedExpr):
            return self.src(e.value)
        return set()

    def bind(self, target, sources):
        if not sources:
            return False
        ch = False
        for nm in _target_names(target):
            cur = self.t.setdefault(nm, set())
            if not sources <= cur:
                cur |= sources
                ch = True
        return ch

    def root_name(self, e):
        while isinstance(e, (ast.Subscript, ast.Attribute)):
            e = e.value
        return e

    def run(self):
        nodes = list(ast.walk(self.f.node))
        for _ in range(4):
            ch = False
            for n in nodes:
                if isinstance(n, ast.Assign):
                    s_ = self.src(n.value)
                    for t in n.targets:
                        if isinstance(t, (ast.Name, ast.Tuple, ast.List)):
                            if isinstance(t, ast.Name):
                                ch |= self.bind(t, s_)
                            else:   # unpacking: the parts
                                ch |= self.bind(t, self.lvl(s_, "a"))
                        elif isinstance(t, ast.Subscript) and s_:
                            r = self.root_name(t)
                            if isinstance(r, ast.Name) and r.id in self.sc.locals:
                                ch |= self.bind(r, self.lvl(s_, "h"))
                elif isinstance(n, ast.AnnAssign) and n.value is not None and isinstance(n.target, ast.Name):
                    ch |= self.bind(n.target, self.src(n.value))
                elif isinstance(n, (ast.For, ast.AsyncFor)):
                    ch |= self.bind(n.target, self.lvl(self.src(n.iter), "a"))
                elif isinstance(n, (ast.With, ast.AsyncWith)):
                    for it in n.items:
                        if it.optional_vars is not None:
                            ch |= self.bind(it.optional_vars, self.src(it.context_expr))
                elif isinstance(n, ast.Call) and isinstance(n.func, ast.Attribute) and n.func.attr in STORE_MUTATORS:
                    r = self.root_name(n.func.value)
                    if isinstance(r, ast.Name) and r.id in self.sc.locals:
                        s_ = set()
                        for a in list(n.args) + [k.value for k in n.keywords]:
                            s_ |= self.src(a)
                        ch |= self.bind(r, self.lvl(s_, "h"))
            if not ch:
                break
        rel = os.path.relpath(self.f.mod.path, self.A.repo)
        for n in nodes:
            if isinstance(n, (ast.Assign, ast.AnnAssign)) and getattr(n, "value", None) is not None:
                for t in (n.targets if isinstance(n, ast.Assign) else [n.target]):
                    if isinstance(t, ast.Attribute):
                        for (k, nm, lv) in self.src(n.value):
                            if k == "p" and lv == "a":
                                tg = "%s = %s" % (ast.unparse(t)[:40], ast.unparse(n.value)[:40])
                                self.stored.setdefault(nm, []).append(("%s:%d %s" % (rel, n.lineno, tg), tg))
            if isinstance(n, (ast.Assign, ast.AugAssign, ast.AnnAssign, ast.Delete)):
                tl = n.targets if isinstance(n, (ast.Assign, ast.Delete)) else [n.target]
                for t in tl:
                    if isinstance(t, ast.Subscript):
                        self.note_mut(t.value, n, rel, "[...] = ...")
                    elif isinstance(t, ast.Attribute) and isinstance(n, ast.AugAssign):
                        self.note_mut(t.value, n, rel, ".%s augmented" % t.attr)
            elif isinstance(n, ast.Call) and isinstance(n.func, ast.Attribute) and n.func.attr in MUTATORS:
                self.note_mut(n.func.value, n, rel, ".%s()" % n.func.attr)
            if isinstance(n, ast.Call):
                self.note_call(n, rel)
        return self

    def note_mut(self, obj, n, rel, how):
        for (k, nm, lv) in self.src(obj):
            if lv == "a":
                tag = "%s%s" % (ast.unparse(obj)[:50], how)
                self.mut.setdefault((k, nm), []).append(("%s:%d %s" % (rel, n.lineno, tag), tag))

    def note_call(self, n, rel):
        args = [(i, self.src(a)) for i, a in enumerate(n.args) if not isinstance(a, ast.Starred)]
        args += [(k.arg, self.src(k.value)) for k in n.keywords if k.arg is not None]
        args = [(k, set((a, b) for (a, b, lv) in s_)) for k, s_ in args]     # a holder passed on exposes its members
        args = [(k, s_) for k, s_ in args if s_]
        if not args:
            return
        callees, skip = [], 0
        f = n.func
        A = self.A
        if isinstance(f, ast.Name):
            s = self.V.lookup(self.sc, f.id)
            if s[0] == "func":
                callees = list(s[1])
            elif s[0] == "class":
                skip = 1
                for k in s[1].mro():
                    if k.methods.get("__init__"):
                        callees = list(k.methods["__init__"])
                        break
        elif isinstance(f, ast.Attribute):
            base, parts = self.V.chain(f)
            if isinstance(base, ast.Name) and base.id in ("self", "cls") and len(parts) == 1 and self.f.cls is not None:
                skip = 1
                fam = set(k.qual for k in self.f.cls.mro())
                for (c, g) in A.methods_by_name.get(parts[0], []):
                    if c.qual in fam or any(k.qual == self.f.cls.qual for k in c.mro()):
                        callees.append(g)
            elif isinstance(base, ast.Call) and isinstance(base.func, ast.Name) and base.func.id == "super" \
                    and self.f.cls is not None and len(parts) == 1:
                skip = 1
                for k in self.f.cls.mro()[1:]:
                    callees += k.methods.get(parts[0], [])
            elif isinstance(base, ast.Name) and base.id not in self.sc.locals:
                s = self.V.lookup(self.sc, base.id)
                if s[0] in ("mod", "class"):
                    cur = s
                    for p_ in parts:
                        cur = attr_of_sym(A, cur, p_) if cur else None
                    if cur is not None and cur[0] == "func":
                        callees = list(cur[1])
                        skip = 0          # mod.f(..) / C.m(obj, ..): explicit receiver
                    elif cur is not None and cur[0] == "class":
                        skip = 1
                        for k in cur[1].mro():
                            if k.methods.get("__init__"):
                                callees = list(k.methods["__init__"])
                                break
        if callees:
            self.calls.append((n.lineno, callees, skip, args, "%s:%d %s(...)" % (rel, n.lineno, ast.unparse(f)[:50])))


def bound_param(g, skip, key):
    a = g.node.args
    pos = [x.arg for x in a.posonlyargs + a.args]
    if is_static(g) and skip:
        skip = 0
    if isinstance(key, int):
        i = key + skip
        if i < len(pos):
            return pos[i]
        return a.vararg.arg if a.vararg else None
    if key in pos or key in [x.arg for x in a.kwonlyargs]:
        return key
    return a.kwarg.arg if a.kwarg else None


def alias_pass(A, V):
    """emits ModuleGlobalWrite for (a) mutations of a module-level object through a local alias and (b) calls that
    hand a module-level object to a function that (transitively, through resolved direct calls) mutates that
    parameter.  The allow-list name of such a site carries the callee, the parameter and the mutating expressions
    (not line numbers), so that a DIFFERENT mutation in the callee is not covered by an old allow-list entry."""
    T_ = {}
    for f in A.funcs.values():
        locs, gdecl = function_locals(f.node)
        sc = Scope(A, f.mod, f.fid, f.cls, f, locs, {})
        sc.globals_decl = gdecl
        for n in ast.walk(f.node):      # function-local imports
            if isinstance(n, (ast.Import, ast.ImportFrom)):
                for k, v in import_bindings(A, f.mod, n).items():
                    sc.local_syms[k] = v
        T_[f.qual] = TaintFn(A, V, f, sc).run()
    # mutp[q][param] = set of (site text, tag)
    mutp = {q: {nm: set(v) for (k, nm), v in t.mut.items() if k == "p"} for q, t in T_.items()}
    changed, rounds = True, 0
    while changed and rounds < 6:
        changed = False
        rounds += 1
        for q, t in T_.items():
            for (ln, callees, skip, args, text) in t.calls:
                for g in callees:
                    for key, srcs in args:
                        bp = bound_param(g, skip, key)
                        if bp is None or not mutp.get(g.qual, {}).get(bp):
                            continue
                        short = g.qual.rsplit(".", 2)[-1] if g.cls is None else ".".join(g.qual.rsplit(".", 2)[-2:])
                        add = set(("%s -> %s" % (text, w), "%s(%s): %s" % (short, bp, tg.split(": ")[-1]))
                                  for (w, tg) in mutp[g.qual][bp] if w.count("->") < 3)
                        for (k, nm) in srcs:
                            if k == "p":
                                cur = mutp[q].setdefault(nm, set())
                                if not add <= cur:
                                    cur |= add
                                    changed = True
    # parameters whose object is kept in an attribute, directly or by a resolved callee (one fixpoint as above)
    storep = {q: {nm: set(v) for nm, v in t.stored.items()} for q, t in T_.items()}
    changed, rounds = True, 0
    while changed and rounds < 6:
        changed = False
        rounds += 1
        for q, t in T_.items():
            for (ln, callees, skip, args, text) in t.calls:
                for g in callees:
                    for key, srcs in args:
                        bp = bound_param(g, skip, key)
                        if bp is None or not storep.get(g.qual, {}).get(bp):
                            continue
                        add = set(("%s -> %s" % (text, w), tg) for (w, tg) in storep[g.qual][bp] if w.count("->") < 3)
                        for (k, nm) in srcs:
                            if k == "p":
                                cur = storep[q].setdefault(nm, set())
                                if not add <= cur:
                                    cur |= add
                                    changed = True
    # mutable DEFAULT arguments ({} / [] / set() / dict() / list() ...): one object per process, shared by every
    # call that omits the argument; harmful as soon as it is mutated or kept in an attribute
    n_mut_defaults = 0
    for q, t in T_.items():
        f = A.funcs[q]
        a = f.node.args
        pos = a.posonlyargs + a.args
        pairs = list(zip(pos[len(pos) - len(a.defaults):], a.defaults)) + [
            (x, d) for x, d in zip(a.kwonlyargs, a.kw_defaults) if d is not None]
        for x, d in pairs:
            mutable = isinstance(d, (ast.Dict, ast.List, ast.Set)) or (
                isinstance(d, ast.Call) and isinstance(d.func, ast.Name) and d.func.id in MUTABLE_CTORS)
            if not mutable:
                continue
            n_mut_defaults += 1
            uses = sorted(mutp[q].get(x.arg, set())) + sorted(storep[q].get(x.arg, set()))
            for (w, tg) in uses:
                A.eff(f.fid, "ModuleGlobalWrite", (),
                      "%s:%d mutable default argument %s=%s of %s is shared by all calls: %s" % (
                          os.path.relpath(f.mod.path, A.repo), d.lineno, x.arg, ast.unparse(d)[:20], f.node.name, w[:200]),
                      tag="mutable default argument %s=%s: %s" % (x.arg, ast.unparse(d)[:20], tg.split(": ")[-1]))
    A.stats["mutable_default_arguments"] = n_mut_defaults
    for q, t in T_.items():
        f = A.funcs[q]
        for (k, nm), sites in t.mut.items():
            if k == "g":
                for (w, tg) in sites:
                    A.eff(f.fid, "ModuleGlobalWrite", (), "%s (alias of module-level %s)" % (w, nm), tag=tg)
        for (ln, callees, skip, args, text) in t.calls:
            for g in callees:
                for key, srcs in args:
                    bp = bound_param(g, skip, key)
                    if bp is None or not mutp.get(g.qual, {}).get(bp):
                        continue
                    for (k, nm) in srcs:
                        if k == "g":
                            short = g.qual.rsplit(".", 1)[-1] if g.cls is None else ".".join(g.qual.rsplit(".", 2)[-2:])
                            for (w, tg) in sorted(mutp[g.qual][bp]):
                                A.eff(f.fid, "ModuleGlobalWrite", (),
                                      "%s passes module-level %s as parameter %s, which the callee mutates: %s" % (
                                          text, nm, bp, w[:200]),
                                      tag="%s(%s): %s" % (short, bp, tg.split(": ")[-1]))
    A.stats["param_mutating_functions"] = sum(1 for q in mutp if any(mutp[q].values()))


def forward_rs(A, V, f, sc):
    """inside f (which has parameter random_state): every call that passes the NAME random_state on makes the
    callee's twin reachable from f's twin"""
    for n in ast.walk(f.node):
        if not isinstance(n, ast.Call):
            continue
        passes = any(isinstance(a, ast.Name) and a.id == RS_PARAM for a in n.args) or any(
            isinstance(k.value, ast.Name) and k.value.id == RS_PARAM for k in n.keywords)
        if not passes:
            continue
        fn = n.func
        if isinstance(fn, ast.Attribute):
            base, parts = V.chain(fn)
            tgt = None
            if isinstance(base, ast.Name):
                s = V.lookup(sc, base.id)
                if s[0] in ("mod", "class"):
                    cur = s
                    for p in parts:
                        cur = attr_of_sym(A, cur, p) if cur else None
                    tgt = cur
            if tgt is not None and tgt[0] == "func":
                for g in tgt[1]:
                    if g.did is not None:
                        A.edge(f.did, g.did)
            elif tgt is not None and tgt[0] == "class":
                for k in tgt[1].mro():
                    for g in k.methods.get("__init__", []):
                        if g.did is not None:
                            A.edge(f.did, g.did)
            else:
                if isinstance(base, ast.Call) and isinstance(base.func, ast.Name) and base.func.id == "super" \
                        and f.cls is not None:
                    for k in f.cls.mro()[1:]:
                        for g in k.methods.get(fn.attr, []):
                            if g.did is not None:
                                A.edge(f.did, g.did)
                elif any(g.did is not None for (_, g) in A.methods_by_name.get(fn.attr, [])):
                    A.edge(f.did, A.node("N", fn.attr + "@rsnone"))
                    for (c, g) in A.methods_by_name.get(fn.attr, []):
                        if g.did is not None:
                            A.edge(A.node("N", fn.attr + "@rsnone"), g.did, c.cid)
        elif isinstance(fn, ast.Name):
            s = V.lookup(sc, fn.id)
            if s[0] == "func":
                for g in s[1]:
                    if g.did is not None:
                        A.edge(f.did, g.did)
            elif s[0] == "class":
                for k in s[1].mro():
                    for g in k.methods.get("__init__", []):
                        if g.did is not None:
                            A.edge(f.did, g.did)


# ---------------------------------------------------------------------------------------------------------
# configurations, reachability (python mirror of coq/model/EffGraph.v reach_set), emission
# ---------------------------------------------------------------------------------------------------------
def config_roots(A, cfg):
    classes, _ = CONFIGS[cfg]
    roots = {A.TOP}
    for q in classes:
        c = A.classes.get(q)
        if c is None:
            raise TranslatorError("configuration %s: class %s not found in the source" % (cfg, q))
        roots.add(c.cid)
        for k in c.mro():
            roots.add(k.cid)
            for fs in k.methods.values():
                for f in fs:
                    roots.add(f.fid)
    for mn in ENV_MODULES:
        for c in A.classes.values():
            if c.mod.name == mn:
                roots.add(c.cid)
    for m in A.mods.values():
        roots.add(m.init_node)
    return sorted(roots)


def config_off(A, cfg):
    env = dict(COMMON_FIX)
    env.update(CONFIGS[cfg][1])
    env = {k: v for k, v in env.items() if v != "<unfixed>"}
    off = []
    for key, (tid, t) in A.tests.items():
        v = eval_test(t, env)
        if v is True:
            off.append(2 * tid + 1)
        elif v is False:
            off.append(2 * tid)
    return sorted(off)


def reach(edges, roots, off):
    offs = set(off)
    V = set(roots)
    by_src, by_cond = {}, {}
    for e in edges:
        if any(l in offs for l in e[3]):
            continue
        by_src.setdefault(e[0], []).append(e)
        by_cond.setdefault(e[2], []).append(e)
    work = list(V)
    while work:
        x = work.pop()
        for e in by_src.get(x, []) + by_cond.get(x, []):
            if e[0] in V and e[2] in V and e[1] not in V:
                V.add(e[1])
                work.append(e[1])
    return V


def coq_ident(s):
    return "".join(ch if ch.isalnum() else "_" for ch in s)


def plist(xs):
    return "[" + "; ".join(str(x) for x in xs) + "]"


def emit(A, out_path, sidecar_path=None):
    cfgs = sorted(CONFIGS)
    roots = {c: config_roots(A, c) for c in cfgs}
    offs = {c: config_off(A, c) for c in cfgs}
    # prune to what is reachable from any configuration's roots with every guard enabled (superset of every
    # configuration's reachable set, so no configuration loses an edge)
    all_roots = sorted(set(x for c in cfgs for x in roots[c]))
    edges = sorted(A.edges)
    live = reach(edges, all_roots, [])
    edges = [e for e in edges if e[0] in live and e[2] in live]
    # order edges by BFS discovery of the source so that the Coq fixpoint needs few rounds
    order = bfs_order(edges, all_roots)
    edges.sort(key=lambda e: (max(order.get(e[0], 10 ** 9), order.get(e[2], 10 ** 9)), e))
    merged = {}
    for (nd, kind, lits, where) in sorted(A.effs):
        if nd in live:
            merged.setdefault((nd, kind, lits), []).append(where)
    effs = [(nd, kind, lits, " ; ".join(ws)) for (nd, kind, lits), ws in sorted(merged.items())]
    # the name under which a site can be allow-listed carries the NUMBER of sites of that kind in the function,
    # so that an additional site in an allow-listed function is not covered by the old entry
    nsites = {}
    for (nd, kind, lits), ws in merged.items():
        nsites[(nd, kind)] = nsites.get((nd, kind), 0) + len(ws)
    # alias-pass sites additionally carry what is mutated (callee(parameter): expression), see alias_pass
    for key in list(nsites):
        tags = A.eff_tags.get(key)
        nsites[key] = "%d%s" % (nsites[key], (" " + " ; ".join(sorted(tags)).replace('"', "'")) if tags else "")
    used_lits = set(l for e in edges for l in e[3]) | set(l for e in effs for l in e[2])
    L = []
    L.append("(* GENERATED by harness/translate_effects.py from the current working tree of the repository.")
    L.append("   DO NOT EDIT: rewritten by every `./check C11` run. %d modules, %d nodes, %d edges (pruned), %d effect sites. *)"
             % (len(A.mods), len(A.nodes), len(edges), len(effs)))
    L.append("From Coq Require Import List PArith String.")
    L.append("From Verif Require Import model.EffGraph.")
    L.append("Import ListNotations.")
    L.append("Open Scope positive_scope.")
    L.append("")
    L.append("(* node table: id kind qualified-name   (F function, C class, G module variable, M module import,")
    L.append("   N method name, D function run with random_state = None, T top) -- only nodes that occur below *)")
    occurring = set()
    for e in edges:
        occurring.update((e[0], e[1], e[2]))
    for e in effs:
        occurring.add(e[0])
    for c in cfgs:
        occurring.update(roots[c])
    L.append("(*")
    for i in sorted(occurring):
        k, nm = A.nodes[i - 1]
        L.append(" %d %s %s" % (i, k, nm.replace("*)", "* )").replace("(*", "( *")))
    L.append("*)")
    L.append("")
    L.append("(* guard tests over names fixed by a configuration: literal 2*t = test t holds, 2*t+1 = it does not *)")
    L.append("(*")
    for key, (tid, _) in sorted(A.tests.items(), key=lambda kv: kv[1][0]):
        if 2 * tid in used_lits or 2 * tid + 1 in used_lits:
            L.append(" t%d: %s" % (tid, key.replace("*)", "* )").replace("(*", "( *")))
    L.append("*)")
    L.append("")
    # chunked (big list literals are slow to parse); E = unguarded edge, EG = edge with guard literals
    L.append("Definition E (a b c : positive) : edge := (a, b, c, nil).")
    L.append("Definition EG (a b c : positive) (ls : list positive) : edge := (a, b, c, ls).")
    parts = []
    for k in range(0, len(edges), 200):
        parts.append("edges_%d" % k)
        L.append("Definition edges_%d : list edge := [" % k)
        L.append(";\n".join((" E %d %d %d" % e[:3]) if not e[3] else (" EG %d %d %d %s" % (e[0], e[1], e[2], plist(e[3])))
                            for e in edges[k:k + 200]))
        L.append("].")
    L.append("Definition edges : list edge := Eval vm_compute in List.concat [%s]." % "; ".join(parts))
    L.append("")
    L.append("Open Scope string_scope.")
    L.append("Definition effs : list effsite := [")
    rows = []
    for i, (nd, kind, lits, where) in enumerate(effs):
        rows.append(" (%d%%positive, %s, %s%%positive, \"%s\")%s (* %s *)" % (
            nd, kind, plist(lits), "%s/%s" % (A.nodes[nd - 1][1].replace('"', "'"), nsites[(nd, kind)]),
            ";" if i < len(effs) - 1 else "",
            where.replace("*)", "* )").replace("(*", "( *").replace('"', "'")))
    L.append("\n".join(rows))
    L.append("].")
    L.append("Close Scope string_scope.")
    L.append("")
    for c in cfgs:
        L.append("(* configuration %s: classes %s; fixed names %s *)" % (
            c, ", ".join(CONFIGS[c][0]), json.dumps(dict(COMMON_FIX, **CONFIGS[c][1]), sort_keys=True)))
        L.append("Definition roots_%s : list positive := %s." % (c, plist(roots[c])))
        L.append("Definition off_%s : list positive := %s." % (c, plist([l for l in offs[c] if l in used_lits])))
        L.append("")
    # landmarks for non-vacuity examples
    # landmarks: a renamed function must not break the build (harmless refactor): fall back to TOP (always
    # reachable) for landmarks used positively and to a fresh, edge-less node for those used negatively
    for nm, (qual, positive) in LANDMARKS.items():
        nid = A.node_id.get(("F", qual)) or A.node_id.get(("D", qual))
        if nid is None:
            nid = A.TOP if positive else len(A.nodes) + 1
            A.stats.setdefault("landmarks_missing", []).append(qual)
        L.append("Definition fn_%s : positive := %d. (* %s *)" % (nm, nid, qual))
    L.append("")
    text = "\n".join(L) + "\n"
    if out_path is not None:
        os.makedirs(os.path.dirname(out_path), exist_ok=True)
        old = open(out_path).read() if os.path.exists(out_path) else None
        if old != text:
            tmp = out_path + ".tmp%d" % os.getpid()
            open(tmp, "w").write(text)
            os.replace(tmp, out_path)
    if sidecar_path:
        side = dict(
            nodes=[[k, n] for (k, n) in A.nodes],
            effs=[[nd, kind, list(l), "%s/%s" % (A.nodes[nd - 1][1], nsites[(nd, kind)]), w] for (nd, kind, l, w) in effs],
            configs={c: dict(roots=roots[c], off=offs[c],
                             reach=sorted(reach(edges, roots[c], offs[c]))) for c in cfgs},
            # file, first line (decorators included), last line, node id: to map executed code objects to nodes
            funcs={f.qual: [os.path.relpath(f.mod.path, A.repo),
                            min([f.node.lineno] + [d.lineno for d in f.node.decorator_list]),
                            getattr(f.node, "end_lineno", f.node.lineno), f.fid] for f in A.funcs.values()},
            tests={str(tid): key for key, (tid, _) in A.tests.items()},
            edges=[[e[0], e[1], e[2], list(e[3])] for e in edges],
            # self-audit of the blind spots (lands in evidence/C11.json notes on every run)
            audit=dict(
                dynamic_attr_sites_in_closure=sum(1 for e in A.effs if e[1] == "DynamicAttr"),
                dynamic_attr_sites_reachable={c: sum(1 for (nd, kind, l, w) in effs if kind == "DynamicAttr"
                                                     and nd in reach(edges, roots[c], offs[c])) for c in cfgs},
                dynamic_code_sites_in_closure=sum(1 for e in A.effs if e[1] == "DynamicCode"),
                calls_through_callable_valued_locals=A.stats["unresolved_local_calls"],
                calls_of_callable_valued_attributes=A.stats.get("calls_of_callable_valued_attributes", 0),
                functools_partial_sites=A.stats.get("functools_partial_sites", 0),
                mutable_default_arguments=A.stats.get("mutable_default_arguments", 0),
                hash_order_loops_assert_only=A.stats.get("hash_order_loops_assert_only", 0),
                lambda_sites=A.stats.get("lambda_sites", 0),
                nested_function_definitions=sum(1 for f in A.funcs.values() for n in ast.walk(f.node)
                                                if isinstance(n, (ast.FunctionDef, ast.AsyncFunctionDef)) and n is not f.node),
                star_kwargs_call_sites=sum(1 for f in A.funcs.values() for n in ast.walk(f.node)
                                           if isinstance(n, ast.Call) and any(k.arg is None for k in n.keywords)),
                kwargs_calls_to_random_state_callees=AUDIT["kwargs_calls_to_random_state_callees"],
                functions_with_random_state_parameter=sum(1 for f in A.funcs.values() if f.did is not None),
                modules=len(A.mods), functions=len(A.funcs), classes=len(A.classes)),
            stats=dict(A.stats, nodes=len(A.nodes), edges=len(edges), effs=len(effs),
                       functions=len(A.funcs), classes=len(A.classes)),
        )
        os.makedirs(os.path.dirname(sidecar_path), exist_ok=True)
        json.dump(side, open(sidecar_path, "w"))
    return dict(edges=edges, effs=effs, roots=roots, offs=offs)


def bfs_order(edges, roots):
    order = {r: 0 for r in roots}
    by_src, by_cond = {}, {}
    for e in edges:
        by_src.setdefault(e[0], []).append(e)
        by_cond.setdefault(e[2], []).append(e)
    frontier, d = list(roots), 0
    while frontier:
        d += 1
        nxt = []
        for x in frontier:
            for e in by_src.get(x, []) + by_cond.get(x, []):
                if e[0] in order and e[2] in order and e[1] not in order:
                    order[e[1]] = d
                    nxt.append(e[1])
        frontier = nxt
    return order


LANDMARKS = {
    "RandomSearcher_get_config": (SCHED + "searchers.random_grid_searcher.RandomSearcher._get_config", True),
    "generate_random_seed_default": (SCHED + "random_seeds.generate_random_seed@rsnone", False),
    "Float_Uniform_sample_default": ("syne_tune.config_space.Float._Uniform.sample@rsnone", False),
    "FIFOScheduler_suggest": (SCHED + "fifo.FIFOScheduler._suggest", True),
}

BLIND_SPOTS = [
    "calls through local variables / parameters holding callables (counted in stats.unresolved_local_calls); a "
    "function or class that is MENTIONED in a reachable function is treated as called there, so callbacks are "
    "covered at the place where they are created, not where they are invoked",
    "getattr/setattr with a non-constant name (effect DynamicAttr is recorded), exec/eval/importlib (DynamicCode)",
    "**kwargs / *args are trusted to carry random_state when the callee needs it",
    "objects of classes that no reachable function mentions but that the user passes in (only classes of "
    "syne_tune.config_space and syne_tune.backend.trial_status are assumed to exist)",
    "C extensions and everything outside the syne_tune package (numpy, scipy, autograd, pandas internals)",
    "class-level mutable attributes are recognised only when created by a literal / dict() / list() / set() / "
    "defaultdict() in the class body and mutated as self.X[...] = / self.X.<mutator>() / cls.X...; aliases of "
    "module-level objects are followed one assignment deep inside a function and through parameters of resolved "
    "direct calls (not through attributes, returns or by-name dispatched calls)",
    "seed flow is judged by NAMES (…seed…, …random_state…, rng): a generator stored under another name, or a "
    "seed-named value that is not a seed, is not seen",
    "guard tests are evaluated by NAME (every variable called random_seed / searcher_name is taken to hold the "
    "fixed value)",
    "element types of sets are unknown: every ordered consumption of a set is flagged",
]


def facts_for(repo):
    """the sidecar facts of `repo`, computed in this process without touching coq/gen/EffFacts.v or the shared
    sidecar file (checks against different trees may run concurrently)"""
    import tempfile
    A = analyze(repo)
    fd, path = tempfile.mkstemp(prefix="c11facts_", suffix=".json")
    os.close(fd)
    try:
        emit(A, None, path)
        return json.load(open(path))
    finally:
        os.remove(path)


def out_paths():
    verif = common.VERIF if common else os.path.dirname(os.path.dirname(os.path.abspath(__file__)))
    return (os.path.join(verif, "coq", "gen", "EffFacts.v"), os.path.join(verif, "build", "C11", "facts.json"))


def generate(ctx=None, repo=None, out=None, sidecar=None):
    repo = repo or (common.REPO if common else os.environ.get("VERIF_REPO", "/repo"))
    o, s = out_paths()
    try:
        A = analyze(repo)
        res = emit(A, out or o, sidecar or s)
    except (TranslatorError, SyntaxError, RecursionError) as e:
        if ctx is None:
            raise
        # fail-closed: the facts could not be regenerated from the current source, so the theorems (which would
        # be re-checked against STALE facts) do not count: the proof obligation is broken
        msg = "translator failed closed, facts NOT regenerated from the current source: %s" % (e,)
        ctx.violation("proof", msg, case={}, failing_input=False, broken=msg[:200])
        return None, None
    if ctx is not None:
        ctx.notes.append("translator: %s" % json.dumps(dict(A.stats, nodes=len(A.nodes), edges=len(res["edges"]),
                                                           effs=len(res["effs"]))))
        try:
            ctx.notes.append("translator self-audit (blind spots, counted on this run): %s" % json.dumps(
                json.load(open(sidecar or s))["audit"], sort_keys=True))
        except Exception:
            pass
    return A, res


if __name__ == "__main__":
    A, res = generate(repo=sys.argv[1] if len(sys.argv) > 1 else None)
    print(json.dumps(dict(A.stats, nodes=len(A.nodes), edges=len(res["edges"]), effs=len(res["effs"]))))


def explain(edges, roots, off, target):
    """a derivation (list of (src, dst, cond)) showing why `target` is reachable, or None"""
    offs = set(off)
    par = {r: None for r in roots}
    by_src, by_cond = {}, {}
    for e in edges:
        if any(l in offs for l in e[3]):
            continue
        by_src.setdefault(e[0], []).append(e)
        by_cond.setdefault(e[2], []).append(e)
    work = list(roots)
    while work:
        nxt = []
        for x in work:
            for e in by_src.get(x, []) + by_cond.get(x, []):
                if e[0] in par and e[2] in par and e[1] not in par:
                    par[e[1]] = e
                    nxt.append(e[1])
        work = nxt
    if target not in par:
        return None
    path, x = [], target
    while par.get(x) is not None:
        e = par[x]
        path.append((e[0], e[1], e[2]))
        x = e[0]
    return list(reversed(path))
