"""Harness-side in-memory TrialBackend for C20 (checkpoint life cycle).

`CkptBackend` is a subclass of the public `TrialBackend`: the base class methods
`start_trial / resume_trial / pause_trial / stop_trial / stop_all /
fetch_status_results` of /repo run unchanged; only the abstract hooks
(`_schedule`, `_pause_trial`, `_stop_trial`, `_resume_trial`,
`_all_trial_results`, `copy_checkpoint`, `delete_checkpoint`, ...) are
implemented here, in memory, and every call is appended to one chronological
log.  Workers are scripted: at every poll each running trial advances by a
scripted number of epochs, writes a checkpoint (= the epoch reached) after every
epoch and reports `metric = curve(trial, epoch)`; the reports of different
trials made in one poll are interleaved in a scripted random order (encoded in
the worker time stamps by which the base class sorts).

`Recorder` is a TunerCallback that writes the scheduler side (poll contents,
decisions, loop markers) into the same log.
"""
import datetime
from pathlib import Path

from syne_tune.backend.trial_backend import TrialBackend
from syne_tune.backend.trial_status import Status, TrialResult
from syne_tune.constants import ST_WORKER_TIMESTAMP, ST_WORKER_TIME, ST_WORKER_COST
from syne_tune.tuner_callback import TunerCallback

METRIC = "loss"
RESOURCE = "epoch"
MAX_RES = "epochs"


def curve(seed, trial_id, epoch, flavour):
    """Deterministic metric curve (integers scaled: exact floats)."""
    h = (seed * 1000003 + trial_id * 7919 + epoch * 104729) % 9973
    if flavour == "saturated":
        # a discrete metric that saturates: almost all reports carry one of two values (ties at every rung boundary)
        return float(min(h % 4, 1))
    if flavour == "ties":
        return float(h % 3)
    if flavour == "trend":
        return float((trial_id * 37 + seed) % 11) + 1.0 / (1 + epoch) + (h % 5) / 64.0
    return float(h) / 16.0


def metric_value(spec, trial_id, epoch):
    """spec["curve_table"] = {"<trial>:<epoch>": value} overrides the hash curve (minimal replays)"""
    tbl = spec.get("curve_table") or {}
    key = "%d:%d" % (trial_id, epoch)
    if key in tbl:
        return float(tbl[key])   # "nan" allowed
    # a diverged run: the job does not fail but reports NaN (spec["nan_den"] = n: one report in n)
    if spec.get("nan_den") and (spec["curve_seed"] * 7 + trial_id * 131 + epoch * 31337) % spec["nan_den"] == 0:
        return float("nan")
    return curve(spec["curve_seed"], trial_id, epoch, spec.get("flavour", "plain"))


class CkptBackend(TrialBackend):
    def __init__(self, rng, spec, delete_checkpoints):
        super().__init__(delete_checkpoints=delete_checkpoints)
        self.rng = rng
        self.spec = spec
        self.log = []
        self.ckpt = {}          # trial_id -> epoch stored in its checkpoint
        self.deleted = set()    # trial ids on which delete_checkpoint was called
        self.epoch = {}         # worker position
        self.limit = {}         # worker runs until this epoch
        self.polls = 0
        self._ts = 0
        self._ctx = "callback"
        self.plan = list(spec.get("plan") or [])   # replay: recorded world choices
        self.plan_out = []
        self.straggler = None   # trial running on a very slow worker (spec["straggler_factor"])
        self.trial_of_lr = {}   # value of hyperparameter "lr" -> trial id (identifies PBT clone sources)

    # ---- scripted choices (recorded so that a replay is exact) ---------------
    def _choose(self, n):
        if self.plan:
            v = self.plan.pop(0) % max(n, 1)
        else:
            v = self.rng.randrange(n) if n > 0 else 0
        self.plan_out.append(v)
        return v

    # ---- abstract hooks ----------------------------------------------------
    def entrypoint_path(self):
        return Path("ckpt_worker.py")

    def copy_checkpoint(self, src_trial_id, tgt_trial_id):
        alive = src_trial_id not in self.deleted
        self.log.append(("copy", int(src_trial_id), int(tgt_trial_id), alive))
        if src_trial_id in self.ckpt:
            self.ckpt[tgt_trial_id] = self.ckpt[src_trial_id]

    def delete_checkpoint(self, trial_id):
        self.log.append(("delete", int(trial_id), self._ctx))
        self.deleted.add(trial_id)
        self.ckpt.pop(trial_id, None)

    def _schedule(self, trial_id, config):
        self.log.append(("schedule", int(trial_id)))
        start = self.ckpt.get(trial_id, 0)
        self.epoch[trial_id] = start
        lim = config.get(MAX_RES) if self.spec.get("use_max_resource_attr", True) else None
        # without max_resource_attr the training script runs its own number of epochs (>= max_t)
        self.limit[trial_id] = int(lim) if lim is not None else int(self.spec.get("worker_epochs") or self.spec["max_t"])
        # every (re)started worker trains at least one epoch and reports it
        self.epoch[trial_id] = max(0, min(start, self.limit[trial_id] - 1))

    def start_trial(self, config, checkpoint_trial_id=None):
        tid = self.new_trial_id()
        self.log.append(("start", tid, None if checkpoint_trial_id is None else int(checkpoint_trial_id)))
        if "lr" in config:
            self.trial_of_lr[float(config["lr"])] = tid
        return super().start_trial(config, checkpoint_trial_id)

    def resume_trial(self, trial_id, new_config=None):
        alive = trial_id not in self.deleted
        at = len(self.log)
        try:
            res = super().resume_trial(trial_id, new_config)
        except AssertionError:
            # the base class refuses (unknown id / status not paused): nothing is resumed
            self.log.append(("resume_rejected", int(trial_id)))
            raise
        if self.spec.get("straggler_factor") and self.straggler is None:
            self.straggler = trial_id   # the first resumed trial gets the slow worker
        # accepted: the call is logged at the point where it was made (before the job was scheduled)
        self.log.insert(at, ("resume", int(trial_id), alive))
        # a trial resumed without checkpoint trains from scratch and writes a new one
        self.deleted.discard(trial_id)
        return res

    def _resume_trial(self, trial_id):
        pass

    def pause_trial(self, trial_id, result=None):
        self.log.append(("pause", int(trial_id)))
        super().pause_trial(trial_id, result)

    def _pause_trial(self, trial_id, result):
        # injectable fault: the n-th _pause_trial fails (marker file cannot be written / job cannot be signalled)
        self.n_pause_calls = getattr(self, "n_pause_calls", 0) + 1
        if self.n_pause_calls in (self.spec.get("pause_fault") or []):
            self.log.append(("pause_fault", int(trial_id)))
            raise OSError("injected fault: trial %d cannot be paused" % trial_id)
        # the worker is killed; the checkpoint kept is the one of the report
        # the scheduler decided on (later epochs of the same poll are discarded)
        if result is not None and trial_id in self.ckpt and trial_id not in self.deleted:
            self.ckpt[trial_id] = int(result[RESOURCE])

    def stop_trial(self, trial_id, result=None):
        self.log.append(("stop", int(trial_id)))
        old = self._ctx
        self._ctx = "stop_all" if old == "stop_all" else "stop_trial"
        try:
            super().stop_trial(trial_id, result)
        finally:
            self._ctx = old

    def _stop_trial(self, trial_id, result):
        self._trial_dict[trial_id].status = Status.stopped

    def stop_all(self):
        self.log.append(("stop_all",))
        self._ctx = "stop_all"
        try:
            super().stop_all()
        finally:
            self._ctx = "callback"

    def busy_trial_ids(self):
        return [(t, r.status) for t, r in self._trial_dict.items() if r.status == Status.in_progress]

    def stdout(self, trial_id):
        return []

    def stderr(self, trial_id):
        return []

    def _all_trial_results(self, trial_ids):
        return [self._trial_dict[t] for t in trial_ids if t in self._trial_dict]

    # ---- the world: one poll ---------------------------------------------------
    def fetch_status_results(self, trial_ids):
        self.polls += 1
        running = [t for t in sorted(trial_ids) if self._trial_dict[t].status == Status.in_progress]
        per_trial = []
        failing = []
        for t in running:
            k = self._choose(self.spec.get("max_steps", 3) + 1)
            if t == self.straggler:
                # heterogeneous job durations: this worker makes one epoch every straggler_factor polls
                k = 1 if self.polls % self.spec["straggler_factor"] == 0 else 0
            # scripted job failure (spec["fail_den"] = n: one chance in n per trial and poll): the job
            # exits non-zero after the k reports of this poll (k = 0: before its next report)
            if self.spec.get("fail_den") and self._choose(self.spec["fail_den"]) == 0:
                failing.append(t)
            reps = []
            for _ in range(k):
                if self.epoch[t] >= self.limit[t]:
                    break
                self.epoch[t] += 1
                reps.append((t, self.epoch[t]))
            per_trial.append(reps)
        # random interleaving that keeps every trial's own order
        order = []
        queues = [q for q in per_trial if q]
        while queues:
            i = self._choose(len(queues))
            order.append(queues[i].pop(0))
            queues = [q for q in queues if q]
        for (t, e) in order:
            self._ts += 1
            self.ckpt[t] = e
            self._trial_dict[t].metrics.append({
                METRIC: metric_value(self.spec, t, e),
                RESOURCE: e, ST_WORKER_TIMESTAMP: float(self._ts), ST_WORKER_TIME: float(e),
                ST_WORKER_COST: float(e), "elapsed_time": float(e)})
        for t in running:
            if t in failing:
                self._trial_dict[t].status = Status.failed
            elif self.epoch[t] >= self.limit[t]:
                self._trial_dict[t].status = Status.completed
        return super().fetch_status_results(trial_ids)


class Explorer:
    """custom_explore_fn for PopulationBasedTraining (public constructor argument): PBT
    calls it with a copy of the config of the trial it clones from, so the harness learns
    which trial random_state.choice drew; returns a config with a fresh, unique "lr"."""

    def __init__(self, backend):
        self.backend = backend
        self.k = 0

    def __call__(self, config):
        src = self.backend.trial_of_lr.get(float(config["lr"]))
        self.backend.log.append(("explore", src))
        self.k += 1
        config = dict(config)
        config["lr"] = (0.137 + 0.6180339887 * self.k) % 1.0
        return config


class Recorder(TunerCallback):
    """Writes scheduler-side events into the backend's log (public callback API)."""

    def __init__(self, backend):
        self.backend = backend

    def on_tuning_start(self, tuner):
        self.backend.log.append(("tuning_start",))

    def on_loop_start(self):
        self.backend.log.append(("loop_start",))

    def on_fetch_status_results(self, trial_status_dict, new_results):
        self.backend.log.append(("poll", [int(t) for t, _ in new_results],
                                 sorted(int(t) for t, (_, s) in trial_status_dict.items() if s == Status.completed),
                                 [int(t) for t, (_, s) in trial_status_dict.items() if s == Status.failed]))

    def on_trial_result(self, trial, status, result, decision):
        self.backend.log.append(("decision", int(trial.trial_id), str(decision), int(result[RESOURCE])))

    def on_loop_end(self):
        self.backend.log.append(("loop_end",))

    def on_tuning_end(self):
        self.backend.log.append(("tuning_end",))
