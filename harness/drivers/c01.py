"""C01 — worker budget and legal trial life cycle in every tuning run.

Whole-run driver (a): the real ``Tuner.run()`` with ScriptedBackend + ScriptedScheduler (harness/scripted.py);
all nondeterminism comes from a generated script. The recorded call trace (scheduler, backend and callback
interfaces), the way run() ended, the final status map and the final worker statuses are compared event for
event with model/Tuner.v ``run`` evaluated by vm_compute on the same script (chk_run).
The independent Python checker ``tuner_cases.check_c01`` (budget, ids, life-cycle automaton, notifications)
runs on every implementation trace; driver (b) runs it on traces produced with REAL schedulers."""
import json
import os

import tuner_cases as tc
from common import VERIF


def corpus_cases(prop):
    d = os.path.join(VERIF, "corpus", prop)
    res = []
    if os.path.isdir(d):
        for f in sorted(os.listdir(d)):
            if f.endswith(".json"):
                res.append(json.load(open(os.path.join(d, f)))["case"])
    return res


def scripted_runs(ctx, cases, checker, prop_name, shard=20):
    """Runs every case on the implementation, applies the independent checker, then the Coq comparison."""
    terms, meta = [], []
    for case in cases:
        out = tc.run_case(case)
        if out["aborted"]:
            ctx.h("outcome", "aborted")
            ctx.notes.append("a generated run exceeded the hard iteration limit and was dropped")
            continue
        rep = tc.replayable(case, out)
        tc.histograms(ctx, case, out)
        ctx.count(rep, nontrivial=tc.nontrivial(out))
        ctx.traces_validated += 1
        if len(ctx.samples) < 2 and 20 < len(out["trace"]) < 80:
            ctx.sample(dict(params=case["params"], style=case.get("style"), trace_head=out["trace"][:25],
                            outcome=out["outcome"], status_map=out["smap"]))
        for what, sig in checker(case["params"], out):
            ctx.violation("property", what, case=rep, signature=sig)
        terms.append(tc.coq_case(case, out))
        meta.append((rep, out))
    if terms:
        bad = ctx.coq_bad_cases("run", tc.IMPORTS, tc.PRELUDE, "chk_run", terms, shard=shard)
        if bad:
            diag = ctx.coq_eval("diag", tc.IMPORTS, tc.PRELUDE, ["diag_run %s" % terms[i] for i in bad[:3]])
        for n, i in enumerate(bad):
            rep, out = meta[i]
            d = diag[n] if n < 3 else ""
            ctx.violation("correspondence",
                          "model/Tuner.v run differs from the real Tuner.run() on a scripted run; "
                          "(first differing event index, model event, model outcome, status map equal, workers equal) = %s; "
                          "implementation outcome %s" % (d, out["outcome"]),
                          case=rep, failing_input=False, broken="correspondence chk_run (model/Tuner.v run) for " + prop_name)


def run(ctx, replay=None):
    ctx.rule = ("cases: generated scripts for whole runs of the real Tuner with ScriptedBackend/ScriptedScheduler "
                "(n_workers 1..6, up to ~40 polls, 0..3 new reports per trial per poll with scripted time stamps, "
                "completions / failures / external stops / 'stopping' at scripted points, every suggest kind incl. "
                "resume of non-paused ids and None, every decision, both flags, poll order scripted); a small-scope "
                "family (n_workers 1..2, <= 4 polls) and a random family; non-trivial = the run starts trials, sees "
                "at least one completion or failure, at least one STOP or PAUSE decision and >= 3 loop iterations; "
                "distinct by content hash of (parameters, consumed oracle answers)")
    rng = ctx.rng
    if replay is not None:
        if replay.get("kind") == "real":
            real_scheduler_runs(ctx, [replay])
        else:
            scripted_runs(ctx, [replay], tc.check_c01, "C01")
        return
    cases = corpus_cases("C01")
    cases += [tc.gen_case(rng, small=True) for _ in range(ctx.n(120, 3000))]
    cases += [tc.gen_case(rng) for _ in range(ctx.n(280, 12000))]
    scripted_runs(ctx, cases, tc.check_c01, "C01")
    real_scheduler_runs(ctx, None)


def real_scheduler_runs(ctx, replay_cases):
    """Driver (b): real schedulers on the ScriptedBackend; the independent checker judges the trace."""
    import tuner_real
    tuner_real.run_real(ctx, tc.check_c01, replay_cases)
