"""C01 — worker budget and legal trial life cycle in every tuning run.

Whole-run driver (a): the real ``Tuner.run()`` with ScriptedBackend + ScriptedScheduler (harness/scripted.py);
all nondeterminism comes from a generated script. The recorded call trace (scheduler, backend and callback
interfaces), the way run() ended, the final status map and the final worker statuses are compared event for
event with model/Tuner.v ``run`` evaluated by vm_compute on the same script (chk_run).
The independent Python checker ``tuner_cases.check_c01`` (budget, ids, life-cycle automaton, notifications)
runs on every implementation trace; driver (b) runs it on traces produced with REAL schedulers; stream (c)
(harness/tuner_sim.py) runs the real SimulatorBackend + SimulatorCallback with a scripted job runner and judges
the trace with the same checker plus ground truth about when every scripted job ended; stream (e)
(harness/tuner_bbsim.py) runs the real blackbox simulator backend (UserBlackboxBackend) with real schedulers and
non-default simulator delays and compares the backend's status of every trial with what the scheduler was told."""
import tuner_cases as tc


def run(ctx, replay=None):
    ctx.rule = ("cases: generated scripts for whole runs of the real Tuner with ScriptedBackend/ScriptedScheduler "
                "(n_workers 1..6, up to ~40 polls, 0..3 new reports per trial per poll with scripted time stamps, "
                "completions / failures / external stops / 'stopping' at scripted points, every suggest kind incl. "
                "resume of non-paused ids and None, every decision, both flags, poll order scripted); a small-scope "
                "family (n_workers 1..2, <= 4 polls) and a random family; non-trivial = the run starts trials, sees "
                "at least one completion or failure, at least one STOP or PAUSE decision and >= 3 loop iterations; "
                "distinct by content hash of (parameters, consumed oracle answers)")
    rng = ctx.rng
    if replay is not None:
        if replay.get("kind") == "real":
            real_scheduler_runs(ctx, [replay])
        elif replay.get("kind") == "sim":
            import tuner_sim
            tuner_sim.run_sim(ctx, [replay])
        elif replay.get("kind") == "local":
            import tuner_local
            tuner_local.run_local_race(ctx, [replay])
        elif replay.get("kind") == "bbsim":
            import tuner_bbsim
            tuner_bbsim.run_bbsim(ctx, [replay])
        else:
            tc.scripted_runs(ctx, [replay], tc.check_c01, "C01")
        return
    cases = tc.corpus_cases("C01")
    cases += [tc.gen_case(rng, small=True) for _ in range(ctx.n(200, 4000))]
    cases += [tc.gen_case(rng) for _ in range(ctx.n(500, 16000))]
    tc.scripted_runs(ctx, cases, tc.check_c01, "C01")
    real_scheduler_runs(ctx, None)
    # stream (c): the real SimulatorBackend with scripted jobs (jobs ending before their first report, ...)
    import tuner_sim
    tuner_sim.run_sim(ctx, None)
    # stream (e): the real blackbox simulator backend (UserBlackboxBackend over a small table) with real schedulers,
    # promotion Hyperband with max_resource_attr, all five simulator delays drawn from {0, 0.05, 0.5, 3.0}
    import tuner_bbsim
    tuner_bbsim.run_bbsim(ctx, None)
    # stream (d): the real LocalBackend with OS processes; the worker writes its final reports and exits exactly
    # between the two reads (job status, job log) of one poll
    import tuner_local
    tuner_local.run_local_race(ctx, None)


def real_scheduler_runs(ctx, replay_cases):
    """Driver (b): real schedulers on the ScriptedBackend; the independent checker judges the trace."""
    import tuner_real
    tuner_real.run_real(ctx, tc.check_c01, replay_cases, discipline=True)
