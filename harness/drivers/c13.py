"""C13 — trial failures are contained. Three parts:

(A) scheduler level: every scheduler that runs here is driven by a harness-side mini tuner; failures are
    placed before the first report / between reports / after a resume / in the poll that also delivers the
    report answered with STOP or PAUSE; around every on_trial_error the public observables of the OTHER
    trials (terminator.information_for_rungs(), terminator.paused_trials(), searcher.state_transformer.state)
    are compared; afterwards the run carries on: no scheduler call may raise, the failed trial must not be
    resumed, its configuration not re-suggested by no-repeat searchers, synchronous brackets must promote again.
(B) whole runs of the real Tuner with a harness-side TrialBackend subclass returning Status.failed /
    Status.stopped for chosen runs, max_failures 0..3: error iff more failures than allowed, naming a failed
    trial; one on_trial_error per badly ended run; every poll's callback sequence is compared with
    model/Failure.v update_running_trials (vm_compute).
(C) asynchronous Hyperband + GP searcher histories with many failures (including the same-poll placement)
    against model/SearcherData.v (the C14 correspondence with a failure-heavy generator)."""
import contextlib
import datetime
import io
import logging
import os
import random
import shutil
import tempfile

import numpy as np

from common import q, lst, natlit, zlit, blit

IMPORTS = "From Verif Require Import model.Base model.SearcherData model.Failure.\nOpen Scope Z_scope.\n"
PRELUDE = r"""
Definition call_eqb (a b : call) : bool :=
  match a, b with
  | CResult x, CResult y | CRemove x, CRemove y | CComplete x, CComplete y | CError x, CError y => x =? y
  | _, _ => false
  end.
(* one poll: statuses, results with the scheduler's decisions, trials_scheduler_stopped before, observed calls *)
Definition poll_case := (list (Z * status) * list (Z * decision) * list Z * list call)%type.
Definition chk_poll (c : poll_case) : bool :=
  let '(sts, res, ss, cs) := c in list_eqb call_eqb (calls (update_running_trials sts res ss)) cs.
(* synchronous scheduler shell: get_top_list (hyperband_bracket.py) as the promotion rule *)
Definition valid_of (rung : list slot) : list (Z * Q) :=
  flat_map (fun s : slot => match s with (Some t, Some (MVal v)) => [(t, v)] | _ => [] end) rung.
Definition invalid_of (rung : list slot) : list Z :=
  flat_map (fun s : slot => match s with (Some t, Some MNaN) => [t] | _ => [] end) rung.
Fixpoint ins_by (le : Q -> Q -> bool) (x : Z * Q) (l : list (Z * Q)) : list (Z * Q) :=
  match l with [] => [x] | y :: r => if le (snd y) (snd x) then y :: ins_by le x r else x :: y :: r end.
Definition sort_by (le : Q -> Q -> bool) (l : list (Z * Q)) : list (Z * Q) := fold_left (fun acc x => ins_by le x acc) l [].
Definition promote_top (is_max : bool) (rung : list slot) (n : nat) : list Z :=
  let valid := valid_of rung in
  if Nat.leb n (length valid) then
    map fst (firstn n (sort_by (if is_max then (fun a b => Qleb b a) else Qleb) valid))
  else map fst valid ++ firstn (n - length valid) (invalid_of rung).
Definition sobs_eqb (a b : sobs) : bool :=
  match a, b with
  | OSuggest r l, OSuggest r' l' => opt_eqb Z.eqb r r' && (l =? l')
  | ONoSuggestion, ONoSuggestion | ONothing, ONothing => true
  | ODecision d, ODecision d' => decision_eqb d d'
  | _, _ => false
  end.
(* index of the first event whose observable answer differs; -1 none; -2-i model error at event i *)
Fixpoint shell_diff (prom : list slot -> nat -> list Z) (rungs : list (list (nat * Z))) (st : shell)
         (evs : list (sevent * sobs)) (i : Z) : Z :=
  match evs with
  | [] => -1
  | (e, o) :: rest =>
      if negb (sobs_eqb (shell_observe prom rungs st e) o) then i
      else match shell_step prom rungs st e with
           | MOk st' => shell_diff prom rungs st' rest (i + 1)
           | MError _ => -2 - i
           end
  end.
Definition shell_case := (bool * list (list (nat * Z)) * list (sevent * sobs))%type.
Definition diag_shell (c : shell_case) : Z :=
  let '(mx, rungs, evs) := c in shell_diff (promote_top mx) rungs (shell_init rungs) evs 0.
Definition chk_shell (c : shell_case) : bool := diag_shell c =? -1.

(* end of run: max_failures, all polls of the run, observed outcome (Some t = ValueError naming t) *)
Definition end_case := (nat * list poll_in * option Z * nat)%type.
(* outcome of the run and the number of failed trials TuningStatus reports, against tuner_end / num_failed of the
   accumulated done dict (the statement of c13_limit_ground_truth is about exactly these) *)
Definition chk_end (c : end_case) : bool :=
  let '(mf, polls, out, nf) := c in
  opt_eqb Z.eqb (tuner_end mf polls) out && Nat.eqb (num_failed (accumulate (map poll_done polls))) nf.
"""

KINDS = [
    ("fifo", "random"), ("fifo", "grid"), ("fifo", "bayesopt"),
    ("hb", "stopping", "random"), ("hb", "stopping", "bayesopt"),
    ("hb", "promotion", "random"), ("hb", "promotion", "bayesopt"),
    ("hb", "pasha", "random"), ("hb", "rush_stopping", "random"), ("hb", "rush_promotion", "random"),
    ("hb", "cost_promotion", "random"),
    ("synchb", "random"), ("synchb", "bayesopt"), ("dehb",), ("pbt",), ("msr",), ("moasha",),
    ("synchb", "random", "max"), ("synchb_custom", "min"), ("synchb_custom", "max"), ("dehb", "max"),
    ("hb", "stopping", "bayesopt_dup"), ("hb", "promotion", "bayesopt_dup"), ("fifo", "bayesopt_cap"),
    ("lss", "random"), ("lss", "bayesopt"), ("lss", "random_dup3"),
]
CUSTOM_RUNGS = [
    [[(6, 1), (3, 2), (1, 5)], [(4, 2), (2, 5)], [(2, 5)]],
    [[(8, 1), (4, 3), (2, 9)], [(5, 3), (2, 9)], [(3, 9)]],
    [[(4, 2), (2, 4), (1, 9)], [(3, 4), (1, 9)], [(2, 9)]],
]
PLACEMENTS = ["before_first_report", "between_reports", "after_resume", "with_decision_report"]
MAX_T = 9


def make_scheduler(kind, seed):
    from syne_tune.config_space import uniform, randint, choice
    from syne_tune.optimizer.schedulers.fifo import FIFOScheduler
    from syne_tune.optimizer.schedulers.hyperband import HyperbandScheduler
    from syne_tune.optimizer.schedulers.synchronous import (
        SynchronousGeometricHyperbandScheduler, GeometricDifferentialEvolutionHyperbandScheduler)
    from syne_tune.optimizer.schedulers.pbt import PopulationBasedTraining
    from syne_tune.optimizer.schedulers.median_stopping_rule import MedianStoppingRule
    from syne_tune.optimizer.schedulers.multiobjective.moasha import MOASHA
    cs = {"x": uniform(0.0, 1.0), "y": randint(0, 20), "epochs": MAX_T}
    so = {"num_init_random": 10000, "debug_log": False}
    sink = io.StringIO()
    with contextlib.redirect_stdout(sink), contextlib.redirect_stderr(sink):
        rc_space = {"x": choice(["a", "b", "c", "d"]), "y": randint(0, 3), "epochs": MAX_T}
        rc_opts = {"allow_duplicates": True, "debug_log": False,
                   "restrict_configurations": [{"x": "a", "y": 0}, {"x": "b", "y": 1}, {"x": "c", "y": 2}, {"x": "d", "y": 3}]}
        if kind[0] == "fifo" and kind[1] == "random_rc_dup":
            return FIFOScheduler(rc_space, searcher="random", metric="m", mode="min", random_seed=seed, search_options=rc_opts)
        if kind[0] == "hb" and kind[2] == "random_rc_dup":
            return HyperbandScheduler(rc_space, searcher="random", type=kind[1], metric="m", mode="min", resource_attr="epoch",
                                      max_resource_attr="epochs", grace_period=1, reduction_factor=3, brackets=1,
                                      random_seed=seed, search_options=rc_opts)
        if kind[0] == "lss":
            # multi-objective wrapper around a FIFOScheduler (2 metrics, linear scalarization)
            from syne_tune.optimizer.schedulers.multiobjective import LinearScalarizedScheduler
            if kind[1] == "random_dup3":
                cs3 = {"x": choice(["a", "b", "c"]), "epochs": MAX_T}
                return LinearScalarizedScheduler(cs3, metric=["m", "m2"], mode=["min", "min"], searcher="random", random_seed=seed,
                                                 search_options={"allow_duplicates": True, "debug_log": False})
            return LinearScalarizedScheduler(cs, metric=["m", "m2"], mode=["min", "min"], searcher=kind[1], random_seed=seed,
                                             search_options=so if kind[1] == "bayesopt" else None)
        if kind[0] == "fifo" and kind[1] == "bayesopt_cap":
            # single-fidelity GP searcher with a small max_size_data_for_model: the state converter that down-samples the
            # data before every fit is active after a handful of completed trials
            return FIFOScheduler(cs, searcher="bayesopt", metric="m", mode="min", random_seed=seed,
                                 search_options={"num_init_random": 2, "max_size_data_for_model": 4 + seed % 3, "debug_log": False,
                                                 "opt_maxiter": 3, "opt_nstarts": 1, "num_init_candidates": 20})
        if kind[0] == "fifo":
            if kind[1] == "grid":
                cs = {"x": choice(["a", "b", "c", "d"]), "y": randint(0, 5), "epochs": MAX_T}
                return FIFOScheduler(cs, searcher="grid", metric="m", mode="min", random_seed=seed)
            return FIFOScheduler(cs, searcher=kind[1], metric="m", mode="min", random_seed=seed,
                                 search_options=so if kind[1] == "bayesopt" else None)
        if kind[0] == "hb":
            kw = {}
            if kind[1].startswith("rush"):
                kw = dict(rung_system_kwargs={"num_threshold_candidates": 1}, points_to_evaluate=[{"x": 0.3, "y": 3}])
            if kind[1] == "cost_promotion":
                kw = dict(cost_attr="cost")
            if kind[2] == "bayesopt":
                kw["search_options"] = so
            if kind[2] == "bayesopt_dup":
                # model-based phase on a small finite space with the non-default allow_duplicates=True: observed
                # configurations may be suggested again, failed (and pending) ones must stay excluded
                cs = {"x": choice(["a", "b", "c"]), "y": randint(0, 2), "epochs": MAX_T}
                kw["search_options"] = {"num_init_random": 2, "allow_duplicates": True, "debug_log": False, "opt_maxiter": 3,
                                        "opt_nstarts": 1, "num_init_candidates": 20}
                return HyperbandScheduler(cs, searcher="bayesopt", type=kind[1], metric="m", mode="min", resource_attr="epoch",
                                          max_resource_attr="epochs", grace_period=1, reduction_factor=3, brackets=1,
                                          random_seed=seed, **kw)
            return HyperbandScheduler(cs, searcher=kind[2], type=kind[1], metric="m", mode="min", resource_attr="epoch",
                                      max_resource_attr="epochs", grace_period=1, reduction_factor=3,
                                      brackets=1 + seed % 2, random_seed=seed, **kw)
        if kind[0] == "synchb":
            return SynchronousGeometricHyperbandScheduler(
                cs, metric="m", mode=kind[2] if len(kind) > 2 else "min", resource_attr="epoch",
                max_resource_attr="epochs", grace_period=1,
                reduction_factor=3, searcher=kind[1], random_seed=seed,
                search_options=so if kind[1] == "bayesopt" else None)
        if kind[0] == "synchb_custom":
            from syne_tune.optimizer.schedulers.synchronous import SynchronousHyperbandScheduler
            return SynchronousHyperbandScheduler(
                cs, bracket_rungs=[list(b) for b in CUSTOM_RUNGS[seed % len(CUSTOM_RUNGS)]], metric="m", mode=kind[1],
                resource_attr="epoch", max_resource_attr="epochs", searcher="random", random_seed=seed)
        if kind[0] == "dehb":
            return GeometricDifferentialEvolutionHyperbandScheduler(
                cs, metric="m", mode=kind[1] if len(kind) > 1 else "min", resource_attr="epoch",
                max_resource_attr="epochs", grace_period=1, reduction_factor=3, random_seed=seed)
        if kind[0] == "pbt":
            return PopulationBasedTraining(cs, metric="m", mode="min", resource_attr="epoch", max_t=MAX_T,
                                           population_size=3, perturbation_interval=2, random_seed=seed)
        if kind[0] == "msr":
            return MedianStoppingRule(FIFOScheduler(cs, searcher="random", metric="m", mode="min", random_seed=seed),
                                      resource_attr="epoch", metric="m", grace_time=1, grace_population=2)
        if kind[0] == "moasha":
            return MOASHA(cs, metrics=["m", "m2"], mode="min", time_attr="epoch", max_t=MAX_T, grace_period=1,
                          reduction_factor=3)
    raise ValueError(kind)


def no_repeat(kind):
    """searchers that promise not to suggest a configuration twice"""
    return kind[0] in ("fifo", "lss") or (kind[0] == "hb" and kind[1] in ("stopping", "promotion")) or kind[0].startswith("synchb")


def searcher_of(sch):
    """the searcher of a scheduler, also behind a wrapper with a public base_scheduler"""
    srch = getattr(sch, "searcher", None)
    if srch is None and getattr(sch, "base_scheduler", None) is not None:
        srch = getattr(sch.base_scheduler, "searcher", None)
    return srch


def observables(sch):
    """public observables of the scheduler / searcher bookkeeping"""
    out = {}
    term = getattr(sch, "terminator", None)
    if term is not None:
        with contextlib.suppress(NotImplementedError):
            out["rungs"] = [tuple(x) for x in term.information_for_rungs()]
        with contextlib.suppress(NotImplementedError):
            out["paused"] = sorted((str(a), int(d)) for (a, b, c, d) in term.paused_trials())
    searcher = searcher_of(sch)
    tr = getattr(searcher, "state_transformer", None)
    if tr is not None and getattr(tr, "state", None) is not None:
        st = tr.state
        out["obs"] = sorted((str(ev.trial_id), repr(sorted((str(k), repr(v)) for k, v in ev.metrics.items())))
                            for ev in st.trials_evaluations)
        out["pending"] = [(str(p.trial_id), p.resource) for p in st.pending_evaluations]
        out["failed"] = [str(x) for x in st.failed_trials]
    return out


def hp(config):
    return tuple(sorted((k, v) for k, v in (config or {}).items() if k in ("x", "y")))


def run_placement(kind, seed, plan, nsteps, workers):
    """plan: list of (placement, ordinal). Returns dict(problems=[...], stats=...)"""
    from syne_tune.backend.trial_status import Trial
    rng = random.Random(seed)
    sch = make_scheduler(kind, seed % 1000)
    synclog = record_sync(sch) if kind[0].startswith("synchb") else None
    t0 = datetime.datetime(2020, 1, 1)
    trials, life = {}, {}
    next_id = 0
    problems, failed, failed_cfg = [], [], []
    stats = dict(errors=0, resumes_after_failure=0, steps=0, suggest_none=0)
    plan0 = [list(p) for p in plan]
    plan = [list(p) for p in plan]
    counters = dict(started=0, resumed=0)
    call_name = ["?"]

    ef_calls = []
    srch_obj = searcher_of(sch)
    if srch_obj is not None and hasattr(srch_obj, "evaluation_failed"):
        _orig_ef = srch_obj.evaluation_failed

        def _counting_ef(trial_id, _orig=_orig_ef):
            ef_calls.append(str(trial_id))
            return _orig(trial_id)

        srch_obj.evaluation_failed = _counting_ef

    def do_fail(tid, placement):
        before = observables(sch)
        n_ef = len(ef_calls)
        call_name[0] = "on_trial_error"
        sch.on_trial_error(trials[tid])
        after = observables(sch)
        if srch_obj is not None and hasattr(srch_obj, "evaluation_failed") and kind[0] in ("fifo", "hb", "lss", "synchb", "synchb_custom", "pbt"):
            if ef_calls[n_ef:] != [str(tid)]:
                problems.append(("searcher_not_told_once_about_failure", placement, ef_calls[n_ef:], str(tid)))
        stats["errors"] += 1
        life[tid]["status"] = "failed"
        failed.append(tid)
        failed_cfg.append(hp(trials[tid].config))
        st = str(tid)
        for key in ("rungs", "paused", "obs"):
            if key in before:
                b, a = before[key], after[key]
                if key == "paused":   # the failed trial itself may be paused (same-poll placement); others must stay
                    b = [e for e in b if e[0] != st]
                    a = [e for e in a if e[0] != st]
                if a != b:
                    problems.append(("bookkeeping_of_other_trials_changed", key, placement, b, a))
        if "pending" in before:
            want = [p for p in before["pending"] if p[0] != st]
            if after["pending"] != want:
                problems.append(("pending_evaluations_wrong_after_failure", placement, before["pending"], after["pending"], st))
            wantf = before["failed"] + ([st] if st not in before["failed"] else [])
            if after["failed"] != wantf:
                problems.append(("failed_list_wrong", placement, before["failed"], after["failed"], st))

    def planned(placement, count):
        for p in plan:
            if p[0] == placement and p[1] == count:
                plan.remove(p)
                return True
        return False

    sink = io.StringIO()
    try:
      with contextlib.redirect_stdout(sink):
        for step in range(nsteps):
            stats["steps"] = step
            running = [t for t, l in life.items() if l["status"] == "running"]
            if len(running) < workers and (not running or rng.random() < 0.5):
                call_name[0] = "suggest"
                sug = sch.suggest(next_id)
                if sug is None:
                    stats["suggest_none"] += 1
                    if not running:
                        break
                    continue
                if sug.spawn_new_trial_id:
                    tid = next_id
                    next_id += 1
                    trial = Trial(trial_id=tid, config=sug.config, creation_time=t0)
                    trials[tid] = trial
                    call_name[0] = "on_trial_add"
                    sch.on_trial_add(trial)
                    life[tid] = dict(status="running", pos=0, resumed=False, run_reports=0)
                    counters["started"] += 1
                    if failed and no_repeat(kind) and hp(sug.config) in failed_cfg:
                        problems.append(("failed_configuration_suggested_again", hp(sug.config)))
                    if planned("before_first_report", counters["started"]):
                        do_fail(tid, "before_first_report")
                else:
                    tid = int(sug.checkpoint_trial_id)
                    if tid in failed:
                        problems.append(("failed_trial_resumed", tid, life[tid].get("failed_how")))
                    if failed:
                        stats["resumes_after_failure"] += 1
                    l = life[tid]
                    if sug.config is not None:
                        trials[tid] = Trial(trial_id=tid, config=sug.config, creation_time=t0)
                    l.update(status="running", resumed=True, run_reports=0)
                    counters["resumed"] += 1
                    if planned("after_resume", counters["resumed"]):
                        if rng.random() < 0.5 and l["pos"] < MAX_T:
                            l["pos"] += 1
                            call_name[0] = "on_trial_result"
                            d = sch.on_trial_result(trials[tid], result(rng, l["pos"]))
                            if d != "CONTINUE":
                                # the resumed run's report is answered with PAUSE/STOP and the failure falls into the same
                                # poll: this is the same-poll placement (known finding F-C13-1 for PAUSE), not 'after_resume'
                                call_name[0] = "on_trial_remove"
                                sch.on_trial_remove(trials[tid])
                                l["status"] = "paused" if d == "PAUSE" else "stopped"
                                life[tid]["failed_how"] = "with_%s_report" % d.lower()
                        life[tid].setdefault("failed_how", "after_resume")
                        do_fail(tid, "after_resume" if life[tid]["failed_how"] == "after_resume" else "with_decision_report")
                continue
            if not running:
                continue
            tid = rng.choice(running)
            l = life[tid]
            l["pos"] += 1
            l["run_reports"] += 1
            call_name[0] = "on_trial_result"
            d = sch.on_trial_result(trials[tid], result(rng, l["pos"]))
            total_reports = sum(x["run_reports"] for x in life.values())
            if d != "CONTINUE":
                call_name[0] = "on_trial_remove"
                sch.on_trial_remove(trials[tid])
                l["status"] = "paused" if d == "PAUSE" else "stopped"
                if planned("with_decision_report", 1) or any(p[0] == "with_decision_report" and rng.random() < 0.3 and not plan.remove(p) for p in list(plan)):
                    l["failed_how"] = "with_%s_report" % d.lower()
                    do_fail(tid, "with_decision_report")
            elif l["pos"] >= MAX_T:
                call_name[0] = "on_trial_complete"
                sch.on_trial_complete(trials[tid], result(rng, l["pos"]))
                l["status"] = "completed"
            elif planned("between_reports", total_reports) or any(
                    p[0] == "between_reports" and p[1] < total_reports and not plan.remove(p) for p in list(plan)):
                l["failed_how"] = "between_reports"
                do_fail(tid, "between_reports")
    except Exception as e:  # any exception from a scheduler call
        problems.append(("exception", call_name[0], type(e).__name__, str(e)[:160]))
    if synclog is not None and plan is not None:
        SHELL_CASES.append((coq_shell_case(sch, kind, synclog),
                            dict(part="A", kind=list(kind), seed=seed, plan=plan0, nsteps=nsteps, workers=workers)))
    return dict(problems=problems, stats=stats, failed=failed)


def directed_same_poll(kind, seed):
    """A trial whose report is answered with PAUSE and whose status is 'failed' in the same poll (the Tuner then
    calls on_trial_remove and on_trial_error): it must not be handed out again by suggest."""
    from syne_tune.backend.trial_status import Trial
    sch = make_scheduler(kind, seed)
    t0 = datetime.datetime(2020, 1, 1)
    trials = {}
    sink = io.StringIO()
    problems = []
    try:
        with contextlib.redirect_stdout(sink):
            for i in range(3):
                sug = sch.suggest(i)
                trials[i] = Trial(trial_id=i, config=sug.config, creation_time=t0)
                sch.on_trial_add(trials[i])
            for i, m in ((0, 0.125), (1, 0.5), (2, 0.75)):
                d = sch.on_trial_result(trials[i], {"m": m, "m2": m, "epoch": 1, "cost": 1.0})
                if d != "CONTINUE":
                    sch.on_trial_remove(trials[i])
                if i == 0:
                    if d != "PAUSE":
                        return []
                    sch.on_trial_error(trials[0])
            for j in range(3, 6):
                sug = sch.suggest(j)
                if sug is not None and not sug.spawn_new_trial_id and int(sug.checkpoint_trial_id) == 0:
                    problems.append(("failed_trial_resumed", 0, "with_pause_report"))
                    break
    except Exception as e:
        problems.append(("exception", "directed_same_poll", type(e).__name__, str(e)[:160]))
    return problems


def record_sync(sch):
    """harness-side recorder around the public callbacks of a synchronous Hyperband scheduler: the event list for
    model/Failure.v shell_step with the scheduler's observable answers"""
    log = []
    o_sug, o_res, o_err = sch.suggest, sch.on_trial_result, sch.on_trial_error

    def suggest(trial_id):
        sug = o_sug(trial_id)
        if sug is None:
            log.append(("SSuggest %s false" % zlit(trial_id), "ONoSuggestion"))
        else:
            level = int(sug.config["epochs"])
            res = "None" if sug.spawn_new_trial_id else "(Some %s)" % zlit(int(sug.checkpoint_trial_id))
            log.append(("SSuggest %s true" % zlit(trial_id), "OSuggest %s %s" % (res, zlit(level))))
        return sug

    def on_trial_result(trial, result):
        d = o_res(trial, result)
        log.append(("SReport %s %s %s" % (zlit(int(trial.trial_id)), zlit(int(result["epoch"])), q(result["m"])),
                    "ODecision %s" % d))
        return d

    def on_trial_error(trial):
        o_err(trial)
        log.append(("SFail %s" % zlit(int(trial.trial_id)), "ONothing"))

    sch.suggest, sch.on_trial_result, sch.on_trial_error = suggest, on_trial_result, on_trial_error
    return log


def coq_shell_case(sch, kind, log):
    mode_max = (kind[2] if kind[0] == "synchb" and len(kind) > 2 else (kind[1] if kind[0] == "synchb_custom" else "min")) == "max"
    rungs = lst([lst(["(%s, %s)" % (natlit(int(sz)), zlit(int(lv))) for (sz, lv) in br]) for br in sch.bracket_manager.bracket_rungs])
    evs = lst(["(%s, %s)" % (e, o) for e, o in log]) if log else "[]"
    return "(%s, %s, %s)" % (blit(mode_max), rungs, evs)


SHELL_CASES = []     # (coq term, replay case) collected by parts A and S for the synchronous schedulers


def staged_sync(kind, seed):
    """Synchronous Hyperband / DEHB, first bracket, rung by rung (as the seeded demo, randomised): the rung is
    filled with jobs, a random subset of the pending jobs fails (on_trial_error) interleaved with the reports of
    the others, leaving at least as many valid results as the next rung has slots; the suggestions that follow the
    completion of the rung must not resume a trial the HARNESS recorded as failed (whatever value the scheduler
    stored for it), and for synchronous Hyperband they must all be resumes (the bracket does not wait)."""
    from syne_tune.backend.trial_status import Trial
    rng = random.Random(seed)
    sch = make_scheduler(kind, seed % 1000)
    synclog = record_sync(sch) if kind[0].startswith("synchb") else None
    t0 = datetime.datetime(2020, 1, 1)
    problems, trials, failed = [], {}, set()
    stats = dict(errors=0, stages=0, resumes=0)
    sink = io.StringIO()
    call = ["?"]
    is_dehb = kind[0] == "dehb"
    try:
        with contextlib.redirect_stdout(sink):
            call[0] = "suggest"
            sug = sch.suggest(0)          # initialises the searcher; bracket structure is public afterwards
            if is_dehb:
                rungs = [tuple(x) for x in sch.bracket_manager.bracket_rungs[0]] if hasattr(sch, "bracket_manager") else None
            else:
                rungs = [tuple(x) for x in sch.bracket_manager.bracket_rungs[0]]
            if rungs is None:
                return dict(problems=[], stats=stats)
            size0, level0 = rungs[0]
            members, pos = [], {}
            for tid in range(size0):
                if tid > 0:
                    call[0] = "suggest"
                    sug = sch.suggest(tid)
                if sug is None or not sug.spawn_new_trial_id:
                    return dict(problems=problems, stats=stats)
                trials[tid] = Trial(trial_id=tid, config=sug.config, creation_time=t0)
                call[0] = "on_trial_add"
                sch.on_trial_add(trials[tid])
                members.append(tid)
                pos[tid] = 0
            next_id = size0
            for ri, (size, level) in enumerate(rungs):
                nxt = rungs[ri + 1][0] if ri + 1 < len(rungs) else 0
                healthy_now = [t for t in members if t not in failed]
                max_fail = max(0, len(healthy_now) - max(nxt, 1))
                to_fail = set(rng.sample(healthy_now, rng.randint(1 if max_fail else 0, min(max_fail, 3))))
                order = list(members)
                rng.shuffle(order)
                for tid in order:
                    if tid in failed:
                        # a failed trial that was promoted for lack of valid results (documented exception) is failed again
                        call[0] = "on_trial_error"
                        sch.on_trial_error(trials[tid])
                        continue
                    if tid in to_fail:
                        upto = rng.randint(pos[tid], level - 1)        # fails before reaching the rung level
                        while pos[tid] < upto:
                            pos[tid] += 1
                            call[0] = "on_trial_result"
                            sch.on_trial_result(trials[tid], result(rng, pos[tid]))
                        call[0] = "on_trial_error"
                        sch.on_trial_error(trials[tid])
                        failed.add(tid)
                        stats["errors"] += 1
                        continue
                    d = "CONTINUE"
                    while pos[tid] < level:
                        pos[tid] += 1
                        call[0] = "on_trial_result"
                        d = sch.on_trial_result(trials[tid], result(rng, pos[tid]))
                    if d != "CONTINUE":
                        call[0] = "on_trial_remove"
                        sch.on_trial_remove(trials[tid])
                stats["stages"] += 1
                if not nxt:
                    break
                valid = [t for t in members if t not in failed]
                new_members = []
                for _ in range(nxt):
                    call[0] = "suggest"
                    sug = sch.suggest(next_id)
                    if sug is None:
                        break
                    if sug.spawn_new_trial_id:
                        if not is_dehb:
                            problems.append(("synchronous_bracket_waits_after_failure", ri, sorted(failed)))
                        trials[next_id] = Trial(trial_id=next_id, config=sug.config, creation_time=t0)
                        call[0] = "on_trial_add"
                        sch.on_trial_add(trials[next_id])
                        pos[next_id] = 0
                        next_id += 1
                        continue
                    tid = int(sug.checkpoint_trial_id)
                    stats["resumes"] += 1
                    if tid in failed and len(valid) >= nxt:
                        problems.append(("failed_trial_resumed", tid, "sync_rung_%d_valid_%d_slots_%d" % (ri, len(valid), nxt)))
                    if sug.config is not None:
                        trials[tid] = Trial(trial_id=tid, config=sug.config, creation_time=t0)
                    new_members.append(tid)
                if problems or len(new_members) < nxt:
                    break
                members = new_members
    except Exception as e:
        problems.append(("exception", call[0], type(e).__name__, str(e)[:160]))
    if synclog is not None:
        SHELL_CASES.append((coq_shell_case(sch, kind, synclog), dict(part="S", kind=list(kind), seed=seed)))
    return dict(problems=problems, stats=stats)


def directed_failed_after_report(kind, seed, nsug=14, before_report=False, fail_index=1):
    """A trial reports the best value seen so far and then fails; the following suggestions (model-based phase) must not
    propose its configuration again -- also with allow_duplicates=True."""
    from syne_tune.backend.trial_status import Trial
    rng = random.Random(seed)
    sch = make_scheduler(kind, seed % 1000)
    t0 = datetime.datetime(2020, 1, 1)
    problems, failed_cfg = [], None
    sink = io.StringIO()
    ef_calls = []
    srch_obj = searcher_of(sch)
    if srch_obj is not None and hasattr(srch_obj, "evaluation_failed"):
        _orig_ef = srch_obj.evaluation_failed

        def _counting_ef(trial_id, _orig=_orig_ef):
            ef_calls.append(str(trial_id))
            return _orig(trial_id)

        srch_obj.evaluation_failed = _counting_ef

    def after_error(tid):
        if srch_obj is not None and hasattr(srch_obj, "evaluation_failed") and ef_calls != [str(tid)]:
            problems.append(("searcher_not_told_once_about_failure", "directed", list(ef_calls), str(tid)))
        obs = observables(sch)
        if "pending" in obs and any(p[0] == str(tid) for p in obs["pending"]):
            problems.append(("pending_evaluations_wrong_after_failure", "directed", obs["pending"], str(tid)))

    try:
        with contextlib.redirect_stdout(sink):
            for i in range(nsug):
                sug = sch.suggest(i)
                if sug is None:
                    break
                if not sug.spawn_new_trial_id:
                    continue
                tr = Trial(trial_id=i, config=sug.config, creation_time=t0)
                sch.on_trial_add(tr)
                if failed_cfg is not None and hp(sug.config) == failed_cfg:
                    problems.append(("failed_configuration_suggested_again", failed_cfg, "suggestion #%d" % i))
                    break
                if i == fail_index and before_report:
                    sch.on_trial_error(tr)
                    failed_cfg = hp(sug.config)
                    after_error(i)
                    continue
                d = sch.on_trial_result(tr, {"m": 0.01 if i == fail_index else 0.2 + 0.7 * rng.random(), "m2": 0.5, "epoch": 1, "cost": 1.0})
                if i == fail_index:
                    if d != "CONTINUE":
                        sch.on_trial_remove(tr)
                    sch.on_trial_error(tr)
                    failed_cfg = hp(sug.config)
                    after_error(i)
                elif d != "CONTINUE":
                    sch.on_trial_remove(tr)
                else:
                    sch.on_trial_complete(tr, {"m": 0.2 + 0.7 * rng.random(), "m2": 0.5, "epoch": 1, "cost": 1.0})
    except Exception as e:
        problems.append(("exception", "directed_failed_after_report", type(e).__name__, str(e)[:160]))
    return problems


def result(rng, epoch):
    return {"m": rng.randint(1, 1000) / 1024.0, "m2": rng.randint(1, 1000) / 1024.0, "epoch": epoch,
            "cost": float(epoch)}


def signature_for(kind, prob):
    sig = dict(scheduler="/".join(kind), check=prob[0])
    if prob[0] == "failed_trial_resumed" and str(prob[2]).startswith("sync_rung"):
        sig.update(failed_how="pending_job_failed_before_rung_completion")
        return sig
    if prob[0] == "exception":
        sig.update(call=prob[1], exception=prob[2])
    if prob[0] == "failed_trial_resumed":
        sig.update(failed_how=prob[2])
    return sig


# ---------------------------------------------------------------------------------------------------
# (B) whole runs of the real Tuner
# ---------------------------------------------------------------------------------------------------
def make_backend_class():
    from syne_tune.backend.trial_backend import TrialBackend
    from syne_tune.backend.trial_status import TrialResult, Status
    from syne_tune.constants import ST_WORKER_TIMESTAMP
    from pathlib import Path

    class FaultyBackend(TrialBackend):
        """in-memory backend: every poll each in-progress trial emits its next epoch; runs listed in
        `bad` (trial_id -> (epoch, 'failed'|'stopped')) end with that status after that many epochs"""

        def __init__(self, bad, rng, max_epochs):
            super().__init__()
            self.bad, self.rng, self.max_epochs = dict(bad), rng, max_epochs
            self.tr, self.clock = {}, 0
            self.runs, self.run_polls = {}, {}

        def _schedule(self, trial_id, config):
            self.runs[trial_id] = self.runs.get(trial_id, 0) + 1
            self.run_polls[trial_id] = 0
            if trial_id not in self.tr:
                self.tr[trial_id] = TrialResult(trial_id=trial_id, config=config, creation_time=datetime.datetime(2020, 1, 1),
                                                status=Status.in_progress, metrics=[])
            else:
                self.tr[trial_id].status = Status.in_progress
                self.tr[trial_id].config = config

        def _all_trial_results(self, trial_ids):
            out = []
            for tid in trial_ids:
                t = self.tr[tid]
                if t.status == Status.in_progress:
                    plan = self.bad.get(tid)
                    self.run_polls[tid] = self.run_polls.get(tid, 0) + 1
                    if plan is not None and len(plan) > 3 and plan[3]:
                        # bad end only in a run that was resumed after a pause, plan[0] polls into that run
                        due = self.runs.get(tid, 0) >= 2 and self.run_polls[tid] > plan[0]
                    else:
                        due = plan is not None and len(t.metrics) >= plan[0]
                    if due:
                        if len(plan) > 2 and plan[2] and len(t.metrics) < self.max_epochs:
                            # the run's last report becomes visible in the same poll as its bad status
                            self.clock += 1
                            t.metrics.append({"m": self.rng.randint(1, 1000) / 1024.0, "epoch": len(t.metrics) + 1,
                                              ST_WORKER_TIMESTAMP: self.clock})
                        t.status = Status.failed if plan[1] == "failed" else Status.stopped
                        del self.bad[tid]
                    else:
                        self.clock += 1
                        ep = len(t.metrics) + 1
                        t.metrics.append({"m": self.rng.randint(1, 1000) / 1024.0, "epoch": ep, ST_WORKER_TIMESTAMP: self.clock})
                        if ep >= self.max_epochs:
                            t.status = Status.completed
                out.append(t)
            return out

        def _pause_trial(self, trial_id, result):
            self.tr[trial_id].status = Status.paused

        def _stop_trial(self, trial_id, result):
            self.tr[trial_id].status = Status.stopped

        def _resume_trial(self, trial_id):
            pass

        def busy_trial_ids(self):
            return [(t, x.status) for t, x in self.tr.items() if x.status in (Status.in_progress, Status.stopping)]

        def stdout(self, trial_id):
            return []

        def stderr(self, trial_id):
            return []

        def copy_checkpoint(self, src_trial_id, tgt_trial_id):
            pass

        def delete_checkpoint(self, trial_id):
            pass

        def entrypoint_path(self):
            return Path("verif_c13.py")

        def set_entrypoint(self, entry_point):
            pass

        def set_path(self, results_root=None, tuner_name=None):
            pass

    return FaultyBackend


STATUS_NAME = {"InProgress": "in_progress", "Completed": "completed", "Failed": "failed", "Stopped": "stopped",
               "Stopping": "stopping", "Paused": "paused"}
STATUS_COQ = {"in_progress": "S_InProgress", "completed": "S_Completed", "failed": "S_Failed", "stopped": "S_Stopped",
              "stopping": "S_Stopping", "paused": "S_Paused"}


def run_tuner(spec):
    """One run of the real Tuner. Returns dict(outcome, polls, errors_per_trial, bad, done_statuses)."""
    from syne_tune import Tuner
    from syne_tune.stopping_criterion import StoppingCriterion
    from syne_tune.tuner_callback import TunerCallback
    rng = random.Random(spec["seed"])
    kind = tuple(spec["kind"])
    sch = make_scheduler(kind, spec["seed"] % 1000)
    bad = {int(k): tuple(v) for k, v in spec["bad"].items()}
    backend = make_backend_class()(bad, rng, MAX_T)
    polls, cur = [], dict(statuses=None, results=None, calls=[], decisions={})
    stopped_by_sched = []

    orig_fetch = backend.fetch_status_results

    class PollCap(Exception):
        pass

    def fetch(trial_ids):
        if len(polls) > spec.get("poll_cap", 600):
            raise PollCap("harness poll cap reached; running = %r" % sorted(trial_ids))
        tsd, res = orig_fetch(trial_ids)
        if cur["statuses"] is not None:
            polls.append(dict(cur))
        # failure counts when this loop iteration begins (= what the loop's stop condition saw at the end of the previous
        # one): the tuner's public counter and the harness ground truth
        ts = getattr(tref.get("t"), "tuning_status", None)
        cur["nf_before"] = int(ts.num_trials_failed) if ts is not None else 0
        cur["gt_before"] = len(failed_seen)
        failed_seen.update(int(t) for t, (_, s) in tsd.items() if STATUS_NAME[s] == "failed")
        cur.update(statuses=[(int(t), STATUS_NAME[s]) for t, (_, s) in tsd.items()], results=[int(t) for t, _ in res], calls=[],
                   decisions={}, ss=list(stopped_by_sched))
        return tsd, res

    backend.fetch_status_results = fetch
    resumed, errored, failed_seen = [], [], set()
    orig_resume = backend.resume_trial

    def resume(trial_id, new_config=None):
        resumed.append((int(trial_id), int(trial_id) in errored or int(trial_id) in failed_seen))
        starts.append(("resumed", int(trial_id), len(polls), cur.get("nf_before", 0), cur.get("gt_before", 0)))
        return orig_resume(trial_id, new_config)

    backend.resume_trial = resume
    starts, tref = [], {}
    orig_start = backend.start_trial

    def start(config, checkpoint_trial_id=None):
        trial = orig_start(config, checkpoint_trial_id)
        starts.append(("started", int(trial.trial_id), len(polls), cur.get("nf_before", 0), cur.get("gt_before", 0)))
        return trial

    backend.start_trial = start
    o_res, o_rem, o_com, o_err = sch.on_trial_result, sch.on_trial_remove, sch.on_trial_complete, sch.on_trial_error

    def w_res(trial, result):
        d = o_res(trial, result)
        cur["calls"].append(("CResult", int(trial.trial_id)))
        cur["decisions"].setdefault(int(trial.trial_id), []).append(d)
        if d == "STOP":
            stopped_by_sched.append(int(trial.trial_id))
        return d

    def w_rem(trial):
        cur["calls"].append(("CRemove", int(trial.trial_id)))
        return o_rem(trial)

    def w_com(trial, result):
        cur["calls"].append(("CComplete", int(trial.trial_id)))
        return o_com(trial, result)

    def w_err(trial):
        cur["calls"].append(("CError", int(trial.trial_id)))
        errored.append(int(trial.trial_id))
        return o_err(trial)

    sch.on_trial_result, sch.on_trial_remove, sch.on_trial_complete, sch.on_trial_error = w_res, w_rem, w_com, w_err
    tuner = Tuner(trial_backend=backend, scheduler=sch, stop_criterion=StoppingCriterion(max_num_trials_started=spec["ntrials"]),
                  n_workers=spec["workers"], sleep_time=0.0, max_failures=spec["max_failures"], callbacks=[],
                  wait_trial_completion_when_stopping=bool(spec.get("wait", False)),
                  save_tuner=False, tuner_name="verif-c13", print_update_interval=1e9, results_update_interval=1e9)
    tref["t"] = tuner
    outcome = None
    sink = io.StringIO()
    try:
        with contextlib.redirect_stdout(sink), contextlib.redirect_stderr(sink):
            tuner.run()
    except ValueError as e:
        outcome = ("ValueError", str(e))
    except Exception as e:
        outcome = (type(e).__name__, str(e)[:200])
    if cur["statuses"] is not None:
        polls.append(dict(cur))
    return dict(outcome=outcome, polls=polls, planned=bad, status=tuner.tuning_status, resumed=resumed, starts=starts,
                num_failed=int(tuner.tuning_status.num_trials_failed), shown_failed=sorted(failed_seen))


def coq_poll(p, with_calls=True):
    # decisions in result order; results of trials already done in this poll get no scheduler call: any decision
    dec_iter = {t: list(ds) for t, ds in p["decisions"].items()}
    res = []
    for t in p["results"]:
        ds = dec_iter.get(t, [])
        d = ds.pop(0) if ds else "CONTINUE"
        res.append("(%s, %s)" % (zlit(t), d))
    sts = ["(%s, %s)" % (zlit(t), STATUS_COQ[s]) for t, s in p["statuses"]]
    cs = ["%s %s" % (c, zlit(t)) for c, t in p["calls"]]
    sts_t = lst(sts) if sts else "(@nil (Z * status))"
    res_t = lst(res) if res else "(@nil (Z * decision))"
    ss_t = lst([zlit(t) for t in p["ss"]]) if p["ss"] else "(@nil Z)"
    if not with_calls:
        return "(%s, %s, %s)" % (sts_t, res_t, ss_t)
    return "(%s, %s, %s, %s)" % (sts_t, res_t, ss_t, lst(cs) if cs else "(@nil call)")


def run(ctx, replay=None):
    logging.disable(logging.CRITICAL)
    tmp = tempfile.mkdtemp(prefix="verif-c13-")
    os.environ["SYNETUNE_FOLDER"] = tmp
    try:
        _run(ctx, replay)
    finally:
        shutil.rmtree(tmp, ignore_errors=True)


def _run(ctx, replay):
    ctx.rule = ("cases: (A) for each of 17 scheduler/searcher kinds, harness-enumerated failure placements "
                "(before first report, between reports, after a resume, in the poll of a STOP/PAUSE report; 1-2 failures) "
                "x seeds, 60-140 mini-tuner steps; (B) real Tuner runs (FIFO, Hyperband stopping/promotion, synchronous "
                "Hyperband) with a faulty backend, 0-4 bad runs, max_failures 0..3, incl. runs whose limit is exceeded early while "
                "other trials run and the stopping criterion is far away (nothing may be started while winding down); (C) failure-heavy Hyperband+GP histories "
                "against the model; non-trivial = at least one on_trial_error was delivered and the run went on for >= 10 "
                "further steps (A), at least one failed/externally stopped run (B); distinct by content hash")
    rng = ctx.rng
    # ---------------- (A) placements ------------------------------------------------------------------
    todo = []
    if replay is not None and replay.get("part") == "D":
        kind = tuple(replay["kind"])
        for prob in directed_same_poll(kind, replay["seed"]):
            ctx.violation("property", "scheduler %s: a trial that failed in the poll of its PAUSE report is resumed by a "
                          "later suggest: %r" % ("/".join(kind), prob), case=replay, signature=signature_for(kind, prob))
    if replay is not None and replay.get("part") == "A":
        todo = [(tuple(replay["kind"]), replay["seed"], [tuple(p) for p in replay["plan"]], replay["nsteps"], replay["workers"])]
    elif replay is None:
        # directed: the same-poll placement on promotion schedulers (finding F-C13-1 is reproduced by it)
        for kind in (("hb", "promotion", "random"), ("hb", "promotion", "bayesopt"), ("hb", "rush_promotion", "random"),
                     ("hb", "cost_promotion", "random")):
            case = dict(part="D", kind=list(kind), seed=2)
            probs = directed_same_poll(kind, 2)
            ctx.count(case, nontrivial=True)
            ctx.h("D_directed_same_poll", "/".join(kind) + (":resumed" if probs else ":ok"))
            for prob in probs:
                ctx.violation("property", "scheduler %s: a trial that failed in the poll of its PAUSE report is resumed "
                              "by a later suggest: %r" % ("/".join(kind), prob), case=case, signature=signature_for(kind, prob))
        reps = ctx.n(2, 12)
        for kind in KINDS:
            for placement in PLACEMENTS[:3]:
                for _ in range(reps):
                    plan = [(placement, rng.randint(1, 4))]
                    if rng.random() < 0.4:
                        plan.append((rng.choice(PLACEMENTS[:3]), rng.randint(2, 8)))
                    todo.append((kind, rng.randrange(10 ** 6), plan, rng.randint(60, 140), rng.randint(2, 4)))
            # the same-poll placement is only generated for schedulers that never resume (a stopped trial that also
            # failed); for pause/resume schedulers it is the directed case above
            if kind[0] in ("fifo", "msr", "moasha") or (kind[0] == "hb" and "stopping" in kind[1]):
                for _ in range(reps):
                    todo.append((kind, rng.randrange(10 ** 6), [("with_decision_report", 1)], rng.randint(60, 120), rng.randint(2, 4)))
    dd = []
    if replay is not None and replay.get("part") == "F":
        dd = [(tuple(replay["kind"]), replay["seed"])]
    elif replay is None:
        for kind in (("hb", "stopping", "bayesopt_dup"), ("hb", "promotion", "bayesopt_dup")):
            dd += [(kind, rng.randrange(10 ** 6)) for _ in range(ctx.n(5, 40))]
        # random searcher drawing from restrict_configurations (4 configurations) with allow_duplicates=True
        for kind in (("fifo", "random_rc_dup"), ("hb", "stopping", "random_rc_dup"), ("hb", "promotion", "random_rc_dup")):
            dd += [(kind, rng.randrange(10 ** 6)) for _ in range(ctx.n(4, 40))]
        # multi-objective wrapper: failure before the first completion of the run
        for kind in (("lss", "random_dup3"), ("lss", "bayesopt"), ("lss", "random")):
            dd += [(kind, rng.randrange(10 ** 6)) for _ in range(ctx.n(3, 30))]
        # single-fidelity bayesopt run past max_size_data_for_model after a failure (before / after the first report)
        dd += [(("fifo", "bayesopt_cap"), rng.randrange(10 ** 6)) for _ in range(ctx.n(6, 60))]
    for kind, seed in dd:
        case = dict(part="F", kind=list(kind), seed=seed)
        probs = directed_failed_after_report(kind, seed, nsug=70 if kind[-1] == "random_rc_dup" else 14,
                                             before_report=((kind[-1] == "bayesopt_cap" or kind[0] == "lss") and seed % 2 == 0),
                                             fail_index=0 if kind[0] == "lss" else 1)     # lss: before any completion
        ctx.count(case, nontrivial=True)
        ctx.h("F_failed_after_report", "/".join(kind) + (":resuggested" if probs else ":ok"))
        for prob in probs:
            ctx.violation("property", "scheduler %s (directed failure scenario), seed %d: %r" % (
                "/".join(kind), seed, prob), case=case, signature=signature_for(kind, prob))
    staged = []
    if replay is not None and replay.get("part") == "S":
        staged = [(tuple(replay["kind"]), replay["seed"])]
    elif replay is None:
        for kind in (("synchb", "random", "min"), ("synchb", "random", "max"), ("synchb", "bayesopt", "max"),
                     ("synchb_custom", "min"), ("synchb_custom", "max"), ("dehb", "min"), ("dehb", "max")):
            for _ in range(ctx.n(6, 60)):
                staged.append((kind, rng.randrange(10 ** 6)))
    for kind, seed in staged:
        res = staged_sync(kind, seed)
        case = dict(part="S", kind=list(kind), seed=seed)
        ctx.count(case, nontrivial=res["stats"]["errors"] >= 1 and res["stats"]["resumes"] >= 1)
        ctx.traces_validated += 1
        ctx.h("S_kind", "/".join(kind))
        ctx.h("S_errors", res["stats"]["errors"])
        ctx.h("S_resumes_checked", res["stats"]["resumes"])
        for prob in res["problems"]:
            ctx.h("S_problems", prob[0])
            ctx.violation("property", "scheduler %s, rung-by-rung scenario seed %d: %r" % ("/".join(kind), seed, prob[:5]),
                          case=case, signature=signature_for(kind, prob))
    for (kind, seed, plan, nsteps, workers) in todo:
        res = run_placement(kind, seed, plan, nsteps, workers)
        case = dict(part="A", kind=list(kind), seed=seed, plan=[list(p) for p in plan], nsteps=nsteps, workers=workers)
        st = res["stats"]
        ctx.count(case, nontrivial=st["errors"] >= 1 and st["steps"] >= 10)
        ctx.traces_validated += 1
        ctx.h("A_kind", "/".join(kind))
        ctx.h("A_errors_delivered", st["errors"])
        for p in plan:
            ctx.h("A_placement_planned", p[0])
        if kind[0].startswith("synchb") and st["errors"] >= 1 and st["steps"] >= nsteps - 1 and nsteps >= 100 and \
                st["resumes_after_failure"] == 0:
            res["problems"].append(("synchronous_bracket_never_promotes_after_failure", st))
        if any(pr[0] == "exception" for pr in res["problems"]) and plan:
            # control: the same run without any failure; an exception that occurs there as well is not
            # caused by the failure handling (reported in the evidence notes, not as a C13 violation)
            ctl = run_placement(kind, seed, [], nsteps, workers)
            ctl_exc = [pr[1:3] for pr in ctl["problems"] if pr[0] == "exception"]
            keep = []
            for pr in res["problems"]:
                if pr[0] == "exception" and pr[1:3] in ctl_exc:
                    ctx.h("A_exception_also_without_failure", "/".join(kind) + ":" + pr[2])
                    note = "scheduler %s raises %s in %s also WITHOUT any failure (seed %d): %s" % (
                        "/".join(kind), pr[2], pr[1], seed, pr[3])
                    if note not in ctx.notes and len(ctx.notes) < 5:
                        ctx.notes.append(note)
                else:
                    keep.append(pr)
            res["problems"] = keep
        for prob in res["problems"]:
            ctx.h("A_problems", prob[0])
            ctx.violation("property", "scheduler %s, failure plan %r: %r" % ("/".join(kind), plan, prob[:5]),
                          case=case, signature=signature_for(kind, prob))
        if len(ctx.samples) < 2 and st["errors"]:
            ctx.sample(dict(part="A", case=case, stats=st))

    # ---------------- (B) whole Tuner runs -------------------------------------------------------------
    specs = []
    if replay is not None and replay.get("part") == "B":
        specs = [replay["spec"]]
    elif replay is None:
        for _ in range(ctx.n(40, 400)):
            kind = rng.choice([("fifo", "random"), ("hb", "stopping", "random"), ("hb", "promotion", "random"),
                               ("synchb", "random"), ("hb", "promotion", "bayesopt")])
            ntr = rng.randint(4, 9)
            nbad = rng.randint(0, 4)
            bad = {}
            for t in rng.sample(range(ntr), min(nbad, ntr)):
                bad[str(t)] = [rng.choice([0, 0, 1, 2, 4]), rng.choice(["failed", "failed", "stopped"]), rng.random() < 0.4]
            specs.append(dict(kind=list(kind), seed=rng.randrange(10 ** 6), ntrials=ntr, workers=rng.randint(1, 3),
                              max_failures=rng.randint(0, 3), bad=bad, wait=rng.random() < 0.5))
        # the limit is exceeded while other trials keep running and the tuner waits for them
        for _ in range(ctx.n(12, 120)):
            kind = rng.choice([("fifo", "random"), ("fifo", "random"), ("hb", "stopping", "random"), ("msr",)])
            ntr = rng.randint(4, 8)
            mf = rng.randint(0, 2)
            early = rng.sample(range(min(ntr, 3)), min(mf + 1, min(ntr, 3)))
            bad = {str(t): [rng.choice([0, 0, 1]), "failed", False] for t in early}
            if len(early) <= mf:      # not enough early failures to exceed the limit: add later ones
                for t in rng.sample(range(3, ntr), min(mf + 1 - len(early), ntr - 3)):
                    bad[str(t)] = [rng.choice([0, 1]), "failed", False]
            specs.append(dict(kind=list(kind), seed=rng.randrange(10 ** 6), ntrials=ntr, workers=rng.randint(2, 4),
                              max_failures=mf, bad=bad, wait=True))
        # synchronous Hyperband / DEHB with failure rates so high that a completed rung has fewer valid results than
        # the next rung has slots; max_failures large: only the failure limit may end the run with an error
        for _ in range(ctx.n(18, 200)):
            kind = rng.choice([("synchb", "random"), ("synchb", "random", "max"), ("synchb_custom", "min"),
                               ("synchb_custom", "max"), ("dehb",), ("dehb", "max")])
            ntr = rng.randint(8, 20)
            rate = rng.choice([0.6, 0.8, 1.0])
            bad = {str(t): [rng.choice([0, 0, 1]), "failed", False] for t in range(ntr) if rng.random() < rate}
            specs.append(dict(kind=list(kind), seed=rng.randrange(10 ** 6), ntrials=ntr, workers=rng.choice([1, 1, 2, 4]),
                              max_failures=100, bad=bad, wait=rng.random() < 0.3))
        # trials stopped from outside the scheduler: after they were paused and resumed, and never-paused ones (control)
        for _ in range(ctx.n(16, 160)):
            kind = rng.choice([("hb", "promotion", "random"), ("hb", "promotion", "random"), ("synchb", "random"),
                               ("synchb_custom", "min"), ("pbt",), ("hb", "rush_promotion", "random")])
            ntr = rng.randint(8, 16)
            bad = {}
            for t in range(ntr):
                u = rng.random()
                if u < 0.5:
                    bad[str(t)] = [rng.choice([0, 0, 1]), "stopped", False, True]       # after pause -> resume
                elif u < 0.65:
                    bad[str(t)] = [rng.choice([0, 1, 2]), "stopped", False]             # never paused before
            specs.append(dict(kind=list(kind), seed=rng.randrange(10 ** 6), ntrials=ntr, workers=rng.choice([1, 2, 3]),
                              max_failures=100, bad=bad, wait=rng.random() < 0.3, poll_cap=400))
        # a job crashes right after a report the scheduler answers with STOP/PAUSE (both in one poll); small limits
        for _ in range(ctx.n(10, 100)):
            kind = rng.choice([("hb", "promotion", "random"), ("hb", "stopping", "random"), ("hb", "stopping", "random"),
                               ("synchb", "random"), ("msr",)])
            ntr = rng.randint(5, 10)
            bad = {str(t): [rng.choice([0, 0, 2]), "failed", True] for t in range(ntr) if rng.random() < 0.5}
            specs.append(dict(kind=list(kind), seed=rng.randrange(10 ** 6), ntrials=ntr, workers=rng.randint(1, 3),
                              max_failures=rng.choice([0, 0, 1]), bad=bad, wait=rng.random() < 0.3))
        # the limit is exceeded early, other trials still run, the tuner waits for them, and the ordinary stopping
        # criterion is far away: nothing new may be started while waiting (own generator: earlier streams unchanged)
        rngv = random.Random("C13-limit-wait-%d" % ctx.seed)
        for _ in range(ctx.n(10, 100)):
            kind = rngv.choice([("fifo", "random"), ("fifo", "random"), ("hb", "stopping", "random"), ("hb", "promotion", "random"),
                                ("msr",), ("synchb", "random"), ("pbt",), ("fifo", "bayesopt")])
            workers = rngv.randint(2, 4)
            mf = rngv.randint(0, 2)
            # mf + 1 early failures among the first trials, but at least one of the first `workers` trials runs long
            first = list(range(workers + mf + 1))
            survivor = rngv.randrange(workers)
            early = rngv.sample([t for t in first if t != survivor], mf + 1)
            bad = {str(t): [rngv.choice([0, 0, 1]), "failed", False] for t in early}
            specs.append(dict(kind=list(kind), seed=rngv.randrange(10 ** 6), ntrials=rngv.randint(20, 30), workers=workers,
                              max_failures=mf, bad=bad, wait=rngv.random() < 0.8, poll_cap=400))
        # directed (b-ckpt's scenario): one worker, every job fails before its first report
        specs.append(dict(kind=["synchb_custom", "min"], seed=2, ntrials=10, workers=1, max_failures=100,
                          bad={str(t): [0, "failed", False] for t in range(10)}, wait=False))
        # directed: a trial that fails right after the report that is answered with PAUSE (both seen in one poll)
        specs.append(dict(kind=["hb", "promotion", "random"], seed=2, ntrials=12, workers=3, max_failures=3,
                          bad={"0": [0, "failed", True]}))
    polls_coq, polls_meta, ends_coq, ends_meta = [], [], [], []
    for spec in specs:
        res = run_tuner(spec)
        case = dict(part="B", spec=spec)
        ctx.traces_validated += 1
        errs_total, bad_total, failed_ids = 0, 0, []
        if res["outcome"] is not None and res["outcome"][0] == "PollCap":
            ctx.violation("property", "Tuner run does not terminate: after %d polls the harness poll cap was reached (%s); "
                          "spec %r" % (len(res["polls"]), res["outcome"][1], spec), case=case,
                          signature=dict(part="tuner", check="run_does_not_terminate", scheduler="/".join(spec["kind"])))
        n_ext_after_resume = 0
        for pi, p in enumerate(res["polls"]):
            if pi + 1 < len(res["polls"]):
                nxt = dict(res["polls"][pi + 1]["statuses"])
                for t, st_ in p["statuses"]:
                    if st_ in ("stopped", "failed") and nxt.get(t) == st_:
                        ctx.violation("property", "Tuner poll #%d: trial %d has status %s but is still in the running set at the "
                                      "next poll (worker never freed)" % (pi, t, st_), case=case,
                                      signature=dict(part="tuner", check="ended_trial_stays_in_running_set", status=st_))
                        break
            per = {}
            for c, t in p["calls"]:
                if c == "CError":
                    per[t] = per.get(t, 0) + 1
            stopped_now = {t for t, ds in p["decisions"].items() if "STOP" in ds}
            decided_now = {t for t, ds in p["decisions"].items() if ds and ds[-1] in ("STOP", "PAUSE")}
            for t, s in p["statuses"]:
                bad_end = s == "failed" or (s == "stopped" and t not in set(p["ss"]) | stopped_now)
                n = per.pop(t, 0)
                if s == "failed":
                    failed_ids.append(t)
                if bad_end:
                    bad_total += 1
                    if s == "stopped" and any(tt == t for (tt, _) in res["resumed"]):
                        n_ext_after_resume += 1
                # exactly one on_trial_error per badly ended run; if the scheduler itself ended the run in the same
                # poll (STOP/PAUSE for one of the new results) it has been told by on_trial_remove: 0 or 1 accepted
                ok = (n == 1) if (bad_end and t not in decided_now) else (n <= 1 if bad_end else n == 0)
                errs_total += n
                if not ok:
                    ctx.violation("property", "Tuner poll #%d: trial %d with status %s got %d on_trial_error calls "
                                  "(decisions in this poll: %r)" % (pi, t, s, n, p["decisions"].get(t)), case=case,
                                  signature=dict(part="tuner", check="not_notified_exactly_once", status=s))
            for t, n in per.items():
                ctx.violation("property", "Tuner poll #%d: on_trial_error for trial %d that was not polled" % (pi, t), case=case,
                              signature=dict(part="tuner", check="on_trial_error_for_unpolled_trial"))
            polls_coq.append(coq_poll(p))
            polls_meta.append(dict(part="B", spec=spec, poll=dict(statuses=p["statuses"], results=p["results"],
                                                                   calls=p["calls"], ss=p["ss"])))
        bad_runs = bad_total
        ctx.count(case, nontrivial=bool(bad_runs))
        ctx.h("B_kind", "/".join(spec["kind"]))
        ctx.h("B_bad_runs", bad_runs)
        ctx.h("B_max_failures", spec["max_failures"])
        ctx.h("B_on_trial_error_calls", errs_total)
        ctx.h("B_external_stops_after_pause_resume", min(n_ext_after_resume, 5))
        for (t, was_errored) in res["resumed"]:
            if was_errored and spec["kind"][0] == "hb":
                ctx.h("B_errored_trial_resumed", "/".join(spec["kind"]))
                ctx.violation("property", "Tuner run: trial %d, whose run ended with status failed / on_trial_error (in the poll "
                              "that also delivered its report answered with PAUSE), is resumed later (spec %r)" % (t, spec), case=case,
                              signature=dict(scheduler="/".join(spec["kind"]), check="failed_trial_resumed",
                                             failed_how="with_pause_report", part="tuner"))
                break
        nfailed = len(set(failed_ids))
        out = res["outcome"]
        ctx.h("B_outcome", "error" if out else "ok")
        named = None
        if out is not None and out[0] != "PollCap":
            if out[0] != "ValueError" or not out[1].startswith("Trial - ") or not out[1].endswith(" failed"):
                sig = dict(part="tuner", check="unexpected_exception", exception=out[0], scheduler="/".join(spec["kind"]),
                           family=spec["kind"][0], failure_rate_high=len(spec["bad"]) * 2 >= spec["ntrials"])
                # a resume suggestion for a trial the scheduler was told (on_trial_error) has failed, never paused:
                # synchronous get_top_list promotes failed entries when fewer valid results than next-rung slots exist
                errored_resumed = [t for (t, was) in res["resumed"] if was]
                if out[0] == "AssertionError" and "Cannot resume trial_id" in out[1] and errored_resumed and \
                        spec["kind"][0] in ("synchb", "synchb_custom", "dehb"):
                    sig = dict(scheduler="synchronous_hyperband" if spec["kind"][0] != "dehb" else "dehb",
                               event="failed_trial_promoted_then_resume_trial_asserts", valid_lt_next_rung_slots=True)
                    ctx.h("B_failed_trial_promoted_resume_asserts", "/".join(spec["kind"]))
                ctx.violation("property", "Tuner run ended with an exception other than the failure-limit error: %r "
                              "(max_failures=%d, failed runs=%d, spec %r)" % (out, spec["max_failures"], len(set(failed_ids)), spec),
                              case=case, signature=sig)
            else:
                named = int(out[1][len("Trial - "):-len(" failed")])
                if named not in failed_ids:
                    ctx.violation("property", "error names trial %d which did not fail (failed: %r)" % (named, failed_ids),
                                  case=case, signature=dict(part="tuner", check="error_names_non_failed_trial"))
        # ground truth of the harness backend: the runs it reported as failed to the loop. A STOP/PAUSE answer in the
        # same poll does not un-fail a job. (Runs in which a failed trial is later resumed -- known finding F-C13-1 --
        # change the trial's last status and are left to that finding.)
        shown = res["shown_failed"]
        failed_resumed = any(was for (_, was) in res["resumed"])
        ctx.h("B_ground_truth_failures", min(len(shown), 6))
        if not failed_resumed and (out is None or named is not None):
            if res["num_failed"] != len(shown):
                ctx.violation("property", "the backend showed %d failed runs %r to the tuning loop but TuningStatus counts %d failed "
                              "trials (spec %r)" % (len(shown), shown, res["num_failed"], spec), case=case,
                              signature=dict(part="tuner", check="failed_count_differs_from_ground_truth"))
            if len(shown) > spec["max_failures"] and out is None:
                ctx.violation("property", "%d runs failed (%r) > max_failures = %d but Tuner.run() returned normally (spec %r)" % (
                    len(shown), shown, spec["max_failures"], spec), case=case,
                    signature=dict(part="tuner", check="failure_limit_not_enforced", ground_truth=True))
            if named is not None and named not in shown:
                ctx.violation("property", "error names trial %d which the backend never reported as failed (%r)" % (named, shown),
                              case=case, signature=dict(part="tuner", check="error_names_non_failed_trial", ground_truth=True))
        ctx.h("B_wait_trial_completion", bool(spec.get("wait", False)))
        later_polls = 0
        seen_excess = False
        for p in res["polls"]:
            if seen_excess and p["statuses"]:
                later_polls += 1
            if len({t for q_ in res["polls"][:res["polls"].index(p) + 1] for t, s_ in q_["statuses"] if s_ == "failed"}) > spec["max_failures"]:
                seen_excess = True
        ctx.h("B_polls_after_limit_exceeded", min(later_polls, 6))
        # exceeding the limit ends the run with an error naming a failed trial (num_failed as the tuner counts it:
        # public TuningStatus.num_trials_failed), and only then
        if res["num_failed"] > spec["max_failures"] and out is None:
            ctx.violation("property", "num_trials_failed = %d > max_failures = %d but Tuner.run() returned normally "
                          "(wait_trial_completion_when_stopping=%r, %d polls after the limit was exceeded)" % (
                              res["num_failed"], spec["max_failures"], spec.get("wait", False), later_polls),
                          case=case, signature=dict(part="tuner", check="failure_limit_not_enforced"))
        # once the number of failed trials exceeds max_failures the run winds down: trials scheduled in the very iteration
        # whose poll showed the excess are tolerated (the loop evaluates its stop condition at the end of an iteration);
        # from the next iteration on nothing may be started or resumed, whatever wait_trial_completion_when_stopping says
        late = [st_ for st_ in res["starts"] if st_[3] > spec["max_failures"] or
                (st_[4] > spec["max_failures"] and not failed_resumed)]
        ctx.h("B_starts_after_limit_exceeded", min(len(late), 3))
        if late:
            how, t, pi, nf, gt = late[0]
            ctx.violation("property", "Tuner run: trial %d is %s in loop iteration #%d although the failure limit was already "
                          "exceeded when that iteration began (num_trials_failed = %d, failed runs shown by the backend = %d, "
                          "max_failures = %d, wait_trial_completion_when_stopping=%r); %d trials started/resumed after the limit "
                          "was exceeded, outcome %r (spec %r)" % (t, how, pi, nf, gt, spec["max_failures"],
                                                                  bool(spec.get("wait", False)), len(late), out, spec),
                          case=case, signature=dict(part="tuner", check="trial_started_after_failure_limit_exceeded",
                                                    wait=bool(spec.get("wait", False))))
        if named is not None and nfailed <= spec["max_failures"]:
            ctx.violation("property", "failed runs = %d <= max_failures = %d, but outcome %r" % (nfailed, spec["max_failures"], out),
                          case=case, signature=dict(part="tuner", check="error_below_failure_limit"))
        # end of run against the model: done statuses in the order trials finished (last status per trial)
        order, last = [], {}
        for p in res["polls"]:
            ss_after = set(p["ss"]) | {t for t, ds in p["decisions"].items() if "STOP" in ds}
            for t, s in p["statuses"]:
                fin = None
                if s == "failed":
                    fin = "failed"
                elif s == "stopped" and t not in ss_after:
                    fin = "stopped"
                elif t in p["decisions"] and p["decisions"][t][-1] == "STOP":
                    fin = "completed" if s == "completed" else "stopped"
                elif t in p["decisions"] and p["decisions"][t][-1] == "PAUSE":
                    fin = "paused"
                elif s == "completed":
                    fin = "completed"
                if fin is not None:
                    if t not in last:
                        order.append(t)
                    last[t] = fin
        # the model's failure count is that of the accumulated done dict; the tuner counts in TuningStatus (which also
        # sees a failed trial that is running again): compare the end of the run only when the two counts agree
        if not any(was for (_, was) in res["resumed"]) and (out is None or named is not None):
            pl = [coq_poll(p, with_calls=False) for p in res["polls"]]
            ends_coq.append("(%s, %s, %s, %s)" % (natlit(spec["max_failures"]), lst(pl) if pl else "(@nil poll_in)",
                                                  "None" if named is None else "(Some %s)" % zlit(named),
                                                  natlit(res["num_failed"])))
            ends_meta.append(dict(part="B", spec=spec, done=[(t, last[t]) for t in order], outcome=out))
        else:
            ctx.h("B_end_not_compared_counts_differ", 1)
    if polls_coq:
        for i in ctx.coq_bad_cases("poll", IMPORTS, PRELUDE, "chk_poll", polls_coq, shard=300):
            ctx.violation("correspondence", "model/Failure.v update_running_trials differs from Tuner._update_running_trials "
                          "on poll %r" % (polls_meta[i]["poll"],), case=polls_meta[i], failing_input=False,
                          broken="correspondence chk_poll (model/Failure.v update_running_trials)")
        for i in ctx.coq_bad_cases("end", IMPORTS, PRELUDE, "chk_end", ends_coq, shard=300):
            ctx.violation("correspondence", "model/Failure.v run_end differs from the Tuner's end of run: %r" % (ends_meta[i],),
                          case=ends_meta[i], failing_input=False, broken="correspondence chk_end (model/Failure.v run_end)")

    # ---------------- synchronous scheduler shell against model/Failure.v shell_step -----------------------
    if SHELL_CASES:
        terms = [c for c, _ in SHELL_CASES]
        ctx.h("shell_cases", "count", len(terms))
        bad = ctx.coq_bad_cases("shell", IMPORTS, PRELUDE, "chk_shell", terms, shard=12)
        if bad:
            diag = ctx.coq_eval("shelldiag", IMPORTS, PRELUDE, ["diag_shell %s" % terms[i] for i in bad[:4]])
            for i, d in zip(bad[:4], diag):
                ctx.violation("correspondence", "model/Failure.v shell_step differs from the synchronous Hyperband scheduler: "
                              "shell_diff = %s (>=0 index of the first event with a different answer, <=-2 model error at "
                              "event -2-i)" % d, case=SHELL_CASES[i][1], failing_input=False,
                              broken="correspondence chk_shell (model/Failure.v shell_step / shell_observe)")
        del SHELL_CASES[:]

    # ---------------- (C) asynchronous Hyperband + GP searcher against model/SearcherData.v ------------
    if replay is None or replay.get("part") == "C":
        from drivers import c14
        cases, meta = [], []
        if replay is not None:
            specs_c = [(replay["spec"], replay.get("ops"))]
        else:
            specs_c = []
            for _ in range(ctx.n(60, 600)):
                spec = c14.gen_spec(rng)
                spec.update(p_fail=rng.choice([0.15, 0.3]), p_fail_after_decision=rng.choice([0.0, 0.3, 0.6]), p_complete=0.02)
                specs_c.append((spec, None))
        for spec, ops in specs_c:
            res = c14.run_case(spec, ops)
            case = dict(part="C", spec=spec, ops=res["ops"])
            kinds = [e.split()[0] for e in res["events"] if e]
            ctx.count(case, nontrivial=kinds.count("Fail") >= 1 and len(kinds) >= 10)
            ctx.h("C_fail_events", min(kinds.count("Fail"), 8))
            ctx.traces_validated += 1
            if res["exc"] is not None:
                ctx.violation("property", "Hyperband %s raised %s at %r after failures" % (spec["type"], res["exc"], res["ops"][-1]),
                              case=case, signature=dict(scheduler="hb/%s/%s" % (spec["type"], spec["searcher"]), check="exception",
                                                        exception=res["exc"].split(":")[0]))
            for pr in res["problems"]:
                if len(pr) == 3 and any(b[0].startswith("pending") for b in pr[2]):
                    ctx.violation("property", "after %r pending evaluations are wrong: %r" % (pr[1], pr[2][:3]), case=case,
                                  signature=dict(scheduler="hb/%s/%s" % (spec["type"], spec["searcher"]), check=pr[2][0][0]))
            cases.append(c14.coq_case(spec, res))
            meta.append(case)
        if cases:
            bad = ctx.coq_bad_cases("async", c14.IMPORTS, c14.PRELUDE, "chk_case", cases, shard=40)
            if bad:
                diag = ctx.coq_eval("asyncdiag", c14.IMPORTS, c14.PRELUDE, ["diag_case %s" % cases[i] for i in bad[:4]])
                for i, d in zip(bad[:4], diag):
                    ctx.violation("correspondence", "model/SearcherData.v differs from Hyperband+GP searcher on a "
                                  "failure-heavy history: first_diff = %s" % d, case=meta[i], failing_input=False,
                                  broken="correspondence chk_case (model/SearcherData.v step, failure paths)")
