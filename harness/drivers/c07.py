"""C07 — correspondence of coq/model/Domain.v with syne_tune/config_space.py and
syne_tune/optimizer/schedulers/searchers/utils/{hp_ranges,hp_ranges_impl,scaling,hp_ranges_factory}.py
and the independent checker (membership / round trip / active range / JSON) on the real code's outputs.

Every case = one call of one public method of a real object.  The observed output is put inside the
Coq case term; `chk` (vm_compute) recomputes it with the model.  log/exp are NOT computed by the model:
for log / reverse-log domains the case carries a table of the numpy answers at the points the code asks
(the model looks its exact argument up with a 1e-9 relative key tolerance, so a model that asks at the
wrong point fails).  Discrete outputs must be equal; continuous ones within 1e-9 of the operand scale.
A discrete mismatch is accepted only if the model gives the implementation's answer when its scalar
input is moved by +-1e-9 (binary64 round-off at a rounding threshold); those are counted as `boundary`.
"""
import json
import math
import os

import numpy as np

from common import q, lst, zlit, natlit, blit, optlit

EPS = 1e-8
IMPORTS = "From Verif Require Import model.Base model.Domain.\nFrom Coq Require Import Qabs.\nOpen Scope Q_scope.\n"

PRELUDE = r"""
Definition tol : Q := 1 # 1000000000.
Definition eps : Q := %s.
Definition ebase : Q := %s.
Definition Qmax3 (a b c : Q) : Q := let m := if Qltb a b then b else a in if Qltb m c then c else m.
(* recorded numpy answers; strict nearest-key lookup *)
Definition tbl := list (Q * Q).
Definition poison : Q := -(987654321 # 1).
Definition tbl_fn (t : tbl) (x : Q) : Q :=
  match t with
  | [] => poison
  | e :: r =>
      let b := fold_left (fun b e' => if Qltb (Qabs (fst e' - x)) (Qabs (fst b - x)) then e' else b) r e in
      if Qleb (Qabs (fst b - x)) (tol * Qmax3 1 (Qabs x) 0) then snd b else poison
  end.
Definition tsc_log (t f : tbl) : scaling :=
  {| to_int := tbl_fn t; from_int := tbl_fn f; sc_dom := fun x => Qltb 0 x |}.
Definition tsc_rev (t f : tbl) : scaling :=
  {| to_int := tbl_fn t; from_int := tbl_fn f; sc_dom := fun x => Qleb 0 x && Qltb x 1 |}.

Inductive obs := ONone | OV (v : val) | OVec (l : list Q) | OBnd (l : list (Q * Q)) | OB (b : bool)
               | OVals (l : list val) | ODom (d : domain).
Definition dspec := (domain * option domain)%%type.
Inductive op :=
| OpSample (d : domain) (r : raw)
| OpCast (d : domain) (x : val)
| OpMember (d : domain) (x : val)
| OpToNd (ds : list dspec) (xs : list val)
| OpFromNd (ds : list dspec) (v : list Q)
| OpBounds (ds : list dspec) (fixed : option val)
| OpJson (d : domain)
| OpSampleSize (d : domain) (rs : list raw)
| OpRandomConfig (ds : list dspec) (fixed : option (nat * val)) (rs : list raw).

Definition ov (o : option val) : obs := match o with Some v => OV v | None => ONone end.
(* make_hyperparameter_ranges = the model's [space_ranges] (the function the end-to-end theorems are
   about); JSON = the model's space-level [cs_json_roundtrip] on {"x": d, "const": 3} *)
Definition ranges_of (sl sr : scaling) (ds : list dspec) : option (list hprange) :=
  space_ranges eps sl sr ds.
Definition run_op (sl sr : scaling) (o : op) : obs :=
  match o with
  | OpSample d r => ov (dom_sample sl sr d r)
  | OpCast d x => ov (dom_cast sl d x)
  | OpMember d x => OB (dom_member sl d x)
  | OpToNd ds xs =>
      match ranges_of sl sr ds with
      | Some hs => match space_to_nd eps hs xs with Some v => OVec v | None => ONone end
      | None => ONone end
  | OpFromNd ds v =>
      match ranges_of sl sr ds with
      | Some hs => match space_from_nd eps hs v with Some xs => OVals xs | None => ONone end
      | None => ONone end
  | OpBounds ds fx =>
      match ranges_of sl sr ds with
      | Some hs => match space_bounds eps hs fx with Some b => OBnd b | None => ONone end
      | None => ONone end
  | OpSampleSize d rs =>
      match dom_sample_size sl sr d rs with
      | Some (SOne v) => OV v | Some (SMany l) => OVals l | None => ONone end
  | OpRandomConfig ds fx rs =>
      match random_config sl sr ds fx rs with Some c => OVals c | None => ONone end
  | OpJson d =>
      match cs_json_roundtrip ebase [(0%%Z, EDom d); (1%%Z, EConst (VI 3))] with
      | Some [(_, EDom d'); (_, EConst (VI 3))] => ODom d'
      | _ => ONone
      end
  end.

Definition close (scale a b : Q) : bool := Qleb (Qabs (a - b)) (tol * Qmax3 1 scale 0).
(* encodings in [0,1]: 1e-9 plus the case's binary64 slack (ulp of the largest bound / size of the range) *)
Definition close_enc (slack a b : Q) : bool := Qleb (Qabs (a - b)) (tol + slack).
Definition val_close (scale : Q) (a b : val) : bool :=
  match a, b with
  | VF x, VF y => close scale x y
  | _, _ => val_eqb a b
  end.
Fixpoint sampler_eqb (a b : sampler) : bool :=
  match a, b with
  | SUniform, SUniform | SLogUniform, SLogUniform | SRevLog, SRevLog => true
  | SQuant i x, SQuant j y => sampler_eqb i j && Qeqb x y
  | _, _ => false
  end.
Definition domain_eqb (a b : domain) : bool :=
  match a, b with
  | DFloat l h s, DFloat l' h' s' => Qeqb l l' && Qeqb h h' && sampler_eqb s s'
  | DInteger l h s, DInteger l' h' s' => Z.eqb l l' && Z.eqb h h' && sampler_eqb s s'
  | DCategorical c s, DCategorical c' s' | DOrdinal c s, DOrdinal c' s' => list_eqb val_eqb c c' && sampler_eqb s s'
  | DOrdinalNN c l, DOrdinalNN c' l' => list_eqb val_eqb c c' && Bool.eqb l l'
  | DFiniteRange l h n ls ci, DFiniteRange l' h' n' ls' ci' =>
      Qeqb l l' && Qeqb h h' && Z.eqb n n' && Bool.eqb ls ls' && Bool.eqb ci ci'
  | _, _ => false
  end.
Definition obs_close (scale slack : Q) (m i : obs) : bool :=
  match m, i with
  | ONone, ONone => true
  | OV a, OV b => val_close scale a b
  | OVec a, OVec b => list_eqb (close_enc slack) a b
  | OBnd a, OBnd b => list_eqb (fun x y => close_enc slack (fst x) (fst y) && close_enc slack (snd x) (snd y)) a b
  | OB a, OB b => Bool.eqb a b
  | OVals a, OVals b => list_eqb (val_close scale) a b
  | ODom a, ODom b => domain_eqb a b
  | _, _ => false
  end.

(* case = (to_log, from_log, to_rev, from_rev, scale, slack, op, observed) *)
Definition case := (tbl * tbl * tbl * tbl * Q * Q * op * obs)%%type.
Definition mk (tl fl tr fr : tbl) (s sl : Q) (o : op) (i : obs) : case := (tl, fl, tr, fr, s, sl, o, i).
Definition chk (c : case) : bool :=
  let '(tl, fl, tr, fr, scale, slack, o, i) := c in
  obs_close scale slack (run_op (tsc_log tl fl) (tsc_rev tr fr) o) i.

Definition shiftv (t : Q) (x : val) : val :=
  match x with VF y => VF (y + t * Qmax3 1 (Qabs y) 0) | _ => x end.
Definition perturb (t : Q) (o : op) : op :=
  match o with
  | OpSample d (RawU u) => OpSample d (RawU (u + t))
  | OpCast d x => OpCast d (shiftv t x)
  | OpMember d x => OpMember d (shiftv t x)
  | OpToNd ds xs => OpToNd ds (map (shiftv t) xs)
  | OpFromNd ds v => OpFromNd ds (map (fun x => Qclip (x + t) 0 1) v)
  | _ => o
  end.
(* a discrete answer must lie between the model's answers at the two perturbed inputs
   (decode, cast and the samplers are monotone in their scalar input) *)
Definition val_between (scale : Q) (a b i : val) : bool :=
  match a, b, i with
  | VI x, VI y, VI z => Z.leb (Z.min x y) z && Z.leb z (Z.max x y)
  | _, _, _ => val_close scale a i || val_close scale b i
  end.
Fixpoint vals_between (scale : Q) (a b i : list val) : bool :=
  match a, b, i with
  | [], [], [] => true
  | x :: a', y :: b', z :: i' => val_between scale x y z && vals_between scale a' b' i'
  | _, _, _ => false
  end.
Definition obs_between (scale slack : Q) (a b i : obs) : bool :=
  match a, b, i with
  | OV x, OV y, OV z => val_between scale x y z
  | OVals x, OVals y, OVals z => vals_between scale x y z
  | _, _, _ => obs_close scale slack a i || obs_close scale slack b i
  end.
Definition chk_boundary (c : case) : bool :=
  let '(tl, fl, tr, fr, scale, slack, o, i) := c in
  let t := tol + slack in
  obs_between scale slack (run_op (tsc_log tl fl) (tsc_rev tr fr) (perturb (- t) o))
                          (run_op (tsc_log tl fl) (tsc_rev tr fr) (perturb t o)) i.
""" % (q(EPS), q(float(np.exp(1.0))))


# ----------------------------------------------------------------------------------------------
# specs: JSON-able description of a domain  <->  real Domain object  <->  Coq `domain` term
# ----------------------------------------------------------------------------------------------
LOG_KINDS = ("loguniform", "lograndint", "logfinrange", "ordinal_nnlog")
QUANT_KINDS = ("quniform", "qloguniform", "qrandint", "qlograndint")


def build(spec):
    from syne_tune import config_space as cs
    k = spec["kind"]
    if k in ("uniform", "loguniform", "reverseloguniform", "randint", "lograndint"):
        return getattr(cs, k)(spec["lower"], spec["upper"])
    if k in QUANT_KINDS:
        return getattr(cs, k)(spec["lower"], spec["upper"], spec["q"])
    if k == "choice":
        return cs.choice(list(spec["categories"]))
    if k == "ordinal_equal":
        return cs.ordinal(list(spec["categories"]), kind="equal")
    if k == "ordinal_nn":
        return cs.ordinal(list(spec["categories"]), kind="nn")
    if k == "ordinal_nnlog":
        return cs.ordinal(list(spec["categories"]), kind="nn-log")
    if k in ("finrange", "logfinrange"):
        return getattr(cs, k)(spec["lower"], spec["upper"], spec["size"], cast_int=spec["cast_int"])
    raise ValueError(k)


class Pool:
    """numbering of the string categories of one case"""

    def __init__(self):
        self.ids = {}

    def val(self, x):
        if isinstance(x, (bool, np.bool_)):
            raise TypeError("bool value")
        if isinstance(x, (int, np.integer)):
            return "(VI %s)" % zlit(int(x))
        if isinstance(x, (float, np.floating)):
            return "(VF %s)" % q(float(x))
        if isinstance(x, str):
            return "(VS %s)" % zlit(self.ids.setdefault(x, len(self.ids)))
        raise TypeError("value of type %s" % type(x).__name__)

    def vals(self, xs):
        return lst([self.val(x) for x in xs])


SAMPLER = {"uniform": "SUniform", "loguniform": "SLogUniform", "reverseloguniform": "SRevLog",
           "randint": "SUniform", "lograndint": "SLogUniform",
           "quniform": "(SQuant SUniform %s)", "qloguniform": "(SQuant SLogUniform %s)",
           "qrandint": "(SQuant SUniform %s)", "qlograndint": "(SQuant SLogUniform %s)"}


def coq_domain(spec, pool):
    k = spec["kind"]
    if k in ("uniform", "loguniform", "reverseloguniform"):
        return "(DFloat %s %s %s)" % (q(spec["lower"]), q(spec["upper"]), SAMPLER[k])
    if k in ("quniform", "qloguniform"):
        return "(DFloat %s %s %s)" % (q(spec["lower"]), q(spec["upper"]), SAMPLER[k] % q(spec["q"]))
    if k in ("randint", "lograndint"):
        return "(DInteger %s %s %s)" % (zlit(spec["lower"]), zlit(spec["upper"]), SAMPLER[k])
    if k in ("qrandint", "qlograndint"):
        return "(DInteger %s %s %s)" % (zlit(spec["lower"]), zlit(spec["upper"]), SAMPLER[k] % q(spec["q"]))
    if k == "choice":
        return "(DCategorical %s SUniform)" % pool.vals(spec["categories"])
    if k == "ordinal_equal":
        return "(DOrdinal %s SUniform)" % pool.vals(spec["categories"])
    if k in ("ordinal_nn", "ordinal_nnlog"):
        return "(DOrdinalNN %s %s)" % (pool.vals(spec["categories"]), blit(k == "ordinal_nnlog"))
    if k in ("finrange", "logfinrange"):
        return "(DFiniteRange %s %s %s %s %s)" % (q(spec["lower"]), q(spec["upper"]), zlit(spec["size"]),
                                                  blit(k == "logfinrange"), blit(spec["cast_int"]))
    raise ValueError(k)


def spec_of_real(d):
    """public description of a real Domain object (used for the JSON round trip)"""
    from syne_tune import config_space as cs
    if isinstance(d, cs.FiniteRange):
        return dict(kind="logfinrange" if d.log_scale else "finrange", lower=d.lower, upper=d.upper,
                    size=d.size, cast_int=d.cast_int)
    if isinstance(d, cs.OrdinalNearestNeighbor):
        return dict(kind="ordinal_nnlog" if d.log_scale else "ordinal_nn", categories=list(d.categories))
    sampler = d.get_sampler()
    qv = None
    if isinstance(sampler, cs.Quantized):
        qv, sampler = sampler.q, sampler.get_sampler()
    sn = type(sampler).__name__
    if isinstance(d, cs.Ordinal):
        return dict(kind="ordinal_equal", categories=list(d.categories))
    if isinstance(d, cs.Categorical):
        return dict(kind="choice", categories=list(d.categories))
    if isinstance(d, cs.Float):
        kind = {"_Uniform": "uniform", "_LogUniform": "loguniform", "_ReverseLogUniform": "reverseloguniform"}[sn]
    else:
        kind = {"_Uniform": "randint", "_LogUniform": "lograndint"}[sn]
    s = dict(kind=kind, lower=d.lower, upper=d.upper)
    if qv is not None:
        s["kind"] = "q" + kind
        s["q"] = qv
    return s


def spec_slack(spec):
    """binary64 slack of an encoded coordinate of an integer range with linear scaling: the internal value
    v * size + lower carries an error of a few ulps of the largest bound (the EPS margin itself is below half an
    ulp from 2**26 on), i.e. ulp / size in the unit interval.  0 for everything else."""
    if spec["kind"] not in ("randint", "qrandint"):
        return 0.0
    lo, hi = spec["lower"], spec["upper"]
    return 8 * math.ulp(float(max(abs(lo), abs(hi)) + 1)) / (hi - lo + 1)


def spec_scale(spec):
    vals = [1.0]
    for key in ("lower", "upper"):
        if key in spec:
            vals.append(abs(float(spec[key])))
    for c in spec.get("categories", []):
        if isinstance(c, (int, float)):
            vals.append(abs(float(c)))
    return max(vals)


# ----------------------------------------------------------------------------------------------
# tables of numpy answers for log / reverse-log
# ----------------------------------------------------------------------------------------------
class Tables:
    def __init__(self):
        self.t = {"tl": {}, "fl": {}, "tr": {}, "fr": {}}

    def add(self, which, key, value):
        key, value = float(key), float(value)
        if math.isfinite(key) and math.isfinite(value):
            self.t[which].setdefault(key, value)

    def term(self, which):
        return lst(["(%s, %s)" % (q(k), q(v)) for k, v in self.t[which].items()])


def _log(x):
    with np.errstate(all="ignore"):
        return float(np.log(x))


def add_tables(tb, spec, level, hps=(), vs=(), raws=(), active=None):
    """Record what numpy answers at the points the code asks for this domain.
    level: 'domain' (samplers: log/exp, log1p/expm1) or 'range' (Scaling classes)."""
    k = spec["kind"]
    with np.errstate(all="ignore"):
        if k in ("loguniform", "lograndint") or (k in ("qloguniform", "qlograndint") and level == "domain"):
            lo, hi = float(spec["lower"]), float(spec["upper"])
            if level == "domain":
                for x in (lo, hi):
                    tb.add("tl", x, np.log(x))
                for r in raws:
                    tb.add("fl", r, np.exp(r))
            else:
                pts = [(lo, hi)] + ([(float(active["lower"]), float(active["upper"]))] if active else [])
                if k == "lograndint":
                    pts = [(a - 0.5 + EPS, b + 0.5 - EPS) for a, b in pts]
                for a, b in pts:
                    for x in (a, b):
                        if x > 0:
                            tb.add("tl", x, np.log(x))
                for h in hps:
                    if float(h) > 0:
                        tb.add("tl", float(h), np.log(float(h)))
                L, U = np.log(pts[0][0]), np.log(pts[0][1])
                for v in vs:
                    key = v * (U - L) + L
                    tb.add("fl", key, np.exp(key))
        elif k == "reverseloguniform":
            lo, hi = float(spec["lower"]), float(spec["upper"])
            if level == "domain":
                for x in (lo, hi):
                    tb.add("tr", x, -np.log1p(-x))
                for r in raws:
                    tb.add("fr", r, -np.expm1(-r))
            else:
                pts = [lo, hi] + ([float(active["lower"]), float(active["upper"])] if active else [])
                for x in list(pts) + [float(h) for h in hps]:
                    if 0 <= x < 1:
                        tb.add("tr", x, -np.log(1.0 - x))
                L, U = -np.log(1.0 - lo), -np.log(1.0 - hi)
                for v in vs:
                    key = v * (U - L) + L
                    tb.add("fr", key, 1.0 - np.exp(-key))
        elif k == "ordinal_nnlog":
            for c in spec["categories"]:
                tb.add("tl", float(c), np.log(float(c)))
            for h in hps:
                if float(h) > 0:
                    tb.add("tl", float(h), np.log(float(h)))
        elif k == "logfinrange":
            lo, hi, size = float(spec["lower"]), float(spec["upper"]), spec["size"]
            L, U = np.log(lo), np.log(hi)
            tb.add("tl", lo, L)
            tb.add("tl", hi, U)
            step = (U - L) / (size - 1) if size > 1 else 0
            for x in range(size):
                key = x * step + L
                tb.add("fl", key, np.exp(key))
            for h in hps:
                h = float(h)
                if level == "domain":
                    h = float(np.clip(h, lo, hi))
                if h > 0:
                    tb.add("tl", h, np.log(h))


# ----------------------------------------------------------------------------------------------
# raw draws
# ----------------------------------------------------------------------------------------------
class FakeRandomState:
    """duck-typed random_state: every primitive returns the prescribed raw draw
    (uniform(a, b) = a + (b - a) * u exactly as numpy computes it)"""

    def __init__(self, u=None, i=None):
        self.u, self.i, self.calls = u, i, []

    def _fill(self, v, size, dtype):
        return np.full(size, v, dtype=dtype) if size is not None else v

    def uniform(self, low=0.0, high=1.0, size=None):
        v = low + (high - low) * self.u
        self.calls.append(("uniform", float(v)))
        return self._fill(v, size, float)

    def randint(self, low, high=None, size=None):
        assert low <= self.i < high, "raw draw outside randint contract"
        self.calls.append(("randint", self.i))
        return self._fill(self.i, size, np.int64)

    def choice(self, n, size=None):
        assert 0 <= self.i < n
        self.calls.append(("choice", self.i))
        return self._fill(self.i, size, np.int64)


class QueueRandomState:
    """duck-typed random_state whose primitives return prescribed raw draws one after another"""

    def __init__(self, queue):
        self.queue, self.results = list(queue), []

    def _pop(self, tag):
        t, v = self.queue.pop(0)
        assert t == tag, "raw draw of the wrong kind"
        return v

    def uniform(self, low=0.0, high=1.0, size=None):
        v = low + (high - low) * self._pop("u")
        self.results.append(float(v))
        return np.full(size, v, dtype=float) if size is not None else v

    def randint(self, low, high=None, size=None):
        v = self._pop("i")
        assert low <= v < high
        self.results.append(None)
        return np.full(size, v, dtype=np.int64) if size is not None else v

    def choice(self, n, size=None):
        v = self._pop("i")
        assert 0 <= v < n
        self.results.append(None)
        return np.full(size, v, dtype=np.int64) if size is not None else v


def raw_for(rng, spec):
    """a legal raw draw for one sample of this domain: (tag, value) or None if the sampler draws nothing"""
    k = spec["kind"]
    if k in ("randint", "qrandint"):
        return ("i", rng.randint(spec["lower"], spec["upper"]))
    if k in ("choice", "ordinal_equal"):
        return ("i", rng.randrange(len(spec["categories"])))
    if k in ("finrange", "logfinrange"):
        return ("i", rng.randrange(spec["size"]))
    if k in ("ordinal_nn", "ordinal_nnlog") and len(spec["categories"]) == 1:
        return None
    return ("u", rng.random())


# ----------------------------------------------------------------------------------------------
# generators
# ----------------------------------------------------------------------------------------------
def rfloat(rng, lo, hi):
    x = rng.uniform(lo, hi)
    return rng.choice([x, round(x, 1), round(x, 3), float(round(x))])


def gen_categories(rng, numeric_increasing=False, positive=False, n=None):
    if n is None:
        n = rng.choice([1, 1, 2, 2, 3, 3, 4, 5, 7])
    tp = rng.choice(["int", "float"] if numeric_increasing else ["str", "int", "float"])
    if tp == "str":
        pool = ["a", "b", "c", "d", "e", "relu", "tanh", "x1", "x2", "10", "zz"]
        return rng.sample(pool, n)
    if tp == "int":
        base = rng.randint(1 if positive else -20, 50)
        steps = [rng.choice([1, 1, 2, 3, 10, 100]) for _ in range(n)]
        vals = [base + sum(steps[:i]) for i in range(n)]
    else:
        base = rng.choice([0.001, 0.1, 0.5, 2.5]) if positive else rng.choice([-3.5, -0.25, 0.0, 0.1, 2.5])
        steps = [rng.choice([0.001, 0.1, 0.25, 1.0, 7.5, 100.0]) for _ in range(n)]
        vals = [base + sum(steps[:i]) for i in range(n)]
    if not numeric_increasing:
        rng.shuffle(vals)
    return vals


def gen_spec(rng, kind=None):
    kind = kind or rng.choice([
        "uniform", "loguniform", "reverseloguniform", "randint", "lograndint", "quniform", "qloguniform",
        "qrandint", "qlograndint", "choice", "ordinal_equal", "ordinal_nn", "ordinal_nnlog", "finrange",
        "logfinrange"])
    style = rng.choice(["plain", "plain", "degenerate", "tiny", "huge"])
    if kind == "uniform":
        lo = rfloat(rng, -100, 100)
        hi = lo if style == "degenerate" else (lo + abs(lo) * 1e-9 + 1e-12 if style == "tiny" else lo + rfloat(rng, 0.001, 1000 if style == "huge" else 10))
        return dict(kind=kind, lower=lo, upper=float(hi))
    if kind == "loguniform":
        lo = 10 ** rng.uniform(-8, 3)
        lo = rng.choice([lo, float("%.2g" % lo)])
        hi = lo if style == "degenerate" else (lo * (1 + 1e-9) if style == "tiny" else lo * 10 ** rng.uniform(0.01, 9 if style == "huge" else 3))
        return dict(kind=kind, lower=lo, upper=float(hi))
    if kind == "reverseloguniform":
        lo = rng.choice([0.0, 0.0, rng.uniform(0, 0.99), 0.9, 0.5])
        hi = lo if style == "degenerate" else rng.choice([lo + (1 - lo) * rng.uniform(0.001, 0.999), 1 - (1 - lo) * 10 ** -rng.uniform(1, 6)])
        return dict(kind=kind, lower=lo, upper=min(max(lo, float(hi)), 1 - 1e-12))
    if kind == "randint":
        lo = rng.randint(-1000, 1000) if style != "huge" else rng.randint(-10 ** 6, 10 ** 6)
        hi = lo if style == "degenerate" else lo + (1 if style == "tiny" else rng.choice([1, 2, 3, 9, 10, 100, rng.randint(1, 10 ** (9 if style == "huge" else 3))]))
        return dict(kind=kind, lower=lo, upper=hi)
    if kind == "lograndint":
        lo = rng.choice([1, 1, 2, 3, 10, rng.randint(1, 1000)])
        hi = lo if style == "degenerate" else lo + (1 if style == "tiny" else rng.choice([1, 2, 7, 100, rng.randint(1, 10 ** (9 if style == "huge" else 4))]))
        return dict(kind=kind, lower=lo, upper=hi)
    if kind in ("quniform", "qloguniform"):
        qv = rng.choice([0.1, 0.25, 0.5, 1.0, 0.01, 2.0, 0.3])
        k1 = rng.randint(1 if kind == "qloguniform" else -20, 40)
        k2 = k1 if style == "degenerate" else k1 + rng.choice([1, 2, 3, 10, 57])
        return dict(kind=kind, lower=k1 * qv, upper=k2 * qv, q=qv)
    if kind in ("qrandint", "qlograndint"):
        qv = rng.choice([1, 2, 3, 4, 5, 10])
        lo = rng.randint(1 if kind == "qlograndint" else -30, 60)
        if rng.random() < 0.4:   # divisible bounds
            lo = (lo // qv) * qv
            if kind == "qlograndint" and lo < 1:
                lo = qv
            hi = lo + qv * rng.randint(0, 12)
        else:
            hi = lo if style == "degenerate" else lo + rng.randint(1, 50)
        return dict(kind=kind, lower=lo, upper=hi, q=qv)
    if kind in ("choice", "ordinal_equal"):
        cats = gen_categories(rng)
        if len(cats) > 1 and rng.random() < 0.08:
            cats[-1] = cats[0]    # a duplicate entry
        return dict(kind=kind, categories=cats)
    if kind in ("ordinal_nn", "ordinal_nnlog"):
        return dict(kind=kind, categories=gen_categories(rng, numeric_increasing=True, positive=kind == "ordinal_nnlog"))
    if kind in ("finrange", "logfinrange"):
        cast_int = rng.random() < 0.5
        size = 1 if style == "degenerate" else rng.choice([1, 2, 3, 4, 5, 10, 17, 33])
        if kind == "logfinrange":
            lo = rng.choice([0.001, 0.1, 1.0, 2.0, 5.5])
            hi = lo if rng.random() < 0.08 else lo * rng.choice([1.5, 2, 10, 100, 1e5])
        else:
            lo = rng.choice([rfloat(rng, -20, 20), 0.0, 0.5, 0.4, 1.0])
            hi = lo if rng.random() < 0.08 else lo + rng.choice([0.3, 1.0, 2.0, 2.5, 7.0, 10.0, float(size - 1), 100.0])
        return dict(kind=kind, lower=float(lo), upper=float(hi), size=size, cast_int=cast_int)
    raise ValueError(kind)


def gen_active(rng, spec):
    """a legal active sub-domain spec (or None)"""
    k = spec["kind"]
    if k in ("finrange", "logfinrange") or k in QUANT_KINDS:
        return None
    if k in ("uniform", "loguniform", "reverseloguniform"):
        lo, hi = spec["lower"], spec["upper"]
        a = rng.choice([lo, lo + (hi - lo) * rng.random() * 0.5])
        b = rng.choice([hi, a, a + (hi - a) * rng.random()])
        return dict(kind=k, lower=float(a), upper=float(min(max(b, a), hi)))
    if k in ("randint", "lograndint"):
        lo, hi = spec["lower"], spec["upper"]
        a = rng.randint(lo, min(hi, lo + 10 ** 6))
        b = rng.choice([a, hi, rng.randint(a, min(hi, a + 10 ** 6))])
        return dict(kind=k, lower=a, upper=b)
    cats = spec["categories"]
    if k == "choice":
        sub = [c for c in cats if rng.random() < 0.6] or [rng.choice(cats)]
        sub = list(dict.fromkeys(sub))
        return dict(kind=k, categories=sub)
    i = rng.randrange(len(cats))
    j = rng.randint(i, len(cats) - 1)
    return dict(kind=k, categories=cats[i:j + 1])


def huge_int_specs(rng):
    """Integer domains whose bounds are so large that the 1e-8 EPS margin of
    [l - 0.5 + EPS, u + 0.5 - EPS] is absorbed by binary64 (bounds 2**24 .. 2**53, odd and even,
    powers of two +- 1): the exact corners of the unit cube then sit ON a rounding threshold."""
    out = []
    exps = [24, 27, 28, 31, 32, 40, 52, 53]
    for e in rng.sample(exps, 4) + [31]:
        b = 2 ** e
        for hi in (b - 1, b, b + 1 if e < 53 else b - 3):
            out.append(dict(kind="randint", lower=rng.choice([0, 1, -5, -(b - 1), b // 2 + 1]), upper=hi))
            out.append(dict(kind="lograndint", lower=rng.choice([1, 2, 3, b // 2 + 1]), upper=hi))
        lo = b + 1 if e < 53 else b - 1
        out.append(dict(kind="randint", lower=lo, upper=lo + rng.choice([0, 1, 2, 10, b // 2])))
        out.append(dict(kind="randint", lower=-lo, upper=-lo + rng.choice([1, 7, b])))
        out.append(dict(kind="lograndint", lower=lo, upper=lo + rng.choice([0, 1, 10, b // 2])))
    return [sp for sp in out if abs(sp["lower"]) <= 2 ** 53 and abs(sp["upper"]) <= 2 ** 53]


def odd_logfinrange_specs(rng):
    """log-scaled finite ranges with cast_int whose rounded values sit far from their grid points in
    the internal domain (few values per octave, small integers): the index found by rounding in log
    space need not be the value's own index (F-C07-15)."""
    out = [dict(kind="logfinrange", lower=5.5, upper=11.0, size=5, cast_int=True)]
    for _ in range(6):
        lo = rng.choice([1.5, 2.5, 3.5, 4.5, 5.5, 6.5, 0.6, 1.2, 2.2, rng.uniform(0.5, 9.0)])
        hi = lo * rng.choice([1.5, 2.0, 2.0, 3.0, 4.0, rng.uniform(1.2, 6.0)])
        out.append(dict(kind="logfinrange", lower=float(lo), upper=float(hi), size=rng.choice([3, 4, 5, 6, 7, 9]),
                        cast_int=True))
    return out


def thresholds_unit(spec, rng):
    """Points of [0,1] where the model's decode switches value (computed with exact rationals, the same
    formulas as the model: v * size + lower_internal = k + 1/2), as floats around them."""
    from fractions import Fraction as F
    k = spec["kind"]
    out = []
    eps = F(EPS)
    if k == "randint" or k in ("qrandint",):
        lo, hi = spec["lower"], spec["upper"]
    elif k in ("finrange", "logfinrange"):
        lo, hi = 0, spec["size"] - 1
    elif k in ("choice", "ordinal_equal"):
        lo, hi = 0, len(spec["categories"]) - 1
    elif k == "ordinal_nn" and len(spec["categories"]) > 1:
        c = [F(x) for x in spec["categories"]]
        avg = F(1, 2) * (c[-1] - c[0]) / (len(c) - 1)
        li, ui = c[0] - avg, c[-1] + avg
        for _ in range(3):
            i = rng.randrange(len(c) - 1)
            t = ((c[i] + c[i + 1]) / 2 - li) / (ui - li)
            out.append(float(t))
        lo = hi = None
    else:
        lo = hi = None
    if lo is not None and hi - lo < 10 ** 7:
        li = F(lo) - F(1, 2) + eps
        size = F(hi) + F(1, 2) - eps - li
        for _ in range(3):
            kk = rng.randint(lo, hi)
            out.append(float((F(kk) + F(1, 2) - li) / size))
    res = []
    for t in out:
        for d in (0.0, 1e-7, -1e-7, 3e-16, -3e-16):
            v = t + d
            if 0.0 <= v <= 1.0:
                res.append(v)
    return res


# ----------------------------------------------------------------------------------------------
# independent checker helpers (real objects only)
# ----------------------------------------------------------------------------------------------
def is_member(domain, x):
    """right type + inside the bounds / among the listed values"""
    from syne_tune import config_space as cs
    if isinstance(domain, cs.FiniteRange):
        tp_ok = type(x) is (int if domain.cast_int else float)
        return tp_ok and x in domain.values
    vt = domain.value_type
    if vt is float:
        tp_ok = isinstance(x, float)
    elif vt is int:
        tp_ok = isinstance(x, int) and not isinstance(x, bool)
    else:
        tp_ok = isinstance(x, vt)
    return bool(tp_ok and domain.is_valid(x))


def in_range_ignoring_type(domain, x):
    from syne_tune import config_space as cs
    try:
        if isinstance(domain, cs.FiniteRange):
            return x in domain.values
        return bool(domain.is_valid(x))
    except Exception:
        return False


def scaling_name(kind):
    if kind in LOG_KINDS or kind in ("qloguniform", "qlograndint"):
        return "log"
    return "reverse_log" if kind == "reverseloguniform" else "linear"


def classify_nonmember(dom, x):
    """None if x is a member of dom, else dict(defect=..., magnitude=...):
    wrong type only / outside by binary64 round-off (<= 1e-12 relative to the violated bound) / gross"""
    if is_member(dom, x):
        return None
    if in_range_ignoring_type(dom, x):
        return dict(defect="wrong_python_type", magnitude="type")
    mag = "gross"
    if isinstance(x, float) and hasattr(dom, "lower") and hasattr(dom, "upper") and hasattr(dom, "is_valid"):
        lo, hi = float(dom.lower), float(dom.upper)
        b = lo if x < lo else hi
        if abs(x - b) <= 1e-12 * max(abs(b), abs(x)):
            mag = "ulp"
    return dict(defect="outside_bounds", magnitude=mag)


def q_divides(spec):
    from fractions import Fraction as F
    qv = F(spec["q"])
    return (F(spec["lower"]) / qv).denominator == 1 and (F(spec["upper"]) / qv).denominator == 1


def same_value(a, b, continuous):
    if continuous:
        return abs(a - b) <= 1e-7 * max(abs(a), abs(b))
    return type(a) is type(b) and a == b


# ----------------------------------------------------------------------------------------------
# the driver
# ----------------------------------------------------------------------------------------------
class Cases:
    def __init__(self):
        self.terms, self.meta = [], []
        self.slack = 0.0     # binary64 slack of the encoder cases currently being generated

    def add(self, tb, scale, op_term, obs_term, meta):
        slack = self.slack
        self.terms.append("(mk %s %s %s %s %s %s %s %s)" % (tb.term("tl"), tb.term("fl"), tb.term("tr"),
                                                             tb.term("fr"), q(scale), q(slack), op_term, obs_term))
        if slack > 1e-9:
            meta = dict(meta, slack=slack)
        self.meta.append(meta)


def obs_val(pool, x):
    try:
        return "(OV %s)" % pool.val(x)
    except TypeError:
        return "ONone"


def call(f):
    """(ok, value | exception class name)"""
    try:
        return True, f()
    except (AssertionError, TypeError, ValueError, KeyError, IndexError, NotImplementedError) as e:
        return False, type(e).__name__


def dspecs_term(pool, specs, actives):
    return lst(["(%s, %s)" % (coq_domain(s, pool), optlit(a, lambda a_: coq_domain(a_, pool)))
                for s, a in zip(specs, actives)])


def run(ctx, replay=None):
    from syne_tune import config_space as cs
    from syne_tune.optimizer.schedulers.searchers.utils.hp_ranges_factory import make_hyperparameter_ranges
    ctx.rule = ("cases: one call of Domain.sample (prescribed raw draw) / cast / is_valid, or of "
                "HyperparameterRanges.to_ndarray / from_ndarray / get_ndarray_bounds (single domains and spaces of 2-5 "
                "domains, with/without active_config_space, prefix_keys, fixed last position), or one JSON round trip, "
                "for every constructor with generated legal parameters (plain, degenerate, tiny, huge); unit-cube "
                "points = corners, model-computed rounding thresholds +-ulps, uniform. non-trivial = a case whose "
                "output depends on a rounding / clipping / argmax / nearest-neighbour decision or on an active "
                "sub-range (everything except plain continuous uniform interior points); distinct by content hash")
    rng = ctx.rng
    C = Cases()

    # ---- specs of this run -------------------------------------------------------------------
    if replay is not None:
        specs = [replay["spec"]] if "spec" in replay else []
        spaces = [replay["space"]] if "space" in replay else []
    else:
        kinds = ["uniform", "loguniform", "reverseloguniform", "randint", "lograndint", "quniform", "qloguniform",
                 "qrandint", "qlograndint", "choice", "ordinal_equal", "ordinal_nn", "ordinal_nnlog", "finrange",
                 "logfinrange"]
        specs = [gen_spec(rng, k) for k in kinds for _ in range(ctx.n(5, 150))]
        # the probes of DESIGN section 7 and other fixed corner cases, always part of the run
        specs += [dict(kind="qrandint", lower=1, upper=10, q=4), dict(kind="quniform", lower=0.1, upper=0.3, q=0.1),
                  dict(kind="qrandint", lower=0, upper=8, q=4), dict(kind="quniform", lower=0.5, upper=2.0, q=0.5),
                  dict(kind="randint", lower=2, upper=2), dict(kind="uniform", lower=2.0, upper=2.0),
                  dict(kind="choice", categories=["a"]), dict(kind="choice", categories=["a", "b", "c"]),
                  dict(kind="ordinal_nn", categories=[5]), dict(kind="ordinal_nnlog", categories=[5]),
                  dict(kind="finrange", lower=2.0, upper=2.0, size=1, cast_int=False),
                  dict(kind="finrange", lower=0.5, upper=2.5, size=3, cast_int=True),
                  dict(kind="finrange", lower=0.0, upper=1.0, size=5, cast_int=True),
                  dict(kind="lograndint", lower=1, upper=10 ** 9), dict(kind="reverseloguniform", lower=0.0, upper=0.9),
                  dict(kind="reverseloguniform", lower=0.1, upper=0.9)]
        huge = huge_int_specs(rng)
        rng.shuffle(huge)
        specs = huge[:ctx.n(8, 60)] + odd_logfinrange_specs(rng)[:ctx.n(5, 7)] + specs   # first: reported first
        spaces = None

    if replay is None or replay.get("only") == "float_grid":
        float_grid_cases(ctx, rng, cs, make_hyperparameter_ranges, [replay["spec"]] if replay else None)
    only = replay.get("only") if replay else None
    for spec in specs:
        single_domain_cases(ctx, C, spec, rng, cs, make_hyperparameter_ranges, only,
                            forced_active=replay.get("active") if replay else None)
    space_cases(ctx, C, rng, cs, make_hyperparameter_ranges, spaces)

    # ---- model vs implementation -----------------------------------------------------------------
    if C.terms:
        for m in C.meta[:3]:
            ctx.sample(m)
        bad = ctx.coq_bad_cases("unit", IMPORTS, PRELUDE, "chk", C.terms, shard=120)
        if bad:
            sub = [C.terms[i] for i in bad]
            still = ctx.coq_bad_cases("boundary", IMPORTS, PRELUDE, "chk_boundary", sub, shard=120)
            still = {bad[j] for j in still}
            for i in bad:
                if i in still:
                    m = C.meta[i]
                    ctx.violation("correspondence", "model and implementation differ on %s: impl=%r" % (
                        m.get("op"), m.get("impl")), case=m, failing_input=False,
                        broken="correspondence chk (model/Domain.v) op=%s kind=%s" % (m.get("op"), m.get("kind")))
                else:
                    ctx.h("boundary_accepted", C.meta[i].get("op"))
        ctx.h("coq_cases", "total", len(C.terms))
        ctx.h("coq_cases", "with_binary64_slack_gt_1e-9", sum(1 for m in C.meta if m.get("slack")))


def float_grid_cases(ctx, rng, cs, make_hpr, specs=None):
    """Float-valued finite ranges (cast_int=False) with random two-decimal parameters; Python side only.
    The grid is computed twice in the library (FiniteRange.values defines membership, the encoder's
    _map_from_int decodes): top and bottom grid points must decode to EXACT members of dom.values (no
    tolerance) and the top / bottom member must round-trip exactly."""
    if specs is None:
        specs = []
        for _ in range(ctx.n(160, 1500)):
            if rng.random() < 0.5:
                lo = round(rng.uniform(-5, 5), 2)
                hi = round(lo + rng.uniform(0.05, 20), 2)
                kind = "finrange"
            else:
                lo = round(rng.uniform(0.01, 10), 2) or 0.01
                hi = round(lo * rng.uniform(1.1, 200), 2)
                kind = "logfinrange"
            if hi > lo:
                specs.append(dict(kind=kind, lower=lo, upper=hi, size=rng.choice([2, 3, 4, 5, 6, 7, 9, 10, 16]), cast_int=False))
        specs += [dict(kind="finrange", lower=0.1, upper=1.0, size=4, cast_int=False),
                  dict(kind="logfinrange", lower=1.0, upper=16.0, size=5, cast_int=False)]
    for spec in specs:
        okb, dom = call(lambda: build(spec))
        okh, hpr = call(lambda: make_hpr({"x": dom})) if okb else (False, None)
        if not (okb and okh):
            continue
        ctx.count(("float_grid", spec), nontrivial=True)
        ctx.h("op", "float_grid")
        n_ = spec["size"]
        values = list(dom.values)
        ctx.h("float_grid_top", "top_is_upper" if values[-1] == spec["upper"] else "top_misses_upper_by_roundoff")
        case = dict(spec=spec, only="float_grid")
        sig = dict(domain="FiniteRange", constructor=spec["kind"], cast_int=False, grid="float")
        vs_ = [1.0, float(np.nextafter(1.0, 0.0)), 1.0 - 1e-12, (n_ - 0.5) / n_, 0.0, float(np.nextafter(0.0, 1.0)), 0.5 / n_]
        bad = None
        for v_ in vs_:
            okd, x = call(lambda: hpr.from_ndarray(np.array([v_]))["x"])
            if not okd or not is_member(dom, x):
                bad = ("from_ndarray([%r]) = %r is not one of the values %r (exact comparison)" % (v_, x, values),
                       dict(sig, op="from_ndarray", defect="decoded_not_member", grid_end="top" if v_ > 0.5 else "bottom"))
                break
        if bad is None:
            for name_, m_ in (("top", values[-1]), ("bottom", values[0])):
                okr, back = call(lambda: hpr.from_ndarray(hpr.to_ndarray({"x": m_}))["x"])
                okc, cst = call(lambda: dom.cast(m_))
                if not okr or not same_value(back, m_, False):
                    bad = ("round trip of the %s member %r gives %r (values %r)" % (name_, m_, back, values),
                           dict(sig, op="round_trip", defect="round_trip_differs", grid_end=name_))
                    break
                if not okc or not same_value(cst, m_, False):
                    bad = ("cast of the %s member %r gives %r" % (name_, m_, cst), dict(sig, op="cast", defect="cast_of_member_differs", grid_end=name_))
                    break
        if bad is not None:
            ctx.violation("property", "%r: %s" % (dom, bad[0]), case=case, signature=bad[1])


def single_domain_cases(ctx, C, spec, rng, cs, make_hpr, only=None, forced_active=None):
    kind = spec["kind"]
    okb, dom = call(lambda: build(spec))
    ctx.h("kind", kind)
    if not okb:
        ctx.h("constructor_rejected", kind)
        return
    scale = spec_scale(spec)
    cont = kind in ("uniform", "loguniform", "reverseloguniform", "quniform", "qloguniform")
    is_quant = kind in QUANT_KINDS
    ncat = len(spec.get("categories", []))
    want = lambda name: only is None or only == name

    def count(op, key, nontrivial):
        ctx.count((op, spec, key), nontrivial=nontrivial)
        ctx.h("op", op)

    # ---------------- sample: prescribed raw draws -------------------------------------------------
    if want("sample"):
        raws = []
        if kind in ("randint", "qrandint"):
            lo, hi = spec["lower"], spec["upper"]
            raws = [("i", i) for i in {lo, hi, rng.randint(lo, hi), rng.randint(lo, hi)}]
        elif kind in ("choice", "ordinal_equal"):
            raws = [("i", i) for i in {0, ncat - 1, rng.randrange(ncat)}]
        elif kind in ("finrange", "logfinrange"):
            raws = [("i", i) for i in {0, spec["size"] - 1, rng.randrange(spec["size"])}]
        else:
            raws = [("u", u) for u in (0.0, 1.0 - 2.0 ** -53, 0.5, rng.random(), rng.random(), rng.random() * 1e-3,
                                       1 - rng.random() * 1e-3)]
        for tag, r in raws:
            frs = FakeRandomState(u=r if tag == "u" else None, i=r if tag == "i" else None)
            ok, x = call(lambda: dom.sample(random_state=frs))
            tb, pool = Tables(), Pool()
            add_tables(tb, spec, "domain", raws=[c[1] for c in frs.calls if c[0] == "uniform"])
            raw_term = "(RawU %s)" % q(r) if tag == "u" else "(RawI %s)" % zlit(r)
            C.add(tb, scale, "(OpSample %s %s)" % (coq_domain(spec, pool), raw_term),
                  obs_val(pool, x) if ok else "ONone",
                  dict(op="sample", kind=kind, spec=spec, raw=[tag, r], impl=repr(x), only="sample"))
            extreme = tag == "u" and r in (0.0, 1.0 - 2.0 ** -53)
            count("sample", [tag, r], nontrivial=not (kind == "uniform"))
            check_sample(ctx, spec, dom, ok, x, dict(raw=[tag, r]), extreme=extreme, size=1)
        # sample(size=2) against the model's dom_sample_size (the same raw draw twice)
        rw = raw_for(rng, spec)
        if rw is not None:
            frs = FakeRandomState(u=rw[1] if rw[0] == "u" else None, i=rw[1] if rw[0] == "i" else None)
            ok, xs = call(lambda: dom.sample(size=2, random_state=frs))
            tb, pool = Tables(), Pool()
            add_tables(tb, spec, "domain", raws=[c[1] for c in frs.calls if c[0] == "uniform"])
            rterm = "(RawU %s)" % q(rw[1]) if rw[0] == "u" else "(RawI %s)" % zlit(rw[1])
            try:
                obs = ("(OVals %s)" % pool.vals(list(xs))) if ok and isinstance(xs, list) else ("ONone" if not ok else obs_val(pool, xs))
            except TypeError:
                obs = "ONone"
            C.add(tb, scale, "(OpSampleSize %s [%s; %s])" % (coq_domain(spec, pool), rterm, rterm), obs,
                  dict(op="sample_size", kind=kind, spec=spec, raw=list(rw), impl=repr(xs), only="sample"))
            count("sample_size", list(rw), nontrivial=True)
    # ---------------- sample: real numpy RandomState, many seeds (checker only) ---------------------
    if want("sample_real"):
        seed = rng.randrange(2 ** 31)
        rs = np.random.RandomState(seed)
        for j in range(ctx.n(12, 60)):
            ok, x = call(lambda: dom.sample(random_state=rs))
            check_sample(ctx, spec, dom, ok, x, dict(seed=seed, draw=j), extreme=False, size=1)
            if not ok:
                break
        # result shape: the bare value for size == 1 (and by default), a list of `size` values otherwise
        for k_ in (1, 2, 4, 5):
            ok, xs = call(lambda: dom.sample(size=k_, random_state=rs))
            if not ok:
                check_sample(ctx, spec, dom, False, xs, dict(seed=seed, size=k_), extreme=False, size=k_)
                continue
            shape_ok = (not isinstance(xs, (list, tuple, np.ndarray))) if k_ == 1 else (isinstance(xs, list) and len(xs) == k_)
            if not shape_ok:
                ctx.violation("property", "%r.sample(size=%d) = %r: expected %s" % (
                    dom, k_, xs, "the bare value" if k_ == 1 else "a list of %d values" % k_),
                    case=dict(spec=spec, only="sample_real", how=dict(seed=seed, size=k_)),
                    signature=dict(op="sample", domain=type(dom).__name__, constructor=kind, defect="wrong_result_shape", size=k_))
                continue
            for x in ([xs] if k_ == 1 else xs):
                check_sample(ctx, spec, dom, True, x, dict(seed=seed, size=k_), extreme=False, size=k_)
        ctx.count(("sample_real", spec, seed), nontrivial=False)

    # ---------------- cast / is_valid ---------------------------------------------------------------
    if want("cast"):
        vals = []
        if "lower" in spec:
            lo, hi = float(spec["lower"]), float(spec["upper"])
            mid = lo + (hi - lo) * rng.random()
            vals = [lo, hi, mid, lo - 0.3 * (1 + abs(lo)), hi + 0.3 * (1 + abs(hi)), round(mid) + 0.5, round(mid) - 0.5]
            if kind in ("randint", "lograndint", "qrandint", "qlograndint"):
                vals += [int(spec["lower"]), int(spec["upper"]), float(int(mid)) + 0.5]
            if kind in ("finrange", "logfinrange"):
                vs_ = dom.values
                vals += list(vs_) if len(vs_) <= 12 else [vs_[0], vs_[-1], rng.choice(vs_)]
                if len(vs_) > 1:
                    i = rng.randrange(len(vs_) - 1)
                    vals += [(vs_[i] + vs_[i + 1]) / 2, vs_[i] * 0.7 + vs_[i + 1] * 0.3]
            if kind in LOG_KINDS or kind in ("qloguniform", "qlograndint", "reverseloguniform"):
                vals = [v for v in vals if v > 0]
        else:
            cats = spec["categories"]
            vals = [cats[0], cats[-1], rng.choice(cats)]
            if kind in ("ordinal_nn", "ordinal_nnlog"):
                if ncat > 1:
                    i = rng.randrange(ncat - 1)
                    vals += [(cats[i] + cats[i + 1]) / 2, cats[i] * 0.8 + cats[i + 1] * 0.2, cats[-1] * 2 + 1]
                vals += [float(cats[0]) - (0.25 if kind == "ordinal_nn" else 0.0)]
                if kind == "ordinal_nnlog":
                    vals = [v for v in vals if v > 0]
            elif isinstance(cats[0], float):
                vals += [cats[0] * (1 + 1e-4), cats[-1] * (1 - 1e-4)]
        for v in vals:
            ok, x = call(lambda: dom.cast(v))
            tb, pool = Tables(), Pool()
            add_tables(tb, spec, "domain", hps=[v] if isinstance(v, (int, float)) else [])
            dterm = coq_domain(spec, pool)
            try:
                vterm = pool.val(v)
            except TypeError:
                continue
            C.add(tb, scale, "(OpCast %s %s)" % (dterm, vterm), obs_val(pool, x) if ok else "ONone",
                  dict(op="cast", kind=kind, spec=spec, value=v, impl=repr(x), only="cast"))
            count("cast", v, nontrivial=not cont)
            # checker: the cast of a member is a member
            was_member = call(lambda: is_member(dom, v))
            if was_member == (True, True):
                if not ok or not is_member(dom, x):
                    ctx.violation("property", "cast(%r) of a member of %r gives %r which is not a member" % (v, dom, x),
                                  case=dict(spec=spec, only="cast"),
                                  signature=dict(domain=type(dom).__name__, constructor=kind, op="cast",
                                                 defect="cast_of_member_not_member"))
            # is_valid vs model membership (type-correct values only)
            if kind not in ("finrange", "logfinrange") and type(v) is dom.value_type:
                okv, b = call(lambda: bool(dom.is_valid(v)))
                if okv:
                    C.add(tb, scale, "(OpMember %s %s)" % (dterm, vterm), "(OB %s)" % blit(b),
                          dict(op="is_valid", kind=kind, spec=spec, value=v, impl=b, only="cast"))
                    count("is_valid", v, nontrivial=False)

    # ---------------- one-domain HyperparameterRanges ---------------------------------------------
    if want("ranges"):
        for active in ([forced_active] if forced_active is not None else [None] + [gen_active(rng, spec) for _ in range(2)]):
            if active is not None:
                oka, adom = call(lambda: build(active))
                if not oka:
                    continue
            ok, hpr = call(lambda: make_hpr({"x": dom}, active_config_space=None if active is None else {"x": adom}))
            ctx.h("active", "yes" if active else "no")
            if not ok:
                # model must reject too; and a constructor that cannot be encoded at all is a property failure
                tb, pool = Tables(), Pool()
                add_tables(tb, spec, "range", active=active)
                C.add(tb, scale, "(OpBounds %s None)" % dspecs_term(pool, [spec], [active]), "ONone",
                      dict(op="make_hyperparameter_ranges", kind=kind, spec=spec, active=active, impl=hpr, only="ranges"))
                count("make_hpr", active, nontrivial=True)
                if active is None:
                    ctx.violation("property", "make_hyperparameter_ranges({'x': %r}) raises %s" % (dom, hpr),
                                  case=dict(spec=spec, only="ranges"),
                                  signature=dict(domain=type(dom).__name__, constructor=kind, num_categories=ncat,
                                                 op="make_hyperparameter_ranges",
                                                 defect="unusable_with_one_category" if ncat == 1 else "construction_raises"))
                continue
            C.slack = spec_slack(spec)
            range_cases(ctx, C, spec, active, dom, adom if active else None, hpr, rng, count, scale)
            C.slack = 0.0

    # ---------------- JSON ---------------------------------------------------------------------------
    if want("json"):
        def roundtrip():
            s = json.dumps(cs.config_space_to_json_dict({"x": dom, "const": 3}))
            return cs.config_space_from_json_dict(json.loads(s))
        ok, back = call(roundtrip)
        pool = Pool()
        dterm = coq_domain(spec, pool)
        if ok and back.get("const") == 3 and type(back.get("const")) is int:
            obs = "(ODom %s)" % coq_domain(spec_of_real(back["x"]), pool)
        else:
            obs = "ONone"
        C.add(Tables(), scale, "(OpJson %s)" % dterm, obs,
              dict(op="json", kind=kind, spec=spec, impl=repr(back), only="json"))
        count("json", None, nontrivial=kind in ("reverseloguniform",) or is_quant)
        sampler_name = ("Quantized" if is_quant else type(dom.get_sampler()).__name__.lstrip("_")) \
            if dom.get_sampler() is not None else None
        if not ok:
            ctx.violation("property", "config_space_to_json_dict({'x': %r}) cannot be written/read as JSON: %s" % (dom, back),
                          case=dict(spec=spec, only="json"),
                          signature=dict(op="json_roundtrip", domain=type(dom).__name__, sampler=sampler_name,
                                         defect="not_json_serialisable"))
        else:
            b = back["x"]
            same_cls = type(b) is type(dom) and type(b.get_sampler()) is type(dom.get_sampler())
            enc_same = True
            okh, hpr = call(lambda: make_hpr({"x": dom}))
            okh2, hpr2 = call(lambda: make_hpr({"x": b}))
            if okh != okh2:
                enc_same = False
            elif okh:
                for _ in range(3):
                    cfg = hpr.random_config(np.random.RandomState(rng.randrange(2 ** 31)))
                    e1 = call(lambda: hpr.to_ndarray(cfg))
                    e2 = call(lambda: hpr2.to_ndarray(cfg))
                    if e1[0] != e2[0] or (e1[0] and not np.array_equal(e1[1], e2[1])):
                        enc_same = False
            if not (same_cls and b == dom and back.get("const") == 3 and enc_same):
                ctx.violation("property", "JSON round trip of %r gives %r (sampler %s): equal=%s, same encoding=%s" % (
                    dom, b, type(b.get_sampler()).__name__, b == dom, enc_same),
                    case=dict(spec=spec, only="json"),
                    signature=dict(op="json_roundtrip", domain=type(dom).__name__, sampler=sampler_name,
                                   defect="reads_back_as_" + str(type(b.get_sampler()).__name__).lstrip("_")))


def check_sample(ctx, spec, dom, ok, x, how, extreme, size, op="sample", case=None):
    kind = spec["kind"]
    ncat = len(spec.get("categories", []))
    is_quant = kind in QUANT_KINDS
    case = case or dict(spec=spec, only="sample" if "raw" in how else "sample_real", how=how)
    sig = dict(op=op, domain=type(dom).__name__, constructor=kind, sampler="Quantized" if is_quant else "plain",
               scaling=scaling_name(kind))
    if not ok:
        sig.update(num_categories=ncat, defect="unusable_with_one_category" if ncat == 1 else "sample_raises")
        ctx.violation("property", "%r.sample() raises %s" % (dom, x), case=case, signature=sig)
        return
    c = classify_nonmember(dom, x)
    if c is None:
        return
    if c["defect"] == "wrong_python_type":
        sig.update(defect="wrong_python_type", size_gt_1=size > 1)
    else:
        sig.update(defect="sample_outside_bounds", magnitude=c["magnitude"])
        if is_quant:
            sig.update(q_divides_bounds=q_divides(spec))
        else:
            sig.update(raw_draw="extreme" if extreme else "interior", degenerate=spec.get("lower") == spec.get("upper"))
    ctx.violation("property", "%r.sample() = %r (type %s) is not a member [%s]" % (dom, x, type(x).__name__, how),
                  case=case, signature=sig)


def check_random_configs(ctx, hpr, rs, targets, case, sig_extra):
    """random_configs(rs, k) for k in {0, 1, 2, 5}: no exception, exactly k configurations, every value a
    member (right type) of its (active / fixed) domain.  targets: key -> (spec, real domain)."""
    for k_ in (0, 1, 2, 5):
        ok, cfgs = call(lambda: hpr.random_configs(rs, k_))
        ctx.count(("random_configs", case, k_), nontrivial=k_ == 1)
        ctx.h("op", "random_configs")
        sig = dict(op="random_configs", num_configs=k_, **sig_extra)
        if not ok:
            ctx.violation("property", "random_configs(rs, %d) raises %s" % (k_, cfgs), case=case, signature=dict(sig, defect="raises"))
            continue
        if not (isinstance(cfgs, list) and len(cfgs) == k_ and all(isinstance(c, dict) and set(c) == set(targets) for c in cfgs)):
            ctx.violation("property", "random_configs(rs, %d) = %r: not a list of %d configurations over %s" % (
                k_, cfgs, k_, sorted(targets)), case=case, signature=dict(sig, defect="wrong_count_or_keys"))
            continue
        for c in cfgs:
            for key, (tspec, tdom) in targets.items():
                cm = classify_nonmember(tdom, c[key])
                if cm is not None:
                    ctx.violation("property", "random_configs(rs, %d): %s=%r (type %s) is not a member of %r" % (
                        k_, key, c[key], type(c[key]).__name__, tdom), case=case,
                        signature=dict(sig, defect="config_value_not_member", constructor=tspec["kind"],
                                       magnitude=cm["magnitude"], value_type=tdom.value_type.__name__))


def check_encode_sequence(ctx, hpr, cfg, cont_keys, bounds_of, rng, case, sig_extra):
    """Encode member configurations that differ by a relative 2e-7 .. 9e-7 in one continuous value (and exact
    repeats) ONE AFTER ANOTHER on the same HyperparameterRanges object; every round trip must be exact for the
    discrete values and within 1e-7 relative for the continuous ones."""
    if not cont_keys:
        return
    key = rng.choice(cont_keys)
    lo, hi = bounds_of[key]
    a = float(cfg[key])
    seq = [dict(cfg)]
    for _ in range(2):
        d = rng.uniform(2e-7, 9e-7)
        b = a * (1 + d) if lo <= a * (1 + d) <= hi else a * (1 - d)
        if lo <= b <= hi and b != a:
            seq.append(dict(cfg, **{key: float(b)}))
    seq.append(dict(cfg))     # exact repeat
    if len(seq) < 3:
        return
    ctx.count(("encode_sequence", case, key), nontrivial=True)
    ctx.h("op", "encode_sequence")
    for step, c in enumerate(seq):
        ok, back = call(lambda: hpr.from_ndarray(hpr.to_ndarray(c)))
        if not ok or any(not same_value(back[k], c[k], k in cont_keys) for k in c):
            ctx.violation("property", "encoding %r one after another on the same object: round trip of step %d (%s=%r) gives %r" % (
                [s_[key] for s_ in seq], step, key, c[key], back if not ok else back[key]), case=case,
                signature=dict(op="round_trip", defect="round_trip_differs", sequence_on_one_object=True, step=min(step, 1),
                               **sig_extra))
            break


def range_cases(ctx, C, spec, active, dom, adom, hpr, rng, count, scale):
    kind = spec["kind"]
    cont = kind in ("uniform", "loguniform", "reverseloguniform", "quniform", "qloguniform")
    ncat = len(spec.get("categories", []))
    size = hpr.ndarray_size
    onehot = size > 1
    case = dict(spec=spec, only="ranges", active=active)
    dname = type(dom).__name__

    def tables(hps=(), vs=()):
        tb = Tables()
        # quantised log domains are encoded linearly (get_scaling does not see through Quantized)
        add_tables(tb, spec, "range", hps=hps, vs=vs, active=active)
        return tb

    # ---- bounds
    ok, bounds = call(lambda: [(float(a), float(b)) for a, b in hpr.get_ndarray_bounds()])
    pool = Pool()
    dsp = dspecs_term(pool, [spec], [active])
    C.add(tables(), scale, "(OpBounds %s None)" % dsp,
          "(OBnd %s)" % lst(["(%s, %s)" % (q(a), q(b)) for a, b in bounds]) if ok else "ONone",
          dict(op="get_ndarray_bounds", kind=kind, spec=spec, active=active, impl=bounds, only="ranges"))
    count("bounds", active, nontrivial=active is not None)
    if ok and not (len(bounds) == size and all(0.0 <= a <= b <= 1.0 for a, b in bounds)):
        ctx.violation("property", "get_ndarray_bounds of %r = %r is not a list of %d sub-intervals of [0,1]" % (dom, bounds, size),
                      case=case, signature=dict(domain=dname, constructor=kind, op="get_ndarray_bounds", defect="bounds_not_in_unit_cube"))

    # ---- decode: corners, thresholds, uniform; inside the active bounds
    vecs = []
    if onehot:
        vecs += [[0.0] * size, [1.0] * size]
        for _ in range(3):
            vecs.append([rng.choice([0.0, 1.0, rng.random()]) for _ in range(size)])
        v = [rng.random()] * size   # exact ties
        vecs.append(v)
    else:
        vecs += [[0.0], [1.0], [0.5], [rng.random()], [rng.random()]]
        vecs += [[t] for t in thresholds_unit(spec, rng)[:ctx.n(5, 15)]]
        if kind in ("randint", "lograndint", "qrandint", "qlograndint"):
            # +-1 ulp from the exact corners
            vecs += [[float(np.nextafter(0.0, 1.0))], [float(np.nextafter(1.0, 0.0))]]
        if kind in ("finrange", "logfinrange") and spec["size"] <= 12:
            # the centre of every index cell: every listed value is decoded (and then round-tripped)
            vecs += [[(k_ + 0.5) / spec["size"]] for k_ in range(spec["size"])]
    inb = []
    if ok:
        inb.append([a for a, b in bounds])
        inb.append([b for a, b in bounds])
        for _ in range(ctx.n(2, 3)):
            inb.append([a + (b - a) * rng.random() for a, b in bounds])
            inb[-1] = [min(max(x, a), b) for x, (a, b) in zip(inb[-1], bounds)]
    for v, in_bounds in [(v, False) for v in vecs] + [(v, True) for v in inb]:
        okd, cfg = call(lambda: hpr.from_ndarray(np.array(v)))
        pool = Pool()
        dsp = dspecs_term(pool, [spec], [active])
        x = cfg["x"] if okd else None
        C.add(tables(vs=v if not onehot else ()), scale, "(OpFromNd %s %s)" % (dsp, lst([q(t) for t in v])),
              ("(OVals [%s])" % pool.val(x)) if okd else "ONone",
              dict(op="from_ndarray", kind=kind, spec=spec, active=active, v=v, impl=repr(x), only="ranges"))
        count("from_ndarray", [active, v], nontrivial=not (kind == "uniform" and active is None))
        ctx.h("cube_point", "in_active_bounds" if in_bounds else ("corner" if all(t in (0.0, 1.0) for t in v) else "interior"))
        if not okd:
            ctx.violation("property", "from_ndarray(%r) of %r raises %s" % (v, dom, cfg), case=case,
                          signature=dict(domain=dname, constructor=kind, op="from_ndarray", defect="decode_raises"))
            continue
        cm = classify_nonmember(dom, x)
        ca = classify_nonmember(adom, x) if (in_bounds and active is not None) else None
        if cm is not None:
            ctx.violation("property", "from_ndarray(%r) of %r = %r (type %s) is not a member" % (v, dom, x, type(x).__name__),
                          case=case, signature=dict(domain=dname, constructor=kind, op="from_ndarray",
                                                    defect="decoded_not_member", magnitude=cm["magnitude"],
                                                    scaling=scaling_name(kind)))
            continue   # no round trip of a non-member
        elif ca is not None:
            act_zero = onehot and all(v[i] == 0.0 for i, c in enumerate(spec["categories"]) if c in active["categories"])
            absorbed = None
            if kind in ("randint", "lograndint") and isinstance(x, int):
                # is the 1e-8 margin of [l - 0.5 + EPS, u + 0.5 - EPS] lost in binary64 at the violated active bound?
                bnd = float(active["lower"] if x < active["lower"] else active["upper"])
                absorbed = bool(bnd + 0.5 - EPS == bnd + 0.5 or bnd - 0.5 + EPS == bnd - 0.5)
                if kind == "lograndint":
                    # with log scaling the margin is also lost once the round-off of exp(log(.)) at the
                    # bound (about 4 ulp * |ln bound|) reaches EPS: from roughly 2**22 on
                    absorbed = absorbed or bool(4 * math.ulp(bnd) * max(1.0, abs(math.log(bnd))) >= EPS)
            ctx.violation("property", "from_ndarray(%r) (inside get_ndarray_bounds %r) of %r with active %r = %r: outside the active sub-range" % (
                v, bounds, dom, adom, x), case=case,
                signature=dict(domain=dname, constructor=kind, op="from_ndarray", defect="decoded_outside_active",
                               encoding="one-hot" if onehot else "scalar", magnitude=ca["magnitude"],
                               scaling=scaling_name(kind), eps_margin_absorbed=absorbed,
                               vector="active_coords_all_zero" if act_zero else "other"))
        # ---- encode the decoded member: round trip
        oke, enc = call(lambda: hpr.to_ndarray({"x": x}))
        pool = Pool()
        dsp = dspecs_term(pool, [spec], [active])
        try:
            xterm = pool.val(x)
        except TypeError:
            continue
        C.add(tables(hps=[x] if isinstance(x, (int, float)) else ()), scale, "(OpToNd %s [%s])" % (dsp, xterm),
              ("(OVec %s)" % lst([q(float(t)) for t in enc])) if oke else "ONone",
              dict(op="to_ndarray", kind=kind, spec=spec, active=active, x=x, impl=repr(enc), only="ranges"))
        count("to_ndarray", [active, x], nontrivial=not (kind == "uniform"))
        if not oke:
            ctx.violation("property", "to_ndarray of the member %r of %r raises %s" % (x, dom, enc), case=case,
                          signature=dict(domain=dname, constructor=kind, op="to_ndarray", defect="encode_raises",
                                         cast_int=bool(spec.get("cast_int")), scaling=scaling_name(kind),
                                         member_in_scaling_domain=not (scaling_name(kind) == "log" and x <= 0)))
            continue
        enc = [float(t) for t in np.asarray(enc).reshape(-1)]
        if not (len(enc) == size and all(0.0 <= t <= 1.0 for t in enc)):
            ctx.violation("property", "to_ndarray(%r) of %r = %r: wrong length or outside [0,1]" % (x, dom, enc), case=case,
                          signature=dict(domain=dname, constructor=kind, op="to_ndarray", defect="encoding_not_in_unit_cube"))
        okb, back = call(lambda: hpr.from_ndarray(np.array(enc))["x"])
        if not okb or not same_value(back, x, cont):
            ctx.violation("property", "round trip of the member %r of %r gives %r" % (x, dom, back), case=case,
                          signature=dict(domain=dname, constructor=kind, op="round_trip", defect="round_trip_differs",
                                         continuous=cont,
                                         range_width_ge_2pow52=bool("lower" in spec and not cont and isinstance(spec["lower"], int)
                                                                    and spec["upper"] - spec["lower"] + 1 >= 2 ** 52)))
    # ---- every category of a small categorical / ordinal domain round-trips, also those OUTSIDE the active
    #      subset (data from past tasks is encoded w.r.t. the full range); checker only, no model case
    if "categories" in spec and ncat <= 8:
        for c_ in spec["categories"]:
            okc, back = call(lambda: hpr.from_ndarray(hpr.to_ndarray({"x": c_}))["x"])
            ctx.count(("member_round_trip", spec, active, c_), nontrivial=active is not None)
            if not okc or not same_value(back, c_, False):
                ctx.violation("property", "round trip of the member %r of %r (active %r) gives %r" % (c_, dom, adom, back),
                              case=case, signature=dict(domain=dname, constructor=kind, op="round_trip",
                                                        defect="round_trip_differs", continuous=False,
                                                        member_in_active=bool(active is None or c_ in active["categories"]),
                                                        encoding="one-hot" if onehot else "scalar"))
    # ---- random_config (real RandomState): member of the active range
    rs = np.random.RandomState(rng.randrange(2 ** 31))
    for _ in range(3):
        okr, cfg = call(lambda: hpr.random_config(rs))
        aspec = active if active is not None else spec
        check_sample(ctx, aspec, adom if active is not None else dom, okr, cfg["x"] if okr else cfg,
                     dict(random_config=True, full=spec), extreme=False, size=1, op="random_config")
        if not okr:
            break
    check_random_configs(ctx, hpr, rs, {"x": (active if active is not None else spec, adom if active is not None else dom)},
                         case, dict(space=False))
    if cont and kind in ("uniform", "loguniform", "reverseloguniform"):
        okr, cfg = call(lambda: {"x": dom.sample(random_state=rs)})
        if okr and is_member(dom, cfg["x"]):
            check_encode_sequence(ctx, hpr, cfg, ["x"], {"x": (float(spec["lower"]), float(spec["upper"]))}, rng, case,
                                  dict(space=False, constructor=kind))


def space_cases(ctx, C, rng, cs, make_hpr, spaces):
    try:
        _space_cases(ctx, C, rng, cs, make_hpr, spaces)
    finally:
        C.slack = 0.0


def _space_cases(ctx, C, rng, cs, make_hpr, spaces):
    kinds = ["uniform", "loguniform", "reverseloguniform", "randint", "lograndint", "choice", "choice", "ordinal_equal",
             "ordinal_nn", "ordinal_nnlog", "finrange", "logfinrange"]
    if spaces is None:
        spaces = []
        for _ in range(ctx.n(22, 800)):
            n = rng.randint(2, 5)
            names = rng.sample(["lr", "wd", "layers", "act", "bs", "mom", "drop", "zeta", "alpha", "epochs"], n)
            sp = {}
            for nm in names:
                s = gen_spec(rng, rng.choice(kinds))
                sp[nm] = s
            act = {nm: gen_active(rng, sp[nm]) for nm in names if rng.random() < 0.4}
            act = {k: v for k, v in act.items() if v is not None}
            prefix = rng.choice([None, None, rng.sample(names, rng.randint(1, n))])
            last = rng.choice([None, None, rng.choice(names)])
            fix = last is not None and rng.random() < 0.6
            spaces.append(dict(space=sp, active=act, prefix_keys=prefix, name_last_pos=last, fix_last=fix,
                               seed=rng.randrange(2 ** 31)))
        # mixed spaces around a huge integer domain (corners of the whole cube are decoded below)
        for h in huge_int_specs(rng)[:ctx.n(6, 40)]:
            sp = {"seed": h, "lr": gen_spec(rng, "loguniform"), "act": gen_spec(rng, "choice"),
                  "layers": gen_spec(rng, "randint")}
            last = rng.choice([None, "seed"])
            spaces.append(dict(space=sp, active={}, prefix_keys=rng.choice([None, ["seed"]]), name_last_pos=last,
                               fix_last=False, seed=rng.randrange(2 ** 31)))
        # fixed last position (value_for_last_pos) with every kind of last attribute, in particular a
        # one-hot block (choice with >= 3 categories, like the task attribute of transfer searchers)
        for lk in ["choice", "choice", "ordinal_equal", "ordinal_nn", "finrange", "logfinrange", "randint", "lograndint",
                   "uniform", "loguniform"][:ctx.n(10, 10)]:
            ls = gen_spec(rng, lk)
            if lk == "choice":
                ls = dict(kind="choice", categories=gen_categories(rng, n=rng.choice([3, 3, 4, 6])))
            sp = {"task": ls, "lr": gen_spec(rng, rng.choice(["loguniform", "uniform"])),
                  "act": gen_spec(rng, rng.choice(["choice", "randint", "ordinal_equal"]))}
            spaces.append(dict(space=sp, active={}, prefix_keys=rng.choice([None, None, ["lr"]]), name_last_pos="task",
                               fix_last=True, seed=rng.randrange(2 ** 31)))
        # all-string spaces (random_configs with num_configs == 1 must not index into a string)
        for _ in range(ctx.n(2, 10)):
            sp = {"act": dict(kind="choice", categories=["relu", "tanh", "gelu"]),
                  "opt": dict(kind=rng.choice(["choice", "ordinal_equal"]), categories=rng.sample(["sgd", "adam", "rmsprop", "lamb"], rng.choice([2, 3, 4])))}
            spaces.append(dict(space=sp, active={}, prefix_keys=None, name_last_pos=None, fix_last=False, seed=rng.randrange(2 ** 31)))
    for S in spaces:
        okb, built = call(lambda: {k: build(v) for k, v in S["space"].items()})
        if not okb:
            continue
        oka, abuilt = call(lambda: {k: build(v) for k, v in S["active"].items()})
        if not oka:
            continue
        config_space = dict(built, fixed_const="c")
        rs = np.random.RandomState(S["seed"])
        value_last = None
        if S["fix_last"]:
            value_last = built[S["name_last_pos"]].sample(random_state=rs)
        ok, hpr = call(lambda: make_hpr(config_space, name_last_pos=S["name_last_pos"], value_for_last_pos=value_last,
                                        active_config_space=abuilt or None, prefix_keys=S["prefix_keys"]))
        if not ok:
            ctx.h("space_rejected", hpr)
            continue
        keys = list(hpr.internal_keys)
        specs = [S["space"][k] for k in keys]
        actives = [S["active"].get(k) for k in keys]
        scale = max(spec_scale(s) for s in specs)
        C.slack = max(spec_slack(s) for s in specs)
        case = dict(space=S)
        ctx.h("space_dims", hpr.ndarray_size)
        ctx.h("space_opts", "prefix" if S["prefix_keys"] else "noprefix")
        ctx.h("space_opts", "fixed_last" if S["fix_last"] else ("last" if S["name_last_pos"] else "nolast"))

        def tables(cfgs=(), vecs=()):
            tb = Tables()
            er = hpr.encoded_ranges
            for k, s, a in zip(keys, specs, actives):
                st, en = er[k]
                add_tables(tb, s, "range", hps=[c[k] for c in cfgs if isinstance(c[k], (int, float))],
                           vs=[v[st] for v in vecs] if en - st == 1 else (), active=a)
            return tb

        # bounds (with fixed last position)
        okx, bounds = call(lambda: [(float(a), float(b)) for a, b in hpr.get_ndarray_bounds()])
        pool = Pool()
        dsp = dspecs_term(pool, specs, actives)
        fixed_term = "None"
        if value_last is not None:
            fixed_term = "(Some %s)" % pool.val(value_last)
        C.add(tables(cfgs=[{k: (value_last if k == S["name_last_pos"] else None) for k in keys}] if value_last is not None else ()),
              scale, "(OpBounds %s %s)" % (dsp, fixed_term),
              "(OBnd %s)" % lst(["(%s, %s)" % (q(a), q(b)) for a, b in bounds]) if okx else "ONone",
              dict(op="space_bounds", space=S, impl=bounds))
        ctx.count(("space_bounds", S), nontrivial=True)
        ctx.h("op", "space_bounds")
        # random configs: members, encode, decode
        for j in range(3):
            okr, cfg = call(lambda: hpr.random_config(rs))
            if not okr:
                one = [(k, sp_) for k in keys for sp_ in (S["active"].get(k), S["space"][k]) if sp_ is not None
                       and sp_["kind"].startswith("ordinal_nn") and len(sp_["categories"]) == 1]
                if one:
                    check_sample(ctx, one[0][1], abuilt.get(one[0][0], built[one[0][0]]), False, cfg, dict(space=True),
                                 False, 1, op="random_config", case=case)
                else:
                    ctx.violation("property", "random_config raises %s" % cfg, case=case,
                                  signature=dict(op="random_config", defect="raises", space=True))
                break
            for k in keys:
                target, tspec = abuilt.get(k, built[k]), S["active"].get(k, S["space"][k])
                if k == S["name_last_pos"] and value_last is not None:
                    target, tspec = built[k], S["space"][k]
                check_sample(ctx, tspec, target, True, cfg[k], dict(space=True, key=k), False, 1, op="random_config", case=case)
            if value_last is not None and cfg[S["name_last_pos"]] != value_last:
                ctx.violation("property", "random_config ignores value_for_last_pos", case=case,
                              signature=dict(op="random_config", defect="fixed_last_ignored"))
            oke, enc = call(lambda: hpr.to_ndarray(cfg))
            pool = Pool()
            dsp = dspecs_term(pool, specs, actives)
            C.add(tables(cfgs=[cfg]), scale, "(OpToNd %s %s)" % (dsp, pool.vals([cfg[k] for k in keys])),
                  ("(OVec %s)" % lst([q(float(t)) for t in enc])) if oke else "ONone",
                  dict(op="space_to_ndarray", space=S, config=cfg, impl=repr(enc)))
            ctx.count(("space_to_nd", S, j), nontrivial=True)
            ctx.h("op", "space_to_ndarray")
            if not oke:
                badk = [k for k in keys if S["space"][k]["kind"] == "logfinrange" and cfg[k] <= 0]
                sig = dict(op="to_ndarray", defect="encode_raises", space=True)
                if badk:
                    sig.update(domain="FiniteRange", constructor="logfinrange", cast_int=bool(S["space"][badk[0]]["cast_int"]),
                               scaling="log", member_in_scaling_domain=False)
                ctx.violation("property", "to_ndarray(%r) raises %s" % (cfg, enc), case=case, signature=sig)
                continue
            enc = np.asarray(enc, dtype=float).reshape(-1)
            if not (enc.size == hpr.ndarray_size and np.all(enc >= 0) and np.all(enc <= 1)):
                ctx.violation("property", "to_ndarray(%r) = %r wrong length or outside [0,1]" % (cfg, enc), case=case,
                              signature=dict(op="to_ndarray", defect="encoding_not_in_unit_cube", space=True))
            okd, back = call(lambda: hpr.from_ndarray(enc))
            if not okd or any(not same_value(back[k], cfg[k], isinstance(cfg[k], float) and S["space"][k]["kind"] in (
                    "uniform", "loguniform", "reverseloguniform")) for k in keys):
                sig = dict(op="round_trip", defect="round_trip_differs", space=True)
                if okd:
                    badk = [k for k in keys if not same_value(back[k], cfg[k], isinstance(cfg[k], float) and S["space"][k]["kind"] in (
                        "uniform", "loguniform", "reverseloguniform"))]
                    bs = S["space"][badk[0]]
                    sig.update(domain=type(built[badk[0]]).__name__, constructor=bs["kind"],
                               range_width_ge_2pow52=bool(all(
                                   "lower" in S["space"][k] and isinstance(S["space"][k]["lower"], int)
                                   and S["space"][k]["upper"] - S["space"][k]["lower"] + 1 >= 2 ** 52 for k in badk)))
                ctx.violation("property", "space round trip of %r gives %r" % (cfg, back), case=case, signature=sig)
        # random_config with prescribed raw draws against the model's random_config
        okcs, csamp = call(lambda: hpr.config_space_for_sampling)
        if okcs:
            skeys = list(csamp.keys())
            sspecs = [S["active"].get(k, S["space"][k]) for k in skeys]
            raws = [raw_for(rng, sp_) for sp_ in sspecs]
            qrs = QueueRandomState([r_ for r_ in raws if r_ is not None])
            okq, qcfg = call(lambda: hpr.random_config(qrs))
            tb = Tables()
            ures = iter(qrs.results)
            for sp_, r_ in zip(sspecs, raws):
                if r_ is not None:
                    res_ = next(ures, None)
                    add_tables(tb, sp_, "domain", raws=[res_] if res_ is not None else [])
            pool = Pool()
            dsp = dspecs_term(pool, [S["space"][k] for k in skeys], [S["active"].get(k) for k in skeys])
            fx = "None"
            if value_last is not None:
                fx = "(Some (%s, %s))" % (natlit(skeys.index(S["name_last_pos"])), pool.val(value_last))
            rterms = lst([("(RawU %s)" % q(r_[1]) if r_[0] == "u" else "(RawI %s)" % zlit(r_[1])) if r_ is not None else "(RawU 0)"
                          for r_ in raws])
            try:
                obs = ("(OVals %s)" % pool.vals([qcfg[k] for k in skeys])) if okq else "ONone"
            except TypeError:
                obs = "ONone"
            C.add(tb, scale, "(OpRandomConfig %s %s %s)" % (dsp, fx, rterms), obs,
                  dict(op="random_config_model", space=S, raws=[list(r_) if r_ else None for r_ in raws], impl=repr(qcfg)))
            ctx.count(("random_config_model", S), nontrivial=True)
            ctx.h("op", "random_config_model")
        # random_configs(rs, k), k in {0, 1, 2, 5}
        targets = {}
        for k in keys:
            tdom, tspec = abuilt.get(k, built[k]), S["active"].get(k, S["space"][k])
            if k == S["name_last_pos"] and value_last is not None:
                tdom, tspec = built[k], S["space"][k]
            targets[k] = (tspec, tdom)
        check_random_configs(ctx, hpr, rs, targets, case,
                             dict(space=True, all_string=all(t[1].value_type is str for t in targets.values())))
        # encode sequences on ONE object
        ckeys = [k for k in keys if S["space"][k]["kind"] in ("uniform", "loguniform", "reverseloguniform")]
        okr, cfg0 = call(lambda: {k: built[k].sample(random_state=rs) for k in keys})
        if okr and all(is_member(built[k], cfg0[k]) for k in keys):
            check_encode_sequence(ctx, hpr, cfg0, ckeys, {k: (float(S["space"][k]["lower"]), float(S["space"][k]["upper"])) for k in ckeys},
                                  rng, case, dict(space=True))
        # fixed last position: member configurations whose last attribute DIFFERS from value_for_last_pos
        # (data from other resource levels / tasks) are encoded w.r.t. the full range and must decode to
        # themselves: from_ndarray must not substitute the fixed value.  Checker only (no model case).
        if value_last is not None:
            lk_ = S["name_last_pos"]
            lcont = S["space"][lk_]["kind"] in ("uniform", "loguniform", "reverseloguniform")
            others, tries = [], 0
            while len(others) < 3 and tries < 20:
                tries += 1
                okv, ov = call(lambda: built[lk_].sample(random_state=rs))
                if okv and is_member(built[lk_], ov) and not same_value(ov, value_last, lcont) and ov not in others:
                    others.append(ov)
            base_cfg = {k: built[k].sample(random_state=rs) for k in keys}
            if all(is_member(built[k], base_cfg[k]) for k in keys):
                for ov in others:
                    cfg2 = dict(base_cfg, **{lk_: ov})
                    okd, back = call(lambda: hpr.from_ndarray(hpr.to_ndarray(cfg2)))
                    ctx.count(("fixed_last_other_round_trip", S, repr(ov)), nontrivial=True)
                    ctx.h("op", "fixed_last_other_round_trip")
                    if not okd or any(not same_value(back[k], cfg2[k], isinstance(cfg2[k], float) and S["space"][k]["kind"] in (
                            "uniform", "loguniform", "reverseloguniform")) for k in keys):
                        ctx.violation("property", "value_for_last_pos=%r is set; round trip of the member configuration %r "
                                      "(last attribute %s differs from the fixed value) gives %r" % (value_last, cfg2, lk_, back),
                                      case=case, signature=dict(op="round_trip", defect="round_trip_differs", space=True,
                                                                fixed_last=True, last_differs_from_fixed_value=True,
                                                                constructor=S["space"][lk_]["kind"]))
        # bounds sequences on ONE object: value_for_last_pos is a public attribute that searchers re-assign
        # (e.g. the resource level before every get_config); after each assignment get_ndarray_bounds() must pin
        # the CURRENT value, vectors inside must decode to it, and random_config's encoding must lie inside
        if value_last is not None and others:
            lk_ = S["name_last_pos"]
            lcont = S["space"][lk_]["kind"] in ("uniform", "loguniform", "reverseloguniform")
            st, en = hpr.encoded_ranges[lk_]
            seq_vals = list(others[:2]) + [value_last]
            for step_, nv in enumerate(seq_vals):
                hpr.value_for_last_pos = nv
                okb2, b2 = call(lambda: [(float(a_), float(b_)) for a_, b_ in hpr.get_ndarray_bounds()])
                okc2, cfg2 = call(lambda: hpr.random_config(rs))
                ctx.count(("fixed_last_bounds_sequence", S, step_), nontrivial=True)
                ctx.h("op", "fixed_last_bounds_sequence")
                sig = dict(op="get_ndarray_bounds", space=True, fixed_last=True, sequence_on_one_object=True,
                           constructor=S["space"][lk_]["kind"])
                what = None
                if not okb2 or not okc2:
                    what, sig["defect"] = "raises %s / %s" % (b2 if not okb2 else "", cfg2 if not okc2 else ""), "raises"
                else:
                    enc2 = [float(t) for t in np.asarray(hpr.to_ndarray(cfg2)).reshape(-1)]
                    want = enc2[st:en]
                    if not same_value(cfg2[lk_], nv, lcont):
                        what, sig["defect"] = "random_config gives %s=%r" % (lk_, cfg2[lk_]), "fixed_last_ignored"
                    elif any(abs(lo_ - w_) > 1e-9 or abs(hi_ - w_) > 1e-9 for (lo_, hi_), w_ in zip(b2[st:en], want)):
                        what, sig["defect"] = ("bounds of the last attribute %r do not pin the encoding %r of the current value "
                                               "(random_config's encoding is outside the bounds)" % (b2[st:en], want)), "bounds_pin_stale_value"
                    else:
                        for v2 in ([a_ for a_, b_ in b2], [a_ + (b_ - a_) * rng.random() for a_, b_ in b2]):
                            okd2, dec2 = call(lambda: hpr.from_ndarray(np.array(v2)))
                            if not okd2 or not same_value(dec2[lk_], nv, lcont):
                                what, sig["defect"] = "from_ndarray(%r) inside the bounds gives %s=%r" % (
                                    v2, lk_, dec2[lk_] if okd2 else dec2), "fixed_last_value_not_decoded"
                                break
                if what is not None:
                    ctx.violation("property", "one object, value_for_last_pos assigned %r in turn (initially %r); after assigning %r: "
                                  "get_ndarray_bounds() = %r; %s" % (seq_vals[:step_ + 1], value_last, nv, b2 if okb2 else None, what),
                                  case=case, signature=sig)
                    break
            hpr.value_for_last_pos = value_last
        # decode cube points
        n = hpr.ndarray_size
        vecs = [[0.0] * n, [1.0] * n, [float(rng.choice([0, 1])) for _ in range(n)], [rng.random() for _ in range(n)],
                [rng.random() for _ in range(n)]]
        if any(abs(s_.get("upper", 0)) >= 2 ** 24 for s_ in specs):
            vecs += [[float(np.nextafter(0.0, 1.0))] * n, [float(np.nextafter(1.0, 0.0))] * n]
        n_free = len(vecs)
        if okx:
            # inside get_ndarray_bounds(): both corners and random points
            vecs += [[a for a, b in bounds], [b for a, b in bounds]]
            vecs += [[a + (b - a) * rng.random() for a, b in bounds] for _ in range(2)]
            vecs.append([rng.choice([a, b]) for a, b in bounds])
        for vi, v in enumerate(vecs):
            okd, cfg = call(lambda: hpr.from_ndarray(np.array(v)))
            pool = Pool()
            dsp = dspecs_term(pool, specs, actives)
            C.add(tables(vecs=[v]), scale, "(OpFromNd %s %s)" % (dsp, lst([q(t) for t in v])),
                  ("(OVals %s)" % pool.vals([cfg[k] for k in keys])) if okd else "ONone",
                  dict(op="space_from_ndarray", space=S, v=v, impl=repr(cfg)))
            ctx.count(("space_from_nd", S, vi), nontrivial=True)
            ctx.h("op", "space_from_ndarray")
            if not okd:
                ctx.violation("property", "from_ndarray(%r) raises %s" % (v, cfg), case=case,
                              signature=dict(op="from_ndarray", defect="decode_raises", space=True))
                continue
            for k in keys:
                if not is_member(built[k], cfg[k]):
                    ctx.violation("property", "space from_ndarray: %s=%r not a member of %r" % (k, cfg[k], built[k]), case=case,
                                  signature=dict(op="from_ndarray", defect="decoded_not_member", space=True,
                                                 constructor=S["space"][k]["kind"]))
            if vi >= n_free and value_last is not None:
                # a vector inside get_ndarray_bounds() decodes to the fixed value of the last attribute
                lk_ = S["name_last_pos"]
                lkind = S["space"][lk_]["kind"]
                got = cfg[lk_]
                if not same_value(got, value_last, lkind in ("uniform", "loguniform", "reverseloguniform")):
                    ctx.h("fixed_last_kind", lkind)
                    ctx.violation("property", "from_ndarray(%r) (inside get_ndarray_bounds %r, value_for_last_pos=%r of %r) gives %s=%r" % (
                        v, bounds, value_last, built[lk_], lk_, got), case=case,
                        signature=dict(op="from_ndarray", defect="fixed_last_value_not_decoded", space=True,
                                       constructor=lkind, encoded_size=int(hpr.encoded_ranges[lk_][1] - hpr.encoded_ranges[lk_][0])))
