"""C14 — correspondence of model/SearcherData.v with the real HyperbandScheduler (stopping, promotion) +
GPMultiFidelitySearcher / HyperTuneSearcher state, and an independent checker of the property on the
implementation's searcher state after EVERY event.

One case = a scheduler configuration + an operation list the harness produces in the role of the Tuner:
  ["suggest", b]      scheduler.suggest(next id) with the bracket forced to b (public attribute
                      bracket_distribution); the scheduler answers with a new trial (on_trial_add) or a resume
  ["report", t, v]    on_trial_result with the next level of t's current run (after a resume: from
                      resume_from+1 with checkpointing, from 1 without); STOP/PAUSE -> on_trial_remove
  ["complete", t]     on_trial_complete(t, last seen result)
  ["fail", t]         on_trial_error(t)
After every operation the public attribute scheduler.searcher.state_transformer.state is read."""
import contextlib
import datetime
import io
import logging

import numpy as np

from common import q, lst, natlit, zlit, blit

IMPORTS = "From Verif Require Import model.Base model.SearcherData.\nOpen Scope Z_scope.\n"
PRELUDE = r"""
Definition c14_case := (config * list (event * snapshot))%type.
Definition chk_case (c : c14_case) : bool := first_diff (fst c) init (snd c) 0 =? -1.
Definition diag_case (c : c14_case) : Z := first_diff (fst c) init (snd c) 0.
"""

POLICY = {"rungs": "Rungs", "all": "AllData", "rungs_and_last": "RungsAndLast"}

RUNG_SETUPS = [
    dict(grace_period=1, reduction_factor=3, max_t=9),          # [1, 3]
    dict(grace_period=1, reduction_factor=2, max_t=8),          # [1, 2, 4]
    dict(grace_period=2, reduction_factor=2, max_t=9),          # [2, 4, 8]
    dict(rung_levels=[1, 2, 5], max_t=7),
    dict(grace_period=3, reduction_factor=2, max_t=5),          # [3]
    dict(grace_period=1, reduction_factor=3, max_t=27),         # [1, 3, 9]
    dict(grace_period=1, reduction_factor=4, max_t=4),          # [1]
]


DYHPO_SETUPS = [
    dict(grace_period=1, rung_increment=1, max_t=6),      # [1, 2, 3, 4, 5]
    dict(grace_period=2, rung_increment=2, max_t=9),      # [2, 4, 6, 8]
    dict(grace_period=1, rung_increment=1, max_t=4),
]


class OneHot:
    """harness-side bracket distribution: next sampled bracket is `self.b`"""

    def __init__(self):
        self.b, self.n = 0, 1

    def configure(self, scheduler):
        self.n = scheduler.terminator.num_brackets

    def __call__(self):
        p = np.zeros(self.n)
        p[min(self.b, self.n - 1)] = 1.0
        return p


def gen_spec(rng, fits=False):
    spec = dict(
        searcher=rng.choice(["bayesopt", "hypertune"]),
        type=rng.choice(["stopping", "promotion"]),
        searcher_data=rng.choice(["rungs", "all", "rungs_and_last"]),
        myopic=rng.random() < 0.5,
        mode=rng.choice(["min", "max"]),
        rungs=rng.randrange(len(RUNG_SETUPS)),
        brackets=rng.choice([1, 1, 2, 3]),
        per_bracket=rng.random() < 0.2,
        ckpt=rng.random() < 0.5,
        workers=rng.randint(1, 4),
        nops=rng.randint(8, 45),
        p_fail=rng.choice([0.0, 0.05, 0.15]),
        p_complete=rng.choice([0.0, 0.0, 0.05]),
        p_fail_after_decision=rng.choice([0.0, 0.0, 0.2]),
        seed=rng.randrange(2 ** 31),
        num_init_random=3 if fits else 10000,
        p_late=rng.choice([0.0, 0.0, 0.1, 0.2]),
        map_reward=rng.choice([None, None, "1_minus_x", "minus_x", "2_minus_x", "obj2", "obj0.5"]),
    )
    if fits:
        spec["nops"] = rng.randint(12, 20)
        spec["rungs"] = 0
        if spec["searcher"] == "hypertune":
            # HyperTune's independent-GP surrogate only accepts data at rung levels (documented restriction)
            spec["searcher_data"] = "rungs"
    return spec


def make_scheduler(spec):
    from syne_tune.optimizer.schedulers.hyperband import HyperbandScheduler
    from syne_tune.config_space import uniform, randint
    is_dyhpo = spec["type"] == "dyhpo"
    setup = dict((DYHPO_SETUPS[spec["rungs"] % len(DYHPO_SETUPS)] if is_dyhpo else RUNG_SETUPS[spec["rungs"]]))
    max_t = setup.pop("max_t")
    cs = {"x": uniform(0.0, 1.0), "y": randint(0, 1000), "epochs": max_t}
    extra_opts = {}
    if spec.get("tiny_space"):
        from syne_tune.config_space import choice
        cs = {"x": choice(["a", "b", "c"][:spec["tiny_space"]]), "epochs": max_t}
    if spec.get("allow_dup"):
        extra_opts["allow_duplicates"] = True
    if spec.get("max_size"):
        extra_opts["max_size_data_for_model"] = spec["max_size"]
    mr = spec.get("map_reward")
    if mr is not None:
        if mr.startswith("obj"):
            from syne_tune.optimizer.schedulers.searchers.gp_searcher_utils import map_reward_const_minus_x
            extra_opts["map_reward"] = map_reward_const_minus_x(const=float(mr[3:]))     # a MapReward object
        else:
            extra_opts["map_reward"] = mr
    sink = io.StringIO()
    with contextlib.redirect_stdout(sink), contextlib.redirect_stderr(sink):
        sch = HyperbandScheduler(
            cs, searcher="dyhpo" if is_dyhpo else spec["searcher"], type=spec["type"], metric="m", mode=spec["mode"],
            resource_attr="epoch", max_resource_attr="epochs", brackets=1 if is_dyhpo else spec["brackets"],
            searcher_data=spec["searcher_data"], register_pending_myopic=spec["myopic"],
            rung_system_per_bracket=spec["per_bracket"], random_seed=spec["seed"] % 10000,
            search_options=dict({"num_init_random": spec["num_init_random"], "debug_log": False,
                                 "opt_maxiter": 3, "opt_nstarts": 1, "num_init_candidates": 20}, **extra_opts), **setup)
    onehot = OneHot()
    # HyperTuneSearcher.configure_scheduler installs its own distribution: re-install ours afterwards
    orig = sch.searcher.configure_scheduler

    def configure_scheduler(scheduler, _orig=orig):
        _orig(scheduler)
        scheduler.bracket_distribution = onehot

    sch.searcher.configure_scheduler = configure_scheduler
    sch.bracket_distribution = onehot
    return sch, onehot, max_t


class _Obj:
    def __init__(self, **kw):
        self.__dict__.update(kw)


def read_state(sch):
    if not hasattr(sch.searcher, "state_transformer"):
        # DynamicHPOSearcher wraps the GP searcher that owns the TuningJobState: read it through the public get_state()
        enc = sch.searcher.get_state()["searcher_int"]["state"]
        st = _Obj(trials_evaluations=[_Obj(trial_id=e["trial_id"], metrics=e["metrics"]) for e in enc["trials_evaluations"]],
                  pending_evaluations=[_Obj(trial_id=p["trial_id"], resource=p.get("resource")) for p in enc["pending_evaluations"]],
                  failed_trials=list(enc["failed_trials"]))
    else:
        st = sch.searcher.state_transformer.state
    obs, dup_trial = [], False
    seen = set()
    for ev in st.trials_evaluations:
        if ev.trial_id in seen:
            dup_trial = True
        seen.add(ev.trial_id)
        tgt = ev.metrics.get("target", {})
        for k, val in tgt.items():
            obs.append((int(ev.trial_id), int(k), float(val)))
    pend = [(int(p.trial_id), int(p.resource)) for p in st.pending_evaluations]
    failed = [int(x) for x in st.failed_trials]
    return obs, pend, failed, dup_trial


def fitted_data_problems(sch, spec, stats):
    """Second observation point: the data set the surrogate model is actually fitted to -- the state after the state
    converter (state_transformer.fit().state, down-sampled to max_size_data_for_model) and the rows
    observed_data_for_metric() hands to the model. Every fitted observation must be a CURRENT observation with its current
    value; the documented size min(#observations, max_size) must be met; every fitted (trial, level) gives one row."""
    tr = sch.searcher.state_transformer

    def obs_of(state):
        return {(str(ev.trial_id), int(r)): float(v) for ev in state.trials_evaluations
                for r, v in ev.metrics.get("target", {}).items()}

    full = obs_of(tr.state)
    if not full:
        return []
    try:
        pred = tr.fit()
    except Exception as e:      # a fit the harness asked for; not part of the property
        stats["fit_exceptions"] = stats.get("fit_exceptions", 0) + 1
        return []
    if isinstance(pred, dict):
        pred = next(iter(pred.values()))
    fstate = pred.state
    stats["fits"] = stats.get("fits", 0) + 1
    fitted = obs_of(fstate)
    bad = []
    for key, val in fitted.items():
        if key not in full:
            bad.append(("fitted_observation_not_current", key, val, sorted(full)))
        elif full[key] != val:
            bad.append(("fitted_observation_value_not_current", key, val, full[key]))
    max_size = spec.get("max_size") or 500
    if len(full) > max_size:
        stats["subsampled_fits"] = stats.get("subsampled_fits", 0) + 1
    if len(fitted) != min(len(full), max_size):
        bad.append(("fitted_data_size", len(fitted), len(full), max_size))
    if len(full) <= max_size and fitted != full:
        bad.append(("fitted_data_differs_without_subsampling", sorted(set(full) ^ set(fitted))))
    # third observation point, independent-GP-per-level surrogate (HyperTune / model="gp_independent"): the posterior
    # state of level r must be conditioned on every observation and every fantasised pending evaluation at level r
    pstates = getattr(pred, "posterior_states", None)
    if pstates and hasattr(pstates[0], "state"):
        from collections import Counter
        n_obs = Counter(r for (_, r) in fitted)
        n_pend = Counter(int(p.resource) for p in fstate.pending_evaluations)
        stats["per_level_checks"] = stats.get("per_level_checks", 0) + 1
        model_levels = set(sch.rung_levels) | {sch.max_t}      # the independent model has one GP per rung level (and max_t)
        for level in sorted((set(n_obs) | set(n_pend)) & model_levels):
            try:
                num_data = int(pstates[0].state(level).num_data)
            except KeyError:
                num_data = 0
            if n_obs[level] + n_pend[level] == 1:
                stats["levels_with_single_datapoint"] = stats.get("levels_with_single_datapoint", 0) + 1
            if num_data != n_obs[level] + n_pend[level]:
                bad.append(("per_level_surrogate_data_differs", level, num_data, n_obs[level], n_pend[level]))
    # fourth observation point: the feature/target matrices the GP conditions on. (a) transform_state_to_data (the function
    # GaussProcEstimator calls on this state) must return one row per fitted observation -- trials sharing a configuration
    # (allow_duplicates) included --, the un-normalised targets being the fitted values; (b) the posterior state of the
    # joint GP was computed from one row per fitted observation plus one per pending evaluation
    n_pending = len(fstate.pending_evaluations)
    try:
        from syne_tune.optimizer.schedulers.searchers.bayesopt.models.estimator import transform_state_to_data
        from syne_tune.optimizer.schedulers.searchers.bayesopt.datatypes.tuning_job_state import TuningJobState
        # (the predictor's state carries its pending evaluations without the fantasy samples: observed part only here;
        # the pending rows are covered by num_data of the posterior state below)
        ostate = TuningJobState(hp_ranges=fstate.hp_ranges, config_for_trial=fstate.config_for_trial,
                                trials_evaluations=fstate.trials_evaluations, failed_trials=fstate.failed_trials,
                                pending_evaluations=[])
        data = transform_state_to_data(ostate, normalize_targets=False, num_fantasy_samples=1)
        stats["gp_matrix_checks"] = stats.get("gp_matrix_checks", 0) + 1
        n_rows = int(data.features.shape[0])
        if n_rows != len(fitted) or int(data.targets.shape[0]) != n_rows:
            bad.append(("gp_feature_rows_differ_from_fitted_observations", n_rows, len(fitted)))
        else:
            got = sorted(float(x) for x in data.targets[:len(fitted), 0])
            if got != sorted(fitted.values()):
                bad.append(("gp_targets_differ_from_fitted_observations", got[:4], sorted(fitted.values())[:4]))
        if len(set((str(sorted(fstate.config_for_trial[t].items())), r) for (t, r) in fitted)) < len(fitted):
            stats["gp_matrix_checks_with_shared_inputs"] = stats.get("gp_matrix_checks_with_shared_inputs", 0) + 1
    except (AttributeError, ImportError, TypeError) as e:      # observation point not available: noted, not a finding
        stats["gp_matrix_check_unavailable_" + type(e).__name__] = stats.get("gp_matrix_check_unavailable_" + type(e).__name__, 0) + 1
    if pstates and not hasattr(pstates[0], "state"):
        nd = getattr(pstates[0], "num_data", None)
        if isinstance(nd, (int, np.integer)):
            stats["gp_posterior_num_data_checks"] = stats.get("gp_posterior_num_data_checks", 0) + 1
            if int(nd) != len(fitted) + n_pending:
                bad.append(("gp_posterior_num_data_differs_from_fitted_observations", int(nd), len(fitted), n_pending))
    # rows handed to the surrogate
    configs, values = fstate.observed_data_for_metric()
    base_keys = set(next(iter(fstate.config_for_trial.values())).keys()) if fstate.config_for_trial else set()
    rows = []
    for cfg, val in zip(configs, values):
        rk = [k for k in cfg if k not in base_keys]
        rows.append((tuple(sorted((k, str(v)) for k, v in cfg.items() if k in base_keys)), int(cfg[rk[0]]) if rk else None, float(val)))
    want = []
    for (tid, r), val in fitted.items():
        cfg = fstate.config_for_trial[tid]
        want.append((tuple(sorted((k, str(v)) for k, v in cfg.items())), r, val))
    # the same comparison through the Coq model (cap_state / fitted_rows), a few per case
    if len(stats.setdefault("coq_cases", [])) < 3 and (len(full) > max_size or stats.get("fits", 0) % 5 == 0):
        ids = {}
        for tid, cfg in fstate.config_for_trial.items():
            ids.setdefault(tuple(sorted((k, str(v)) for k, v in cfg.items())), len(ids))
        tbl = [(int(tid), ids[tuple(sorted((k, str(v)) for k, v in cfg.items()))]) for tid, cfg in fstate.config_for_trial.items()]

        def st_term(state):
            o = ["((%s, %s), %s)" % (zlit(int(t)), zlit(r), q(v)) for (t, r), v in obs_of(state).items()]
            pe = ["(%s, %s)" % (zlit(int(x.trial_id)), zlit(int(x.resource))) for x in state.pending_evaluations]
            fa = [zlit(int(x)) for x in state.failed_trials]
            return "{| obs := %s; pend := %s; failed := %s |}" % (
                lst(o) if o else "(@nil ((Z * Z) * Q))", lst(pe) if pe else "(@nil (Z * Z))", lst(fa) if fa else "(@nil Z)")
        rws = ["((%s, %s), %s)" % (zlit(ids[r0]) if r0 in ids else zlit(-2), zlit(r1), q(r2)) for (r0, r1, r2) in rows]
        keys = [zlit(int(t)) for t in tr.state.config_for_trial.keys()]
        stats["coq_cases"].append("(%s, %s, %s, %s, %s, %s)" % (
            natlit(min(max_size, 4000)), lst(keys) if keys else "(@nil Z)", st_term(tr.state), st_term(fstate),
            lst(["(%s, %s)" % (zlit(a), zlit(b)) for a, b in tbl]) if tbl else "(@nil (Z * Z))",
            lst(rws) if rws else "(@nil (Z * Z * Q))"))
    if sorted(rows) != sorted(want):
        missing = [w for w in want if w not in rows]
        bad.append(("rows_handed_to_surrogate_differ", len(rows), len(want), missing[:3]))
        if len(set((w[0], w[1]) for w in want)) < len(want):
            stats["duplicate_inputs"] = stats.get("duplicate_inputs", 0) + 1
    elif len(set((w[0], w[1]) for w in want)) < len(want):
        stats["duplicate_inputs"] = stats.get("duplicate_inputs", 0) + 1
    return bad


class Life:
    """harness-side bookkeeping of one trial (independent of the model)"""

    def __init__(self, bracket, first_ms):
        self.bracket, self.first_ms = bracket, first_ms
        self.status = "running"      # running | paused | stopped | completed | failed
        self.pos = 0                 # last level reported in the current run
        self.resume_from = 0
        self.first = {}              # level -> first metric reported there
        self.last = None             # (level, metric) last seen result
        self.last_new = None         # highest level delivered for the first time
        self.completed_at = None


def run_case(spec, ops=None):
    """Runs one case on the real scheduler. ops=None: generate adaptively (recorded in the result)."""
    import random
    from syne_tune.backend.trial_status import Trial
    rng = random.Random(spec["seed"])
    sch, onehot, max_t = make_scheduler(spec)
    rung_levels = list(sch.rung_levels)
    nb = sch.terminator.num_brackets
    lives, trials = {}, {}
    next_id = 0
    recorded, events, snaps, problems = [], [], [], []
    fit_stats = {}
    exc = None
    t0 = datetime.datetime(2020, 1, 1)

    def crit(v):
        # mode min: the metric itself whatever map_reward says; mode max: map_reward(metric) = const - metric
        return reward_const(spec) - v if spec["mode"] == "max" else v

    def metric_value():
        if spec["mode"] == "max" or rng.random() < 0.5:
            return rng.randint(1, 1023) / 1024.0
        return rng.uniform(-2.0, 2.0)

    def choose_op():
        running = [t for t, l in lives.items() if l.status == "running"]
        cands = []
        if len(running) < spec["workers"]:
            cands += ["suggest"] * 2
        if running:
            cands += ["report"] * 6
        idle = [t for t, l in lives.items() if l.status != "running" and l.pos < max_t]
        if idle and spec.get("p_late", 0) and rng.random() < spec["p_late"]:
            return ["late", rng.choice(idle), metric_value()]
        if not cands:
            return ["suggest", rng.randrange(nb)]
        op = rng.choice(cands)
        if op == "suggest":
            return ["suggest", rng.randrange(nb)]
        t = rng.choice(running)
        u = rng.random()
        if u < spec["p_fail"]:
            return ["fail", t]
        if u < spec["p_fail"] + spec["p_complete"] and lives[t].last is not None:
            return ["complete", t]
        return ["report", t, metric_value()]

    n_ops = spec["nops"] if ops is None else len(ops)
    i = 0
    pending_extra = []      # ops forced by the protocol (fail in the same poll as a decision)
    while i < n_ops or pending_extra:
        if pending_extra:
            op = pending_extra.pop(0)
        elif ops is None:
            op = choose_op()
            i += 1
        else:
            op = ops[i]
            i += 1
        recorded.append(op)
        decision = None
        try:
            if op[0] == "suggest":
                onehot.b = op[1]
                sug = sch.suggest(next_id)
                if sug is None:
                    events.append(None)
                elif sug.spawn_new_trial_id:
                    tid = next_id
                    next_id += 1
                    trial = Trial(trial_id=tid, config=sug.config, creation_time=t0)
                    trials[tid] = trial
                    sch.on_trial_add(trial)
                    b = min(op[1], nb - 1)
                    lives[tid] = Life(b, rung_levels[b] if b < len(rung_levels) else max_t)
                    events.append("Start %s %s" % (zlit(tid), natlit(b)))
                else:
                    tid = int(sug.checkpoint_trial_id)
                    l = lives[tid]
                    if l.status == "running":
                        problems.append(("resume_of_running_trial", tid))
                    l.resume_from = l.last_new if l.last_new is not None else 0
                    l.pos = l.resume_from if spec["ckpt"] else 0
                    l.status = "running"
                    events.append("Resume %s %s" % (zlit(tid), natlit(min(op[1], nb - 1))))
            elif op[0] == "report":
                tid, v = op[1], op[2]
                l = lives[tid]
                r = l.pos + 1
                l.pos = r
                if r not in l.first:
                    l.first[r] = v
                    l.last_new = r
                l.last = (r, v)
                decision = sch.on_trial_result(trials[tid], {"m": v, "epoch": r})
                if decision != "CONTINUE":
                    sch.on_trial_remove(trials[tid])
                    l.status = "stopped" if decision == "STOP" else "paused"
                    if ops is None and rng.random() < spec["p_fail_after_decision"]:
                        pending_extra.append(["fail", tid])
                events.append("Report %s %s %s %s" % (zlit(tid), zlit(r), q(v), blit(decision == "CONTINUE")))
            elif op[0] == "late":
                # a report of a trial that is not running any more (late report after STOP / PAUSE / failure / completion)
                tid, v = op[1], op[2]
                l = lives[tid]
                r = l.pos + 1
                decision = sch.on_trial_result(trials[tid], {"m": v, "epoch": r})
                if decision != "CONTINUE":
                    sch.on_trial_remove(trials[tid])
                events.append("Late %s %s %s" % (zlit(tid), zlit(r), q(v)))
            elif op[0] == "complete":
                tid = op[1]
                l = lives[tid]
                r, v = l.last
                sch.on_trial_complete(trials[tid], {"m": v, "epoch": r})
                l.status = "completed"
                l.completed_at = r
                events.append("Complete %s %s %s" % (zlit(tid), zlit(r), q(v)))
            elif op[0] == "fail":
                tid = op[1]
                sch.on_trial_error(trials[tid])
                lives[tid].status = "failed"
                events.append("Fail %s" % zlit(tid))
        except Exception as e:  # the scheduler raised: recorded, the case ends here
            exc = "%s: %s" % (type(e).__name__, str(e)[:200])
            events.append(None)
            break
        obs, pend, failed, dup = read_state(sch)
        snaps.append((obs, pend, failed, decision))
        bad = check_state(spec, rung_levels, max_t, lives, obs, pend, dup, crit)
        if not bad and spec.get("check_fit") and op[0] in ("report", "complete"):
            bad = fitted_data_problems(sch, spec, fit_stats)
        if bad:
            problems.append((len(recorded) - 1, op, bad))
            break
        if events[-1] is None:   # suggest returned None (space exhausted): nothing to compare
            events.pop()
            snaps.pop()
            recorded.pop()
    return dict(ops=recorded, events=events, snaps=snaps, problems=problems, exc=exc,
                rung_levels=rung_levels, max_t=max_t, lives=lives, fit_stats=fit_stats)


def check_state(spec, rung_levels, max_t, lives, obs, pend, dup, crit):
    """The property, checked directly on the implementation's searcher state. Returns list of findings."""
    bad = []
    if dup:
        bad.append(("duplicate_trial_entry",))
    keys = [(t, r) for (t, r, _) in obs]
    if len(set(keys)) != len(keys):
        bad.append(("duplicate_observation",))
    by_trial = {}
    for (t, r, c) in obs:
        by_trial.setdefault(t, {})[r] = c
        l = lives.get(t)
        if l is None or r not in l.first:
            bad.append(("observation_never_reported", t, r))
        elif c != crit(l.first[r]):
            bad.append(("observation_value_differs", t, r, c, crit(l.first[r])))
    rungs = set(rung_levels) | {max_t}
    pol = spec["searcher_data"]
    for t, l in lives.items():
        O = set(by_trial.get(t, {}).keys())
        R = set(l.first.keys())
        last = {l.last_new} if l.last_new is not None else set()
        own_ms = {m for m in rungs if m >= l.first_ms}
        if pol == "rungs":
            allowed = (R & rungs) | ({l.completed_at} if l.completed_at is not None else set())
            required = R & rungs
        elif pol == "all":
            allowed = required = R
        else:
            allowed = R & (rungs | last)
            required = R & (own_ms | last)
        if not O <= allowed:
            bad.append(("level_not_selected_by_policy", pol, t, sorted(O - allowed)))
        if not required <= O:
            bad.append(("selected_level_missing", pol, t, sorted(required - O)))
    if len(set(pend)) != len(pend):
        bad.append(("duplicate_pending",))
    for (t, r) in pend:
        l = lives.get(t)
        O = by_trial.get(t, {})
        if l is None or l.status != "running":
            bad.append(("pending_of_trial_not_running", t, r, None if l is None else l.status))
        elif r in O:
            bad.append(("pending_at_observed_level", t, r))
        elif O and r <= max(O):
            bad.append(("pending_below_observed_level", t, r, max(O)))
    return bad


# ---------------------------------------------------------------------------------------------------
# synchronous Hyperband + GP searcher: the 'resource > prev_level' guard
# ---------------------------------------------------------------------------------------------------
FIT_PRELUDE = r"""
(* fitted data: cap, keys of config_for_trial, current searcher state, the state the predictor was computed from,
   trial -> configuration id, rows observed_data_for_metric returned (configuration id, level, value) *)
Definition fit_case := (nat * list Z * sstate * sstate * list (Z * Z) * list (Z * Z * Q))%type.
Definition cfg_of (tbl : list (Z * Z)) (t : Z) : Z :=
  match filter (fun e => fst e =? t) tbl with e :: _ => snd e | [] => -1 end.
Definition row_eqb (a b : Z * Z * Q) : bool := (fst (fst a) =? fst (fst b)) && (snd (fst a) =? snd (fst b)) && Qeqb (snd a) (snd b).
(* multiset equality of rows: same length and mutual inclusion with counts *)
Fixpoint remove_row (x : Z * Z * Q) (l : list (Z * Z * Q)) : option (list (Z * Z * Q)) :=
  match l with [] => None | y :: r => if row_eqb x y then Some r else match remove_row x r with Some r' => Some (y :: r') | None => None end end.
Fixpoint multiset_eqb (a b : list (Z * Z * Q)) : bool :=
  match a with [] => match b with [] => true | _ => false end
  | x :: r => match remove_row x b with Some b' => multiset_eqb r b' | None => false end end.
Definition chk_fit (c : fit_case) : bool :=
  let '(cap, cfg, cur, fit, tbl, rows) := c in
  let choose := fun (_ : list ((Z * Z) * Q)) (_ : nat) => obs fit in      (* the converter's choice, as observed *)
  (* the observed choice is a legal one (hypothesis choose_ok of c14_fitted_data on this instance) *)
  (Nat.leb (length (obs cur)) cap || (sub_list obs_entry_eqb (obs fit) (obs cur) && Nat.eqb (length (obs fit)) cap)) &&
  match cap_state choose cap cfg cur with
  | None => false
  | Some (_, s') =>
      same_set obs_entry_eqb (obs s') (obs fit) && list_eqb key_eqb (pend s') (pend fit) &&
      (* the predictor is cached until observations or pending evaluations change; mark_trial_failed does not invalidate it
         (the model does not depend on failed trials), so its failed list may lag behind: a sub-list of the current one *)
      forallb (fun t => mem_Z t (failed s')) (failed fit) &&
      Nat.eqb (length (obs s')) (Nat.min (length (obs cur)) cap) &&
      multiset_eqb (fitted_rows (cfg_of tbl) s') rows
  end.
"""

SYNC_PRELUDE = r"""
Definition sync_case := (bool * bool * list (sync_ev * snapshot))%type.
Definition diag_sync (c : sync_case) : Z := let '(all, mx, evs) := c in sync_diff all mx s_empty evs 0.
Definition chk_sync (c : sync_case) : bool := diag_sync c =? -1.
"""


FIT_CASES = []

SNAP_PRELUDE = r"""
(* searcher-level operations with snapshots held in memory; after every operation the implementation's state *)
Definition snap_case := (sstate * list (sop * snapshot))%type.
Fixpoint snap_diff (st : list sstate * sstate) (evs : list (sop * snapshot)) (i : Z) : Z :=
  match evs with
  | [] => -1
  | (o, sn) :: rest =>
      match sop_step st o with
      | Error _ => -2 - i
      | Ok st' => if ssnap_ok (snd st') sn then snap_diff st' rest (i + 1) else i
      end
  end.
Definition diag_snap (c : snap_case) : Z := snap_diff ([], fst c) (snd c) 0.
Definition chk_snap (c : snap_case) : bool := diag_snap c =? -1.
"""


def read_searcher_state(searcher):
    if not hasattr(searcher, "state_transformer"):
        enc = searcher.get_state()["searcher_int"]["state"]
        obs = [(int(e["trial_id"]), int(k), float(v)) for e in enc["trials_evaluations"] for k, v in e["metrics"].get("target", {}).items()]
        pend = [(int(p["trial_id"]), int(p["resource"])) for p in enc["pending_evaluations"]]
        return obs, pend, [int(x) for x in enc["failed_trials"]]
    st = searcher.state_transformer.state
    obs = [(int(ev.trial_id), int(k), float(v)) for ev in st.trials_evaluations for k, v in ev.metrics.get("target", {}).items()]
    return obs, [(int(p.trial_id), int(p.resource)) for p in st.pending_evaluations], [int(x) for x in st.failed_trials]


def gen_snap_spec(rng):
    return dict(searcher=rng.choice(["bayesopt", "bayesopt", "hypertune", "dyhpo"]), mode=rng.choice(["min", "max"]),
                nops=rng.randint(12, 40), seed=rng.randrange(2 ** 31))


def run_snapshot_case(spec):
    """The searcher API driven directly (register_pending, on_trial_result(update=True), remove_case, evaluation_failed,
    cleanup_pending) with snapshots (get_state) HELD IN MEMORY and restored later, possibly several times
    (clone_from_state; the clone becomes the live searcher). After every operation the live searcher's state must equal
    the harness's own record: the record at snapshot time for a restore, updated by what that searcher received since."""
    import copy
    import random
    rng = random.Random(spec["seed"])
    base = dict(searcher=spec["searcher"], type="dyhpo" if spec["searcher"] == "dyhpo" else "stopping", searcher_data="all",
                myopic=True, mode=spec["mode"], rungs=0, brackets=1, per_bracket=False, ckpt=True, workers=1, nops=0, p_fail=0.0,
                p_complete=0.0, p_fail_after_decision=0.0, seed=spec["seed"], num_init_random=10000)
    sch, onehot, max_t = make_scheduler(base)
    sug = sch.suggest(0)                      # configures the searcher; trial 0 gets its first pending entries
    live = sch.searcher
    cfgs = {0: dict(sug.config)}
    obs0, pend0, failed0 = read_searcher_state(live)
    rec = dict(obs={(t, r): c for (t, r, c) in obs0}, pend=list(pend0), failed=list(failed0))
    held, held_rec = [], []
    ops, snaps, problems = [], [], []
    exc = None

    def crit(v):
        return 1.0 - v if spec["mode"] == "max" else v

    def cfg_of(t):
        if t not in cfgs:
            c = dict(cfgs[0])
            c["x"] = rng.random()
            c["y"] = rng.randint(0, 1000)
            cfgs[t] = c
        return cfgs[t]

    try:
        for step in range(spec["nops"]):
            trials = sorted(set([0, 1, 2]))
            t = rng.choice(trials)
            obs_t = sorted(r for (tt, r) in rec["obs"] if tt == t)
            u = rng.random()
            if u < 0.12:
                held.append(live.get_state())
                held_rec.append(copy.deepcopy(rec))
                ops.append("OSnapshot")
            elif u < 0.27 and held:
                i = rng.randrange(len(held))
                new = live.clone_from_state(held[i])
                new.configure_scheduler(sch)
                live = new
                rec = copy.deepcopy(held_rec[i])
                ops.append("ORestore %s" % natlit(i))
            elif u < 0.62:
                r = (max(obs_t) + 1) if obs_t else 1
                if r > max_t:
                    continue
                v = rng.randint(1, 1023) / 1024.0
                live.on_trial_result(str(t), cfg_of(t), result={"m": v, "epoch": r}, update=True)
                rec["obs"][(t, r)] = crit(v)
                if (t, r) in rec["pend"]:
                    rec["pend"].remove((t, r))
                ops.append("OLabel %s %s %s" % (zlit(t), zlit(r), q(crit(v))))
            elif u < 0.82:
                r = ((max(obs_t) if obs_t else 0) + rng.randint(1, 2))
                if r > max_t or (t, r) in rec["obs"]:
                    continue
                live.register_pending(trial_id=str(t), config=cfg_of(t), milestone=r)
                if (t, r) not in rec["pend"]:
                    rec["pend"].append((t, r))
                ops.append("ORegister %s %s" % (zlit(t), zlit(r)))
            elif u < 0.88 and obs_t:
                r = rng.choice(obs_t)
                live.remove_case(str(t), **{"epoch": r})
                del rec["obs"][(t, r)]
                ops.append("ORemove %s %s" % (zlit(t), zlit(r)))
            elif u < 0.94:
                live.cleanup_pending(str(t))
                rec["pend"] = [p for p in rec["pend"] if p[0] != t]
                ops.append("OCleanup %s" % zlit(t))
            else:
                if t not in cfgs:
                    continue
                if not any(tt == t for (tt, _) in list(rec["obs"]) + rec["pend"]) and t != 0:
                    continue
                live.evaluation_failed(str(t))
                rec["pend"] = [p for p in rec["pend"] if p[0] != t]
                if t not in rec["failed"]:
                    rec["failed"].append(t)
                ops.append("OFailed %s" % zlit(t))
            obs, pend, failed = read_searcher_state(live)
            snaps.append((obs, pend, failed, None))
            got = {(t0, r0): c0 for (t0, r0, c0) in obs}
            bad = []
            if len(got) != len(obs):
                bad.append(("duplicate_observation",))
            if got != rec["obs"]:
                extra = sorted(set(got) - set(rec["obs"]))
                missing = sorted(set(rec["obs"]) - set(got))
                bad.append(("observations_differ_from_own_history", dict(never_reported_to_this_searcher=extra, missing=missing,
                                                                          after=ops[-1])))
            if sorted(pend) != sorted(rec["pend"]):
                bad.append(("pending_differs_from_own_history", sorted(pend), sorted(rec["pend"])))
            both = sorted(p for p in pend if p in got)
            if both:
                bad.append(("pending_at_observed_level", both))
            if failed != rec["failed"]:
                bad.append(("failed_differs", failed, rec["failed"]))
            if bad:
                problems.append((len(ops) - 1, ops[-1], bad))
                break
    except Exception as e:
        exc = "%s: %s" % (type(e).__name__, str(e)[:200])
    n = min(len(ops), len(snaps))
    init_s = "{| obs := %s; pend := %s; failed := %s |}" % (
        lst(["((%s, %s), %s)" % (zlit(t), zlit(r), q(c)) for (t, r, c) in obs0]) if obs0 else "(@nil ((Z * Z) * Q))",
        lst(["(%s, %s)" % (zlit(t), zlit(r)) for (t, r) in pend0]) if pend0 else "(@nil (Z * Z))",
        lst([zlit(t) for t in failed0]) if failed0 else "(@nil Z)")
    evs = ["(%s, %s)" % (ops[i], coq_snapshot(snaps[i])) for i in range(n)]
    term = "(%s, %s)" % (init_s, lst(evs) if evs else "(@nil (sop * snapshot))")
    return dict(term=term, problems=problems, exc=exc, ops=ops, restores=sum(1 for o in ops if o.startswith("ORestore")))


def gen_sync_spec(rng):
    return dict(searcher_data=rng.choice(["rungs", "all"]), mode=rng.choice(["min", "max"]), ckpt=rng.random() < 0.5,
                workers=rng.randint(2, 5), nops=rng.randint(25, 70), p_fail=rng.choice([0.0, 0.05, 0.1]),
                seed=rng.randrange(2 ** 31))


def run_sync_case(spec):
    """SynchronousGeometricHyperbandScheduler + bayesopt driven as the tuner would; after every callback the searcher
    state is read and checked: at most one observation per (trial, level), equal to the first value reported there;
    levels: 'rungs' = the rung levels the jobs ran to, 'all' = every level; pending only for running trials at an
    unobserved level."""
    import random
    from syne_tune.optimizer.schedulers.synchronous import SynchronousGeometricHyperbandScheduler
    from syne_tune.config_space import uniform, randint
    from syne_tune.backend.trial_status import Trial
    rng = random.Random(spec["seed"])
    cs = {"x": uniform(0.0, 1.0), "y": randint(0, 1000), "epochs": 9}
    sink = io.StringIO()
    with contextlib.redirect_stdout(sink), contextlib.redirect_stderr(sink):
        sch = SynchronousGeometricHyperbandScheduler(
            cs, metric="m", mode=spec["mode"], resource_attr="epoch", max_resource_attr="epochs", grace_period=1,
            reduction_factor=3, searcher="bayesopt", searcher_data=spec["searcher_data"], random_seed=spec["seed"] % 10000,
            search_options={"num_init_random": 10000, "debug_log": False})
    t0 = datetime.datetime(2020, 1, 1)
    trials, job, first, last_level, status = {}, {}, {}, {}, {}
    events, snaps, problems = [], [], []
    next_id = 0
    exc = None
    ended_at_failed_promotion = False

    def crit(v):
        return 1.0 - v if spec["mode"] == "max" else v

    def check(label):
        obs, pend, failed, dup = read_state(sch)
        snaps.append((obs, pend, failed, None))
        bad = []
        if dup or len({(t, r) for t, r, _ in obs}) != len(obs):
            bad.append(("duplicate_observation",))
        for (t, r, c) in obs:
            if (t, r) not in first:
                bad.append(("observation_never_reported", t, r))
            elif c != crit(first[(t, r)]):
                bad.append(("observation_value_differs", t, r))
        O = {}
        for (t, r, _) in obs:
            O.setdefault(t, set()).add(r)
        for t in trials:
            reported = {r for (tt, r) in first if tt == t}
            reached = {ms for ms in job[t]["done_ms"]}
            want = reported if spec["searcher_data"] == "all" else reached
            if O.get(t, set()) != want:
                bad.append(("levels_not_as_selected", spec["searcher_data"], t, sorted(O.get(t, set())), sorted(want)))
        for (t, r) in pend:
            if status.get(t) != "running":
                bad.append(("pending_of_trial_not_running", t, r, status.get(t)))
            elif r in O.get(t, set()):
                bad.append(("pending_at_observed_level", t, r))
        if bad:
            problems.append((label, bad))

    try:
        for _ in range(spec["nops"]):
            running = [t for t in trials if status[t] == "running"]
            if len(running) < spec["workers"] and (not running or rng.random() < 0.4):
                sug = sch.suggest(next_id)
                if sug is None:
                    break
                ms = int(sug.config["epochs"])
                if sug.spawn_new_trial_id:
                    tid = next_id
                    next_id += 1
                    trials[tid] = Trial(trial_id=tid, config=sug.config, creation_time=t0)
                    sch.on_trial_add(trials[tid])
                    job[tid] = dict(ms=ms, prev=0, pos=0, done_ms=[])
                    status[tid] = "running"
                    events.append("YSuggest %s %s" % (zlit(tid), zlit(ms)))
                    check(("suggest", tid))
                else:
                    tid = int(sug.checkpoint_trial_id)
                    if status.get(tid) == "failed":
                        # a rung with fewer valid results than next-rung slots: get_top_list promotes a FAILED trial. The
                        # Tuner cannot resume a trial that is not paused (trial_backend.resume_trial asserts: finding
                        # F-C13-2), so no legal history continues from here; the case ends (the levels such a trial never
                        # delivered before failing would be dropped by the 'resource > prev_level' guard)
                        ended_at_failed_promotion = True
                        break
                    trials[tid] = Trial(trial_id=tid, config=sug.config, creation_time=t0)
                    prev = job[tid]["ms"]
                    job[tid].update(ms=ms, prev=prev, pos=prev if spec["ckpt"] else 0)
                    status[tid] = "running"
                continue
            if not running:
                continue
            tid = rng.choice(running)
            j = job[tid]
            if rng.random() < spec["p_fail"]:
                sch.on_trial_error(trials[tid])
                status[tid] = "failed"
                events.append("YFail %s" % zlit(tid))
                check(("fail", tid))
                continue
            j["pos"] += 1
            r = j["pos"]
            v = rng.randint(1, 1023) / 1024.0
            first.setdefault((tid, r), v)
            d = sch.on_trial_result(trials[tid], {"m": v, "epoch": r})
            if r == j["ms"]:
                j["done_ms"].append(r)
            events.append("YResult %s %s %s %s %s" % (zlit(tid), zlit(r), q(v), zlit(j["ms"]), zlit(j["prev"])))
            if d != "CONTINUE":
                sch.on_trial_remove(trials[tid])
                status[tid] = "paused"
            check(("report", tid, r))
            if problems:
                break
    except Exception as e:
        exc = "%s: %s" % (type(e).__name__, str(e)[:200])
    n = min(len(events), len(snaps))
    evs = ["(%s, %s)" % (events[i], coq_snapshot(snaps[i])) for i in range(n)]
    term = "(%s, %s, %s)" % (blit(spec["searcher_data"] == "all"), blit(spec["mode"] == "max"), lst(evs) if evs else "[]")
    return dict(term=term, problems=problems, exc=exc, nevents=n, ended_at_failed_promotion=ended_at_failed_promotion,
                resumed_from_scratch=(not spec["ckpt"]) and any(x["prev"] > 0 for x in job.values()))


def reward_const(spec):
    mr = spec.get("map_reward")
    if mr is None or mr == "1_minus_x":
        return 1.0
    if mr == "minus_x":
        return 0.0
    return float(mr[3:]) if mr.startswith("obj") else float(mr[:-len("_minus_x")])


def coq_config(spec, rung_levels, max_t):
    return ("{| rung_levels := %s; max_t := %d; pol := %s; myopic := %s; sty := %s; maximize := %s; reward_const := %s |}" % (
        lst([str(x) for x in rung_levels]), max_t, POLICY[spec["searcher_data"]], blit(spec["myopic"]),
        "Stopping" if spec["type"] == "stopping" else "Promotion", blit(spec["mode"] == "max"),    # dyhpo: promotion-type
        q(reward_const(spec))))


def coq_snapshot(sn):
    obs, pend, failed, d = sn
    return "(%s, %s, %s, %s)" % (
        lst(["((%s, %s), %s)" % (zlit(t), zlit(r), q(c)) for (t, r, c) in obs]) if obs else "[]",
        lst(["(%s, %s)" % (zlit(t), zlit(r)) for (t, r) in pend]) if pend else "[]",
        lst([zlit(t) for t in failed]) if failed else "[]",
        "(@None decision)" if d is None else "(Some %s)" % d)


def coq_case(spec, res):
    n = min(len(res["snaps"]), len(res["events"]))
    evs = ["(%s, %s)" % (res["events"][i], coq_snapshot(res["snaps"][i])) for i in range(n)]
    return "(%s, %s)" % (coq_config(spec, res["rung_levels"], res["max_t"]), lst(evs) if evs else "[]")


def signature(spec, finding):
    kind = finding[0]
    return dict(check=kind, type=spec["type"], searcher_data=spec["searcher_data"])


def run(ctx, replay=None):
    logging.disable(logging.CRITICAL)
    ctx.rule = ("cases: random scheduler configurations (stopping|promotion x bayesopt|hypertune x searcher_data x "
                "register_pending_myopic x mode x 7 rung-level setups x 1..3 brackets x checkpointing on/off) driven by "
                "the harness as the Tuner would (suggest/report/complete/fail, 1..4 workers); non-trivial = the run "
                "contains at least one STOP/PAUSE decision and (a resume or a failure or a completion) or >= 2 trials "
                "reporting at >= 3 levels; distinct by content hash of (spec, operations)")
    rng = ctx.rng
    if replay is not None and replay.get("part") in ("sync", "snap"):
        todo = []
    elif replay is not None:
        todo = [(replay["spec"], replay.get("ops"))]
    else:
        todo = [(gen_spec(rng), None) for _ in range(ctx.n(260, 4000))]
        todo += [(gen_spec(rng, fits=True), None) for _ in range(ctx.n(3, 40))]
        for _ in range(ctx.n(22, 250)):      # the data the surrogate is fitted to: down-sampling, duplicate configurations
            sp = gen_spec(rng)
            dup = rng.random() < 0.5
            sp.update(searcher="bayesopt", type=rng.choice(["stopping", "stopping", "promotion"]), check_fit=True,
                      searcher_data=rng.choice(["rungs_and_last", "rungs_and_last", "all", "rungs"]),
                      max_size=rng.choice([3, 4, 6, None]), allow_dup=dup, tiny_space=rng.choice([2, 3]) if dup else None,
                      num_init_random=2, nops=rng.randint(15, 35), p_fail=rng.choice([0.0, 0.05]), brackets=1,
                      rungs=rng.choice([0, 1, 5]), workers=rng.randint(1, 3))
            todo.append((sp, None))
        for _ in range(ctx.n(8, 100)):       # HyperTune: independent GP per rung level; data per level
            sp = gen_spec(rng)
            sp.update(searcher="hypertune", type=rng.choice(["stopping", "promotion"]), check_fit=True, searcher_data="rungs",
                      max_size=None, allow_dup=False, tiny_space=None, num_init_random=2, nops=rng.randint(12, 30),
                      p_fail=0.0, brackets=1, rungs=rng.choice([0, 1, 5]), workers=rng.randint(1, 3), map_reward=None)
            if sp["seed"] % 2 == 0:         # trials sharing configurations (derived from the case seed: generator not shifted)
                sp.update(allow_dup=True, tiny_space=3)
            todo.append((sp, None))
        for _ in range(ctx.n(24, 300)):      # DyHPO (type="dyhpo", searcher="dyhpo"): promotion-type data path
            sp = gen_spec(rng)
            sp.update(type="dyhpo", searcher="dyhpo", brackets=1, per_bracket=False, num_init_random=10000)
            todo.append((sp, None))
    cases, meta = [], []
    for spec, ops in todo:
        res = run_case(spec, ops)
        case = dict(spec=spec, ops=res["ops"])
        kinds = [e.split()[0] for e in res["events"] if e]
        decisions = [s[3] for s in res["snaps"]]
        nontriv = (any(d in ("STOP", "PAUSE") for d in decisions) and
                   any(k in ("Resume", "Fail", "Complete") for k in kinds)) or \
            sum(1 for l in res["lives"].values() if len(l.first) >= 3) >= 2
        ctx.count(case, nontrivial=nontriv)
        for k in kinds:
            ctx.h("events", k)
        for d in decisions:
            if d:
                ctx.h("decisions", d)
        ctx.h("type/searcher", "%s/%s" % (spec["type"], spec["searcher"]))
        ctx.h("searcher_data/myopic", "%s/%s" % (spec["searcher_data"], spec["myopic"]))
        ctx.h("checkpointing", spec["ckpt"])
        ctx.h("num_events", len(kinds) // 10 * 10)
        ctx.h("real_gp_fits", spec["num_init_random"] < 100)
        for k, v in res.get("fit_stats", {}).items():
            if k == "coq_cases":
                for term in v:
                    FIT_CASES.append((term, case))
            else:
                ctx.h("fitted_data_" + k, "count", v)
        if res["snaps"]:
            ctx.h("final_observations", min(len(res["snaps"][-1][0]) // 5 * 5, 30))
            ctx.h("max_pending", min(max(len(s[1]) for s in res["snaps"]), 12))
        ctx.traces_validated += 1
        if res["exc"] is not None and spec.get("max_size") and "does not contain any candidates" in res["exc"]:
            # with a tiny max_size_data_for_model the down-sampled state can hold no data at the resource level the
            # acquisition function is evaluated at: an assertion of get_config that has nothing to do with WHICH data is
            # stored; recorded as a note, the events up to it are still compared
            ctx.h("exceptions_not_counted", "downsampled_state_has_no_data_at_target_resource")
            note = ("get_config asserts 'state.hp_ranges does not contain any candidates ... with resource attribute == r' when "
                    "max_size_data_for_model=%s removes all data at the target level (spec seed %d)" % (spec["max_size"], spec["seed"]))
            if len(ctx.notes) < 3:
                ctx.notes.append(note)
            res["exc"] = None
        if res["exc"] is not None:
            ctx.h("exceptions", res["exc"].split(":")[0])
            ctx.violation("property", "scheduler raised %s at operation %r (a legal tuner history reaches an "
                          "assertion/exception on the searcher-data path)" % (res["exc"], res["ops"][-1]),
                          case=case, signature=dict(check="exception", type=spec["type"],
                                                    searcher_data=spec["searcher_data"],
                                                    exception=res["exc"].split(":")[0]))
        for (idx, op, bad) in [p for p in res["problems"] if len(p) == 3]:
            ctx.violation("property", "after operation #%d %r the searcher state violates C14: %r (spec %r)" % (
                idx, op, bad[:3], {k: spec[k] for k in ("type", "searcher", "searcher_data", "myopic", "ckpt", "brackets")}),
                case=case, signature=signature(spec, bad[0]))
        if len(ctx.samples) < 3 and res["snaps"]:
            ctx.sample(dict(spec=spec, ops=res["ops"][:12], final_state=dict(
                observations=res["snaps"][-1][0][:8], pending=res["snaps"][-1][1][:8], failed=res["snaps"][-1][2])))
        cases.append(coq_case(spec, res))
        meta.append(case)
    # ---- fitted data against cap_state / fitted_rows of the model ------------------------------------------------
    if FIT_CASES:
        ctx.h("fitted_data_model_cases", "count", len(FIT_CASES))
        fbad = ctx.coq_bad_cases("fit", IMPORTS, FIT_PRELUDE, "chk_fit", [t for t, _ in FIT_CASES], shard=40)
        for i in fbad[:4]:
            ctx.violation("correspondence", "model/SearcherData.v cap_state / fitted_rows differ from the data the surrogate was "
                          "fitted to (state converter + observed_data_for_metric)", case=FIT_CASES[i][1], failing_input=False,
                          broken="correspondence chk_fit (model/SearcherData.v cap_state, fitted_rows)")
        del FIT_CASES[:]
    # ---- snapshots held in memory and restored (get_state / clone_from_state) ------------------------------------
    if replay is None or replay.get("part") == "snap":
        pspecs = [replay["spec"]] if replay is not None else [gen_snap_spec(rng) for _ in range(ctx.n(40, 500))]
        pterms, pmeta = [], []
        for sp in pspecs:
            res = run_snapshot_case(sp)
            pcase = dict(part="snap", spec=sp)
            ctx.count(pcase, nontrivial=res["restores"] >= 1)
            ctx.traces_validated += 1
            ctx.h("snap_searcher", sp["searcher"])
            ctx.h("snap_restores", min(res["restores"], 6))
            if res["exc"] is not None:
                ctx.violation("property", "searcher %s raised %s in a snapshot/restore sequence %r" % (sp["searcher"], res["exc"], res["ops"][-4:]),
                              case=pcase, signature=dict(check="exception", type="snapshot_restore", searcher=sp["searcher"]))
            for (idx, op, bad) in res["problems"]:
                ctx.violation("property", "searcher %s, after operation #%d %s the live searcher's state differs from its own history "
                              "(snapshot held in memory / restored): %r" % (sp["searcher"], idx, op, bad[:2]), case=pcase,
                              signature=dict(check=bad[0][0], type="snapshot_restore", searcher=sp["searcher"]))
            pterms.append(res["term"])
            pmeta.append(pcase)
        if pterms:
            pbad = ctx.coq_bad_cases("snap", IMPORTS, SNAP_PRELUDE, "chk_snap", pterms, shard=40)
            if pbad:
                diag = ctx.coq_eval("snapdiag", IMPORTS, SNAP_PRELUDE, ["diag_snap (%s : snap_case)" % pterms[i] for i in pbad[:4]])
                for i, d in zip(pbad[:4], diag):
                    ctx.violation("correspondence", "model/SearcherData.v sop_step differs from the searcher under snapshot/restore: "
                                  "snap_diff = %s" % d, case=pmeta[i], failing_input=False,
                                  broken="correspondence chk_snap (model/SearcherData.v sop_step)")
    if replay is not None and replay.get("part") == "snap":
        return
    # ---- synchronous Hyperband: the resource > prev_level guard -------------------------------------------
    if replay is None or replay.get("part") == "sync":
        sspecs = [replay["spec"]] if replay is not None else [gen_sync_spec(rng) for _ in range(ctx.n(40, 500))]
        sterms, smeta = [], []
        for sp in sspecs:
            res = run_sync_case(sp)
            scase = dict(part="sync", spec=sp)
            ctx.count(scase, nontrivial=res["resumed_from_scratch"] or res["nevents"] >= 30)
            ctx.traces_validated += 1
            ctx.h("sync_searcher_data/mode", "%s/%s" % (sp["searcher_data"], sp["mode"]))
            ctx.h("sync_rereport_after_resume", res["resumed_from_scratch"])
            ctx.h("sync_case_ended_at_promotion_of_failed_trial", res["ended_at_failed_promotion"])
            if res["exc"] is not None:
                ctx.violation("property", "synchronous Hyperband raised %s" % res["exc"], case=scase,
                              signature=dict(check="exception", type="synchronous", searcher_data=sp["searcher_data"]))
            for (label, bad) in res["problems"]:
                ctx.violation("property", "synchronous Hyperband, after %r the searcher state violates C14: %r" % (label, bad[:3]),
                              case=scase, signature=dict(check=bad[0][0], type="synchronous", searcher_data=sp["searcher_data"]))
            sterms.append(res["term"])
            smeta.append(scase)
        if sterms:
            sbad = ctx.coq_bad_cases("sync", IMPORTS, SYNC_PRELUDE, "chk_sync", sterms, shard=20)
            if sbad:
                diag = ctx.coq_eval("syncdiag", IMPORTS, SYNC_PRELUDE, ["diag_sync (%s : sync_case)" % sterms[i] for i in sbad[:4]])
                for i, d in zip(sbad[:4], diag):
                    ctx.violation("correspondence", "model/SearcherData.v sync_step differs from SynchronousHyperbandScheduler + "
                                  "searcher: sync_diff = %s" % d, case=smeta[i], failing_input=False,
                                  broken="correspondence chk_sync (model/SearcherData.v sync_step)")
    if replay is not None and replay.get("part") == "sync":
        return
    if cases:
        bad = ctx.coq_bad_cases("seq", IMPORTS, PRELUDE, "chk_case", cases, shard=40)
        if bad:
            diag = ctx.coq_eval("diag", IMPORTS, PRELUDE, ["diag_case %s" % cases[i] for i in bad[:5]])
            for i, d in zip(bad[:5], diag):
                ctx.violation("correspondence",
                              "model/SearcherData.v and the real scheduler+searcher differ: first_diff = %s "
                              "(>=0: index of the first event after which states differ; <=-2: model Error at event "
                              "-2-i; <=-1000: event -1000-i not legal for the model)" % d,
                              case=meta[i], failing_input=False,
                              broken="correspondence chk_case (model/SearcherData.v step)")
