"""C10 — correspondence of model/Sim.v with the real simulator
(syne_tune/backend/simulator_backend/*, blackbox_repository/simulated_tabular_backend.py,
blackbox_tabular.py, utils.py) and the independent checker 'values and time stamps of every
delivered result equal what the table and the observed start/resume events dictate'.

Two kinds of cases:
 * direct: operation sequences start/resume/pause/stop/fetch/busy/sleep on the real
   UserBlackboxBackend over a synthetic in-memory BlackboxTabular (recording subclass, public
   methods only), real time replaced by a scripted fake clock;
 * tuner: whole runs of the real Tuner + SimulatorCallback + real schedulers (FIFO random,
   Hyperband stopping / promotion) on the same backend; the calls the Tuner makes are recorded
   and become the operation sequence of the case.
Every recorded sequence is replayed by the model (vm_compute inside coqc) and every output
(trial ids, delivered results incl. values and st_tuner_time, statuses, busy sets, the clock
after every call) is compared; time stamps with relative tolerance 1e-9, values exactly."""
import contextlib
import io
import logging
import os
import shutil
import tempfile
from unittest import mock

import sim_helpers as sh


# --------------------------------------------------------------------------
# direct operation sequences
# --------------------------------------------------------------------------
def gen_dt(rng, scale):
    r = rng.random()
    if r < 0.45:
        return 0.0
    if r < 0.7:
        return rng.randint(1, 64) / 64.0 * scale
    if r < 0.9:
        return rng.uniform(0, 1) * scale
    return rng.randint(1, 8) * scale


class View:
    """what the generator knows about the backend: only what the public API returned"""

    def __init__(self):
        self.n = 0
        self.status = {}
        self.level = {}


def gen_direct_ops(rng, spec, execute_op, view, nops):
    """adaptive generation: mostly legal calls, a few illegal ones; yields nothing, calls execute_op(op)
    which returns False when the backend raised (the sequence ends there)"""
    ncfg = spec["nx"] * spec["ny"]
    # outside-time scale relative to the table's typical time per level
    lasts = [rows[-1][0] / len(rows) for per_seed in spec["table"] for rows in per_seed]
    epoch = max(sum(lasts) / len(lasts), 0.02)
    scale = epoch * rng.choice([0.25, 1.0, 1.0, 3.0, 10.0])
    illegal = rng.random() < 0.25       # three quarters of the sequences contain only legal calls
    for _ in range(nops):
        running = [t for t, s in view.status.items() if s == "InProgress"]
        paused = [t for t, s in view.status.items() if s == "Paused"]
        r = rng.random()
        op = None
        if view.n == 0 or r < 0.16:
            mr = None
            if spec["use_maxres"] and rng.random() < 0.8:
                fids = sh.fids_of(spec)
                mr = rng.choice([fids[0], fids[min(1, len(fids) - 1)], fids[-1], rng.choice(fids), rng.randint(1, fids[-1] + 2)])
            idx = rng.randrange(ncfg)
            if illegal and rng.random() < 0.03:
                idx = ncfg + 1          # configuration that is not in the table
            if illegal and spec["use_maxres"] and rng.random() < 0.03:
                mr = 0                  # illegal max resource
            op = dict(kind="start", cfg=idx, maxres=mr)
        elif r < 0.50:
            pick = rng.random()
            if pick < 0.6:
                ids = list(running)
            elif pick < 0.8:
                ids = list(range(view.n))
            elif pick < 0.95:
                ids = [t for t in range(view.n) if rng.random() < 0.6]
            elif illegal:
                ids = [rng.randrange(view.n + 1)] * 2   # duplicate / possibly unknown id
            else:
                ids = [rng.randrange(view.n)] * 2       # duplicate id
            rng.shuffle(ids)
            op = dict(kind="fetch", ids=ids)
        elif r < 0.62:
            op = dict(kind="sleep")
        elif r < 0.66:
            # time_keeper.advance_to called directly, target above or below the current simulated time
            op = dict(kind="advto", rel=rng.choice([-1.0, -0.25, 0.0, 0.5, 2.0]) * rng.choice([1.0, scale, 5.0]))
        elif r < 0.76 and running:
            t = rng.choice(running)
            pick = rng.random()
            if pick < 0.75:
                lvl = view.level.get(t)
            elif pick < 0.85:
                lvl = None
            else:
                lvl = rng.choice([rng.choice(sh.fids_of(spec)), rng.randint(1, sh.fids_of(spec)[-1] + 1)])
            op = dict(kind="pause", t=t, lvl=lvl)
        elif r < 0.86 and paused:
            t = rng.choice(paused)
            newc = None
            if rng.random() < 0.3:
                newc = [rng.randrange(ncfg) if rng.random() < 0.3 else None, None]
                if spec["use_maxres"]:
                    newc[1] = rng.choice([sh.fids_of(spec)[-1], rng.choice(sh.fids_of(spec))])
            op = dict(kind="resume", t=t, newc=newc)
        elif r < 0.92 and running:
            op = dict(kind="stop", t=rng.choice(running))
        elif r < 0.935 and spec.get("nan_cols"):
            # the same blackbox object serves as surrogate / transfer-learning data source in between
            op = dict(kind="hov", curves=rng.random() < 0.5)
        elif r < 0.97 or not illegal:
            op = dict(kind="busy")
        else:
            # illegal / unusual calls
            pick = rng.random()
            if pick < 0.3:
                op = dict(kind="resume", t=rng.randrange(view.n + 2), newc=None)
            elif pick < 0.5:
                op = dict(kind="pause", t=rng.randrange(view.n + 2), lvl=None)
            elif pick < 0.8 and view.n:
                op = dict(kind="stop", t=rng.randrange(view.n))   # stop of a trial in any state
            else:
                op = dict(kind="stop", t=view.n + 1)
        if op is None:
            continue
        if op["kind"] not in ("sleep", "hov", "advto"):
            op["dt_in"] = gen_dt(rng, scale)      # real time passes before every backend call, busy_trial_ids included
        if not execute_op(op):
            return


def run_direct(spec, ops_in, rng=None, nops=0, np_seed=0):
    """Execute given ops (replay / corpus) or generate adaptively. Returns (log, seed_calls)."""
    m = sh.import_backend()
    m["np"].random.seed(np_seed)     # the backend draws the per-trial table seed from the global numpy generator
    fake = sh.FakeTime()
    log = []
    cur = {"dt": 0.0}
    view = View()
    with mock.patch.object(m["tk"], "time", fake):
        be, bb = sh.make_backend(spec, fake, lambda kind: cur["dt"], log)
        be.time_keeper.start_of_time()
        fake.marked()

        def execute_op(op):
            k = op["kind"]
            cur["dt"] = op.get("dt_in", 0.0)
            n0 = len(log)
            try:
                if k == "start":
                    tr = be.start_trial(sh.cfg_dict(spec, op["cfg"], op["maxres"]))
                    view.n += 1
                    view.status[tr.trial_id] = "InProgress"
                elif k == "resume":
                    newc = None
                    if op["newc"] is not None:
                        # new_config replaces the whole configuration: keep the old index unless a new one is given
                        idx = op["newc"][0]
                        if idx is None:
                            idx = op["newc"][0] = view_cfg.get(op["t"], 0)
                        newc = sh.cfg_dict(spec, idx, op["newc"][1])
                    be.resume_trial(op["t"], newc)
                    view.status[op["t"]] = "InProgress"
                elif k == "pause":
                    res = None
                    if op["lvl"] is not None:
                        res = {"epoch": op["lvl"], "m0": 0.0}
                    be.pause_trial(op["t"], res)
                    view.status[op["t"]] = "Paused"
                elif k == "stop":
                    be.stop_trial(op["t"])
                    view.status[op["t"]] = "Stopped"
                elif k == "fetch":
                    sd, results = be.fetch_status_results(list(op["ids"]))
                    for t, (_, s) in sd.items():
                        view.status[t] = s
                    for t, r in results:
                        view.level[t] = int(r["epoch"])
                elif k == "busy":
                    be.busy_trial_ids()
                elif k == "sleep":
                    sh.do_sleep(be, log)
                elif k == "advto":
                    to = op["to"] if "to" in op else be.time_keeper.time() + op["rel"]
                    rec0 = dict(kind="advto", to=float(to))
                    try:
                        be.time_keeper.advance_to(to)
                    except Exception as e:
                        rec0["err"] = type(e).__name__
                        log.append(rec0)
                        raise
                    rec0["clock"] = be.time_keeper.time()
                    log.append(rec0)
                elif k == "hov":
                    bb.hyperparameter_objectives_values(predict_curves=bool(op.get("curves")))
                    log.append(dict(kind="hov", curves=bool(op.get("curves")), clock=be.time_keeper.time()))
            except Exception:
                if len(log) > n0 and "dt_in" in op:
                    log[-1]["dt_in"] = op["dt_in"]
                return False
            rec = log[-1]
            if "dt_in" in op:
                rec["dt_in"] = op["dt_in"]
            if k == "start":
                view_cfg[rec["out"]] = rec["cfg"]
            elif k == "resume" and rec.get("newc") is not None:
                view_cfg[rec["t"]] = rec["newc"][0]
            return True

        view_cfg = {}
        if ops_in is not None:
            for op in ops_in:
                if not execute_op(dict(op)):
                    break
        else:
            gen_direct_ops(rng, spec, execute_op, view, nops)
    return log, list(bb.seed_calls)


def ops_for_replay(log):
    """the generator-level description of the executed ops (enough to re-run them)"""
    out = []
    for op in log:
        o = dict(kind=op["kind"])
        for k in ("cfg", "maxres", "t", "newc", "lvl", "ids", "curves", "to"):
            if k in op:
                o[k] = op[k]
        if "dt_in" in op:
            o["dt_in"] = op["dt_in"]
        out.append(o)
    return out


# --------------------------------------------------------------------------
# whole runs with the real Tuner
# --------------------------------------------------------------------------
def gen_tuner_params(rng, spec):
    kind = rng.choice(["fifo", "hb_stopping", "hb_promotion", "hb_promotion"])
    return dict(kind=kind, n_workers=rng.randint(1, 4), seed=rng.randrange(10 ** 6),
                max_trials=rng.randint(3, 10), grace=(1 if spec["nfid"] <= 2 else rng.choice([1, 1, 2])), rf=rng.choice([2, 3]),
                without_delay=rng.random() < 0.5, dt_scale=rng.choice([0.0, 0.01, 0.125, 1.0]),
                wait=rng.random() < 0.5, max_wallclock=rng.choice([None, 5.0, 20.0]),
                # sleep_time the Tuner is constructed with: 0, omitted (library default) or 600; the simulated
                # sleep is the backend's tuner_sleep_time in every case
                tuner_sleep=rng.choice([0, 0, "default", 600]),
                hov=rng.random() < 0.5)


class RunTooLong(Exception):
    """raised by the harness (not the implementation) to end a whole run after max_calls backend calls"""


def run_tuner(spec, tp):
    import random
    m = sh.import_backend()
    np = m["np"]
    sink = io.StringIO()
    with contextlib.redirect_stdout(sink), contextlib.redirect_stderr(sink):
        from syne_tune import Tuner, StoppingCriterion
        from syne_tune.backend.simulator_backend.simulator_callback import SimulatorCallback
        from syne_tune.optimizer.schedulers.fifo import FIFOScheduler
        from syne_tune.optimizer.schedulers.hyperband import HyperbandScheduler
    logging.getLogger("syne_tune").setLevel(logging.CRITICAL)
    fake = sh.FakeTime()
    log = []
    drng = random.Random(tp["seed"])

    def dt_source(kind):
        if len(log) > tp.get("max_calls", 600):
            raise RunTooLong()
        if tp["dt_scale"] == 0.0 or drng.random() < 0.5:
            return 0.0
        return drng.randint(1, 16) / 16.0 * tp["dt_scale"]

    sleeps = []

    class RecordingCallback(SimulatorCallback):
        """the real callback; records each tuner sleep and the clock around it"""

        def on_tuning_start(self, tuner):
            super().on_tuning_start(tuner)      # calls time_keeper.start_of_time(), which sets the exit mark
            fake.marked()

        def on_tuning_sleep(self, sleep_time):
            before = self._time_keeper.time()
            super().on_tuning_sleep(sleep_time)
            after = self._time_keeper.time()
            sleeps.append((before, after))
            log.append(dict(kind="sleep", clock=after))

    doms = {"x": m["randint"](0, spec["nx"] - 1), "y": m["randint"](0, spec["ny"] - 1)}
    # the key order of the configuration space (and hence of the configs the searcher builds) need not be
    # the column order of the table
    cs = {k: doms[k] for k in (["y", "x"] if spec.get("key_order", "xy") in ("yx", "yex") else ["x", "y"])}
    if spec["use_maxres"]:
        cs["epochs"] = sh.fids_of(spec)[-1]
    kw = dict(metric="m0", mode="min", random_seed=tp["seed"], searcher="random")
    if tp["kind"] == "fifo":
        sch = FIFOScheduler(cs, **kw)
    else:
        hk = dict(type=tp["kind"][3:], resource_attr="epoch", grace_period=tp["grace"], reduction_factor=tp["rf"])
        if spec["use_maxres"]:
            hk["max_resource_attr"] = "epochs"
        else:
            hk["max_t"] = sh.fids_of(spec)[-1]
        sch = HyperbandScheduler(cs, **kw, **hk)
    tmp = tempfile.mkdtemp(prefix="c10-tuner-")
    old_env = os.environ.get("SYNETUNE_FOLDER")
    os.environ["SYNETUNE_FOLDER"] = tmp
    err = None
    try:
        with mock.patch.object(m["tk"], "time", fake), contextlib.redirect_stdout(sink), contextlib.redirect_stderr(sink):
            np.random.seed(tp["seed"] % (2 ** 31))
            be, bb = sh.make_backend(spec, fake, dt_source, log)
            stop = StoppingCriterion(max_num_trials_started=tp["max_trials"], max_wallclock_time=tp["max_wallclock"])
            if tp.get("hov"):
                bb.hyperparameter_objectives_values(predict_curves=False)
            sleep_kw = {} if tp.get("tuner_sleep", 0) == "default" else dict(sleep_time=tp.get("tuner_sleep", 0))
            tuner = Tuner(trial_backend=be, scheduler=sch, stop_criterion=stop, n_workers=tp["n_workers"],
                          callbacks=[RecordingCallback()], save_tuner=False, **sleep_kw,
                          start_jobs_without_delay=tp["without_delay"], tuner_name="c10",
                          wait_trial_completion_when_stopping=tp["wait"], print_update_interval=1e9,
                          results_update_interval=1e9)
            try:
                tuner.run()
            except Exception as e:   # an exception of the run ends the recorded sequence
                err = "%s: %s" % (type(e).__name__, str(e)[:300])
    finally:
        if old_env is None:
            os.environ.pop("SYNETUNE_FOLDER", None)
        else:
            os.environ["SYNETUNE_FOLDER"] = old_env
        shutil.rmtree(tmp, ignore_errors=True)
    return log, list(bb.seed_calls), sleeps, err


# --------------------------------------------------------------------------
# the event queue alone: SimulatorState as a binary heap array
# --------------------------------------------------------------------------
def gen_heap_ops(rng):
    grid = rng.choice([1, 2, 4, 64])
    ntr = rng.randint(1, 5)
    ops, now = [], 0.0
    for _ in range(rng.choice([10, 25, 60])):
        r = rng.random()
        if r < 0.55:
            ops.append(["push", rng.randrange(ntr), now + rng.randint(0, 6 * grid) / grid if grid > 1 or rng.random() < 0.8 else rng.uniform(0, 5)])
        elif r < 0.85:
            now += rng.choice([0.0, 0.5, 1.0, 3.0])
            for _ in range(rng.randint(1, 4)):
                ops.append(["next", now])
        else:
            ops.append(["remove", rng.randrange(ntr)])
    return ops


def run_heap_cases(ctx, replay):
    rng = ctx.rng
    if replay is not None:
        todo = [replay["ops"]] if replay.get("kind") == "heap" else []
    else:
        todo = [gen_heap_ops(rng) for _ in range(ctx.n(120, 2000))]
    cases, meta = [], []
    for ops in todo:
        steps = sh.run_heap_ops(ops)
        case = dict(kind="heap", ops=ops)
        nrem = sum(1 for o in ops if o[0] == "remove")
        ctx.count(("heap", ops), nontrivial=nrem > 0 and max(len(s["arr"]) for s in steps) >= 4)
        ctx.h("case_kind", "heap")
        ctx.h("heap_max_size", max(len(s["arr"]) for s in steps) // 5 * 5)
        for what, sig in sh.check_heap_steps(steps)[:2]:
            ctx.violation("property", what, case=case, signature=dict(sig, case_kind="heap"))
        ctx.traces_validated += 1
        cases.append(sh.coq_heap_case(steps))
        meta.append((case, steps))
    if cases:
        ctx.sample(dict(kind="heap", ops=meta[0][0]["ops"][:10], array_after_last_call=meta[0][1][-1]["arr"]), limit=5)
        import common
        getattr(common, "_case_dir", lambda: None)()
        for i in ctx.coq_bad_cases("heap", sh.IMPORTS, sh.HEAP_PRELUDE, "chk_heap_case", cases, shard=40, jobs=8):
            ctx.violation("correspondence", "heapq array of SimulatorState.event_heap and the model's binary heap (model/Sim.v bh_*) differ, "
                          "or the array is not a heap: ops %s" % str(meta[i][0]["ops"])[:500], case=meta[i][0], failing_input=False,
                          broken="correspondence chk_heap_case (model/Sim.v bh_push / bh_pop / bh_heapify)")


# --------------------------------------------------------------------------
def nontrivial(log):
    kinds = {op["kind"] for op in log}
    nres = sum(len(op.get("results", [])) for op in log)
    return nres >= 2 and ("pause" in kinds or "stop" in kinds) and "fetch" in kinds


def signature_of(sig, spec, kind):
    s = dict(sig)
    s["case_kind"] = kind
    return s


def run(ctx, replay=None):
    rng = ctx.rng
    ctx.rule = ("cases: (a) operation sequences start/resume/pause/stop/fetch/busy/sleep with scripted outside time on the "
                "real UserBlackboxBackend over synthetic tables (2..6 configurations, 1..3 seeds, 2..30 levels, "
                "cumulative/noisy/non-monotone/flat/sub-0.01 elapsed-time columns, all five delays incl. 0 and "
                "delay_stop > epoch time, checkpointing on/off, max_resource_attr on/off, fixed or per-trial seed, a few "
                "illegal calls); (b) whole runs of the real Tuner + SimulatorCallback with FIFO / Hyperband stopping / "
                "promotion. non-trivial = at least 2 delivered results, a fetch and a pause or stop; distinct by content hash")
    run_heap_cases(ctx, replay)
    if replay is not None and replay.get("kind") == "heap":
        return
    cases, meta = [], []
    todo = []
    if replay is not None:
        todo.append(replay)
    else:
        cdir = os.path.join(os.path.dirname(os.path.dirname(os.path.dirname(os.path.abspath(__file__)))), "corpus", "C10")
        if os.path.isdir(cdir):
            import json
            for f in sorted(os.listdir(cdir)):
                if f.endswith(".json"):
                    todo.append(json.load(open(os.path.join(cdir, f))))
        for i in range(ctx.n(210, 2500)):
            todo.append(dict(kind="direct", gen=True, big=(i % 10 == 0)))
        for i in range(ctx.n(48, 600)):
            todo.append(dict(kind="tuner", gen=True))

    for item in todo:
        kind = item["kind"]
        if kind == "direct":
            if item.get("gen"):
                spec = sh.gen_spec(rng, big=item.get("big", False))
                np_seed = rng.randrange(2 ** 31)
                log, seed_calls = run_direct(spec, None, rng=rng, nops=rng.choice([10, 25, 45, 70, 100]), np_seed=np_seed)
            else:
                spec, np_seed = item["spec"], item.get("np_seed", 0)
                log, seed_calls = run_direct(spec, item["ops"], np_seed=np_seed)
            case = dict(kind="direct", spec=spec, ops=ops_for_replay(log), np_seed=np_seed)
            sleeps, err = [], None
        else:
            if item.get("gen"):
                spec = sh.gen_spec(rng, big=False)
                if spec["sleep"] == 0.0:
                    spec["sleep"] = 0.5     # a tuner that never sleeps in simulated time need not terminate
                spec["sleep"] = rng.choice([spec["sleep"], 0.1, 1.0])
                if 0 in spec.get("nan_cols", []):
                    # the schedulers rank by m0: keep that column complete, missing cells in the other column only
                    for per_seed in spec["table"]:
                        for rows in per_seed:
                            for f, row in enumerate(rows):
                                if row[1][0] != row[1][0]:
                                    row[1][0] = float(1000 + f)
                tp = gen_tuner_params(rng, spec)
                if sh.fids_of(spec) != list(range(1, spec["nfid"] + 1)):
                    tp["kind"] = "fifo"     # Hyperband's rung levels assume the grid 1..n
            else:
                spec, tp = item["spec"], item["tp"]
            log, seed_calls, sleeps, err = run_tuner(spec, tp)
            case = dict(kind="tuner", spec=spec, tp=tp)
            ctx.h("tuner_scheduler", tp["kind"])
            if err is not None:
                ctx.h("tuner_run_exception", err.split(":")[0])
        ctx.count((kind, case), nontrivial=nontrivial(log))
        ctx.h("case_kind", kind)
        ctx.h("table_style", spec["style"])
        ctx.h("n_ops", min(len(log) // 20 * 20, 400))
        for op in log:
            ctx.h("op", op["kind"] + ("!" + op["err"] if "err" in op else ""))
        ctx.h("results_delivered", min(sum(len(op.get("results", [])) for op in log) // 10 * 10, 200))
        ctx.h("resumes", sum(1 for op in log if op["kind"] == "resume" and "err" not in op))
        ctx.h("checkpointing", spec["checkpointing"])
        ctx.h("fidelity_grid", spec.get("fid_grid", "1..n"))
        ctx.h("table_renamed_by_rename_objectives", bool(spec.get("rename")))
        ctx.h("config_key_order", spec.get("key_order", "xy"))
        ctx.h("table_has_missing_cells", any(x != x for ps in spec["table"] for rows in ps for r_ in rows for x in r_[1]))
        ctx.h("hyperparameter_objectives_values_calls", sum(1 for op in log if op["kind"] == "hov") + (1 if kind == "tuner" and case["tp"].get("hov") else 0))
        if kind == "tuner":
            ctx.h("tuner_sleep_time_arg", "%s / backend %s" % (case["tp"].get("tuner_sleep", 0), spec["sleep"]))
        # ---- independent checker on what the implementation delivered
        for what, sig in sh.check_log(spec, log)[:3]:
            ctx.violation("property", what, case=case, signature=signature_of(sig, spec, kind))
        # each tuner sleep advances the clock by exactly tuner_sleep_time
        for (b, a) in sleeps:
            if not sh.close(a, b + spec["sleep"]):
                ctx.violation("property", "tuner sleep advanced the simulated clock from %r to %r, tuner_sleep_time is %r"
                              % (b, a, spec["sleep"]), case=case, signature=dict(defect="sleep_charge", case_kind=kind))
                break
        ctx.traces_validated += 1
        if any(op.get("err") not in (None,) and op["err"] not in sh.ERRS for op in log):
            bad = [op for op in log if op.get("err") not in (None,) and op["err"] not in sh.ERRS][0]
            ctx.violation("correspondence", "implementation raised %s (%s), which the model has no outcome for"
                          % (bad["err"], bad.get("errmsg")), case=case, failing_input=False,
                          broken="correspondence chk_case (model/Sim.v step)")
            continue
        cases.append(sh.coq_case(spec, log, seed_calls))
        meta.append((case, spec, log))
        if kind == "direct":
            ctx.sample(dict(kind=kind, settings={k: spec[k] for k in ("delays", "sleep", "checkpointing", "fixed_seed", "use_maxres", "style", "nfid", "nseeds")},
                            ops=ops_for_replay(log)[:12], first_fetch=[op for op in log if op["kind"] == "fetch"][:1]), limit=2)
        else:
            ctx.sample(dict(kind=kind, tuner=case["tp"], n_recorded_calls=len(log),
                            delivered=sum(len(op.get("results", [])) for op in log)), limit=4)

    if not cases:
        return
    # common._case_dir() publishes its per-process directory name before creating it; create it here,
    # before the worker threads of coq_bad_cases race for it
    import common
    getattr(common, "_case_dir", lambda: None)()
    bad = ctx.coq_bad_cases("sim", sh.IMPORTS, sh.PRELUDE, "chk_case", cases, shard=12, jobs=8)
    if bad:
        where = ctx.coq_eval("simdiff", sh.IMPORTS, sh.PRELUDE, ["diff_case %s" % cases[i] for i in bad[:40]])
        for i, w in zip(bad[:40], where):
            case, spec, log = meta[i]
            if sh.near_tie(spec, log):
                ctx.h("boundary_excused", "near tie between an event time and the clock")
                continue
            k = int(w.strip("()%Z ").replace("(", "").replace(")", "")) if w else -1
            opdesc = log[k] if 0 <= k < len(log) else None
            ctx.violation("correspondence", "model and implementation differ at operation %s: %s" % (k, str(opdesc)[:700]),
                          case=case, failing_input=False, broken="correspondence chk_case (model/Sim.v step)")
