"""C03 — correspondence of model/Rung.v with
syne_tune/optimizer/schedulers/{hyperband_stopping,hyperband_rush,hyperband}.py and the independent checker
of the documented quantile rule (numpy.quantile over rung contents tracked by the harness itself) on every
decision of the real HyperbandScheduler(type="stopping"|"rush_stopping")."""
import numpy as np

from common import q, lst, natlit, zlit, blit, optlit
import rung_util as U

IMPORTS = "From Coq Require Import Strings.String.\nFrom Verif Require Import model.Base model.Rung.\nOpen Scope Q_scope.\n"

PRELUDE = r"""
(* Boundary class: 8 (n + 1) half-ulps relative to the largest |metric| in a rung of n entries (round-off of Rung.quantile) *)
Definition tol_of (n : nat) : Q := inject_Z (8 * (Z.of_nat n + 1)) / inject_Z (2 ^ 53).
Definition Qabs' (x : Q) : Q := if Qle_bool 0 x then x else - x.
Definition max_abs (l : list entry) : Q :=
  fold_left (fun acc e => if Qle_bool acc (Qabs' (e_metric e)) then Qabs' (e_metric e) else acc) l 0.
Definition md_of (b : bool) : mode := if b then Min else Max.

(* ---- unit step: Rung.add order and Rung.quantile --------------------------------------------
   (is_min, prom_quant, entries in insertion order, implementation's trial order, implementation's quantile) *)
Definition quant_case := (bool * Q * list (Z * Q) * list Z * option Q)%type.
Definition chk_quant (c : quant_case) : bool :=
  let '(is_min, pq, ins, order, impl) := c in
  let md := md_of is_min in
  let data := fold_left (fun d tm => sl_add md {| e_trial := fst tm; e_metric := snd tm |} d) ins [] in
  list_eqb Z.eqb (map e_trial data) order &&
  match rung_quantile md pq data, impl with
  | QNone, None => true
  | QVal v, Some w => Qle_bool (Qabs' (v - w)) (tol_of (length data) * max_abs data)
  | _, _ => false
  end.

(* ---- sequences ------------------------------------------------------------------------------ *)
Definition outcome_eqb (a b : outcome) : bool :=
  match a, b with
  | Dec x, Dec y => decision_eqb x y
  | Done, Done => true
  | Err EAssertResource, Err EAssertResource | Err EKeyTrial, Err EKeyTrial | Err EKeyTask, Err EKeyTask
  | Err EIndexSystem, Err EIndexSystem | Err EAssertQuantile, Err EAssertQuantile
  | Err EAssertExists, Err EAssertExists => true
  | _, _ => false
  end.

(* the base rule answered the other way (only accepted on a Boundary decision) *)
Definition tcf_flipped (cfg : config) : tc_fun := fun rg t m ths =>
  match base_continues (c_mode cfg) rg m with
  | None => (ths, None)
  | Some tc =>
      match c_rush cfg with
      | None => (ths, Some (negb tc))
      | Some n => let '(ths', b) := rush_decide (c_mode cfg) n ths (negb tc) t m (r_level rg) in (ths', Some b)
      end
  end.

(* is the metric of this report within tolerance of the cutoff of the rung it enters? *)
Definition is_boundary (cfg : config) (st : state) (t r : Z) (m : Q) : bool :=
  match assoc_get (s_task st) t with
  | None => false
  | Some b =>
      match nth_error (s_sys st) (sys_id cfg b) with
      | None => false
      | Some sys =>
          existsb (fun rg =>
            Z.eqb (r_level rg) r && negb (rung_contains t rg) &&
            let rg' := rung_add (c_mode cfg) rg t m in
            match rung_quantile (c_mode cfg) (r_quant rg') (r_data rg') with
            | QVal c => Qle_bool (Qabs' (m - c)) (tol_of (length (r_data rg')) * max_abs (r_data rg'))
            | _ => false
            end) (milestone_rungs (skip_of cfg b) (rs_rungs sys))
      end
  end.

(* None = the scheduler went through a dill round trip at this point *)
Fixpoint run_obs (cfg : config) (st : state) (evs : list (option event * outcome)) : option state :=
  match evs with
  | [] => Some st
  | (None, _) :: rest => run_obs cfg (restore_state cfg st) rest
  | (Some ev, obs) :: rest =>
      let '(st1, out) := step cfg st ev in
      if outcome_eqb out obs then run_obs cfg st1 rest
      else match ev with
           | EvReport t r m =>
               if is_boundary cfg st t r m then
                 let '(st2, out2) := step_gen (tcf_flipped cfg) cfg st ev in
                 if outcome_eqb out2 obs then run_obs cfg st2 rest else None
               else None
           | _ => None
           end
  end.

(* successive_halving_rung_levels: (rung_levels, grace_period, reduction_factor, rung_increment, max_t, implementation's
   result or None = AssertionError) *)
Definition lv_params := (option (list Z) * Z * option Q * option Z)%type.
Definition levels_case := (lv_params * Z * option (list Z))%type.
Definition model_levels (p : lv_params) (max_t : Z) : option (list Z) :=
  let '(rl, grace, rf, incr) := p in sh_rung_levels rl grace rf incr max_t.
Definition chk_levels (c : levels_case) : bool :=
  let '(p, max_t, impl) := c in opt_eqb (list_eqb Z.eqb) (model_levels p max_t) impl.

(* maximum resource: (max_t argument, max_resource_attr, configuration space with Some constant / None hyperparameter) *)
Definition maxt_in := (option Z * option string * cspace)%type.
Definition model_max_t (i : maxt_in) : option Z := let '(arg, attr, cs) := i in infer_max_resource_level arg attr cs.
Definition maxt_case := (maxt_in * option Z)%type.
Definition chk_maxt (c : maxt_case) : bool := opt_eqb Z.eqb (model_max_t (fst c)) (snd c).

(* (is_min, per_bracket, rush), maximum resource inputs (the model infers max_t itself), construction parameters (None only for a rounding Boundary of a non-integer
   reduction factor: then the implementation's levels are used), implementation's rung levels, brackets, observed events,
   information_for_rungs() at the end (level, entries, prom_quant) *)
Definition seq_case := ((bool * bool * option Z) * maxt_in * option lv_params * list Z * nat
                        * list (option event * outcome) * list (Z * nat * Q))%type.
Definition chk_seq (c : seq_case) : bool :=
  let '((is_min, pb, rush), mt, params, levels, brackets, evs, info) := c in
  match model_max_t mt with None => false | Some max_t =>
  let cfg := {| c_mode := md_of is_min; c_max_t := max_t; c_per_bracket := pb; c_rush := rush |} in
  match params with
  | Some p => opt_eqb (list_eqb Z.eqb) (model_levels p max_t) (Some levels)
  | None => true
  end &&
  match run_obs cfg (init_state cfg levels brackets) evs with
  | None => false
  | Some st =>
      match s_sys st with
      | [] => false
      | sys :: _ =>
          list_eqb (fun a b => Z.eqb (fst (fst a)) (fst (fst b)) && Nat.eqb (snd (fst a)) (snd (fst b)) &&
                               Qle_bool (Qabs' (snd a - snd b)) (1 # 1000000000000))
                   (map (fun rg => (r_level rg, length (r_data rg), r_quant rg)) (rs_rungs sys)) info
      end
  end end.
"""


# ------------------------------------------------------------------------------------------------
# unit step: Rung.quantile
# ------------------------------------------------------------------------------------------------
def gen_quant_case(rng):
    n = rng.choice([0, 1, 2, 3, 4, 5, 7, 10, rng.randint(0, 60), rng.randint(0, 60)])
    style = rng.choice(["grid", "float", "dupes", "signed", "tiny", "neartie"])
    vals = []
    for _ in range(n):
        if style == "tiny":
            vals.append(rng.uniform(0.1, 1.0) * 1e-9 * rng.choice([1, 1, -1]))
        elif style == "neartie":
            vals.append(0.9123 * (1 + rng.randint(-9, 9) * 1e-6))
        elif style == "grid":
            vals.append(float(rng.randint(0, 5)))
        elif style == "float":
            vals.append(rng.uniform(0, 1))
        elif style == "signed":
            vals.append(rng.choice([rng.uniform(-100, 100), float(rng.randint(-3, 3)), 0.25 * rng.randint(-8, 8)]))
        else:
            vals.append(rng.choice(vals) if vals and rng.random() < 0.5 else rng.uniform(-1, 1))
    lo = rng.randint(1, 40)
    hi = rng.randint(lo + 1, 81)
    return dict(kind="quantile", mode=rng.choice(["min", "max"]), level=lo, next_level=hi, vals=vals, style=style)


def run_quant_cases(ctx, cases_in):
    from syne_tune.optimizer.schedulers.hyperband_stopping import Rung, RungEntry
    terms, meta = [], []
    for c in cases_in:
        pq = c["level"] / c["next_level"]
        rung = Rung(level=c["level"], prom_quant=pq, mode=c["mode"])
        for i, v in enumerate(c["vals"]):
            rung.add(RungEntry(trial_id=str(i), metric_val=v))
        try:
            impl_q = rung.quantile()
        except Exception as e:  # an exception escaping Rung.quantile is itself a failure of the rule
            ctx.violation("property", "Rung.quantile raised %s on %d entries" % (type(e).__name__, len(c["vals"])),
                          case=c, signature=dict(function="Rung.quantile", mode=c["mode"], defect="raises"))
            continue
        order = [int(e.trial_id) for e in rung.data]
        n = len(c["vals"])
        ctx.count(("quantile", c["mode"], c["level"], c["next_level"], c["vals"]),
                  nontrivial=n >= 3 and len(set(c["vals"])) >= 2)
        ctx.h("quantile_len", n // 10 * 10)
        ctx.h("quantile_style", c["style"])
        # independent checker: numpy's own linear-interpolation quantile; order: best first
        bad = None
        if n < 2:
            if impl_q is not None:
                bad = "quantile of %d entries is %r, expected None" % (n, impl_q)
        else:
            want = float(np.quantile(np.array(c["vals"]), pq if c["mode"] == "min" else 1 - pq))
            scale = max(abs(v) for v in c["vals"])
            if impl_q is None or not U.rel_close(impl_q, want, scale, n):
                bad = "Rung.quantile = %r, numpy.quantile = %r" % (impl_q, want)
        sign = 1 if c["mode"] == "min" else -1
        keys = [sign * c["vals"][i] for i in order]
        if sorted(order) != list(range(n)) or any(a > b for a, b in zip(keys, keys[1:])):
            bad = "Rung.data is not sorted best first: %r" % (order,)
        if bad:
            ctx.violation("property", bad, case=c, signature=dict(function="Rung.quantile", mode=c["mode"]))
        terms.append("((%s, %s, %s, %s, %s) : quant_case)" % (
            blit(c["mode"] == "min"), "(%d # %d)" % (c["level"], c["next_level"]),
            lst(["(%s, %s)" % (zlit(i), q(v)) for i, v in enumerate(c["vals"])]),
            lst([zlit(i) for i in order]), optlit(impl_q, q)))
        meta.append(dict(c, impl_quantile=impl_q, impl_order=order))
    if terms:
        ctx.sample(dict(kind="Rung.quantile", mode=meta[0]["mode"], q="%d/%d" % (meta[0]["level"], meta[0]["next_level"]),
                        vals=meta[0]["vals"][:8], impl_quantile=meta[0]["impl_quantile"]))
        for i in ctx.coq_bad_cases("quant", IMPORTS, PRELUDE, "chk_quant", terms, shard=150):
            ctx.violation("correspondence", "model Rung.add/quantile differs from implementation",
                          case={k: v for k, v in meta[i].items() if k not in ("impl_quantile", "impl_order")},
                          failing_input=False, broken="correspondence chk_quant (model/Rung.v sl_add, rung_quantile)")


# ------------------------------------------------------------------------------------------------
# sequences on the real HyperbandScheduler
# ------------------------------------------------------------------------------------------------
def gen_seq_spec(rng):
    spec = U.gen_rung_params(rng)
    spec.update(U.gen_max_t_variant(rng, spec["max_t"]))
    spec.update(kind="sequence", type=rng.choice(["stopping", "stopping", "rush_stopping"]),
                mode=rng.choice(["min", "max"]), brackets=rng.randint(1, 4),
                per_bracket=rng.random() < 0.35, seed=rng.randint(0, 10 ** 6))
    if spec["type"] == "rush_stopping":
        spec["num_threshold_candidates"] = rng.choice([0, 1, 2, 3])
    conc = rng.randint(2, 8)
    total = rng.randint(conc, 26)
    metric_style = rng.choice(["grid", "float", "float", "trend", "tiny", "neartie", "neartie"])
    # in a share of the scripts the metric values are reported as numpy scalars (as simulators / blackbox tables / in-process
    # drivers do); the values are exactly representable in the type: dyadic k/64 for float32, integers for int64 / int32
    metric_dtype = rng.choice(["py", "py", "py", "float64", "float32", "float32", "int64", "int32"])
    if metric_dtype == "float32":
        metric_style = "dyadic"
    elif metric_dtype in ("int64", "int32"):
        metric_style = "grid"
    ops = []  # abstract script, made concrete while running (depends on decisions)
    spec.update(concurrent=conc, total=total, metric_style=metric_style, metric_dtype=metric_dtype, steps=rng.randint(20, 160),
                script_seed=rng.randint(0, 10 ** 9))
    return spec


def metric_value(rng, style, t, r):
    if style == "dyadic":    # exactly representable in float32 (and float16)
        return rng.randint(0, 128) / 64.0
    if style == "tiny":      # losses of magnitude 1e-9: differences far above round-off, far below any absolute tolerance
        return rng.uniform(0.1, 1.0) * 1e-9
    if style == "neartie":   # values agreeing to ~5 significant digits (relative differences 1e-6 .. 1e-5), some exact ties
        return 0.9123 * (1 + rng.randint(-9, 9) * 1e-6)
    if style == "grid":
        return float(rng.randint(0, 6))
    if style == "trend":
        return round(1.0 / (1 + r) + 0.1 * ((t * 7919) % 13) + rng.choice([0.0, 0.0, 0.01 * rng.randint(-3, 3)]), 6)
    return rng.uniform(0, 1)


class ConstructorRaised(Exception):
    pass


EXC = {"KeyError": "EKeyTrial", "AssertExists": "EAssertExists", "AssertResource": "EAssertResource"}


class Box:
    pass


def run_sequence(ctx, spec, events=None):
    """Runs the script on the real scheduler. Returns dict(events=[...concrete events with observed outcome...], ...).
    If [events] is given (replay) it is executed literally."""
    g = run_sequence_gen(ctx, spec, events)
    try:
        while True:
            next(g)
    except StopIteration as e:
        return e.value


def run_twin(ctx, specs, events=None):
    """Interleaved twin experiment: two independent schedulers alive in the same process, their events interleaved
    (trial ids 0, 1, 2, ... are used by both); each is checked against its own reference and its own model instance.
    Replay: the recorded events carry their global position "g" and are executed in that order."""
    import random as _random
    clock = [0]
    gens = [run_sequence_gen(ctx, sp, None if events is None else events[i], clock) for i, sp in enumerate(specs)]
    for g in gens:
        next(g)  # construct both schedulers before any event
    results = [None, None]
    live = [0, 1]
    rng = _random.Random(specs[0]["script_seed"] ^ specs[1]["script_seed"])
    pos = [0, 0]
    while live:
        if events is None:
            i = rng.choice(live)
        else:
            nxt = {j: (events[j][pos[j]].get("g", 0) if pos[j] < len(events[j]) else 10 ** 12) for j in live}
            i = min(live, key=lambda j: nxt[j])
            pos[i] += 1
        try:
            next(gens[i])
        except StopIteration as e:
            results[i] = e.value
            live.remove(i)
    return results


def run_sequence_gen(ctx, spec, events=None, clock=None):
    import random as _random
    from syne_tune.optimizer.schedulers.hyperband import HyperbandScheduler
    from syne_tune.config_space import uniform

    U.quiet()
    space = {"x": uniform(0, 1)}
    space.update(spec.get("space_consts", {}))
    try:
        sch = HyperbandScheduler(space, **U.hyperband_kwargs(spec))
    except Exception as e:  # every generated configuration is valid
        raise ConstructorRaised("%s: %s" % (type(e).__name__, str(e)[:200]))
    levels = list(sch.rung_levels)
    impl_max_t = sch.max_t
    nb = sch.num_brackets
    S = Box()
    S.sch = sch
    S.oh = U.OneHotBrackets(nb)
    sch.bracket_distribution = S.oh
    del sch

    class Guard:
        """scheduler object whose on_trial_remove / on_trial_complete / on_trial_error never crash the harness: an
        exception other than the documented KeyError of on_trial_complete for an unknown trial is a failure"""

        def __getattr__(self, name):
            fn = getattr(S.sch, name)

            def wrapped(*a, **k):
                try:
                    return fn(*a, **k)
                except KeyError:
                    if name == "on_trial_complete" and a and a[0].trial_id not in last_dec:
                        raise
                    violations.append(("%s(trial %s) raised KeyError" % (name, a[0].trial_id if a else "?"), "call_raises"))
                except Exception as e:
                    violations.append(("%s(trial %s) raised %s" % (name, a[0].trial_id if a else "?", type(e).__name__), "call_raises"))
            return wrapped
    G = Guard()

    def do_restore():
        """what Tuner.save / load do to the scheduler"""
        import dill
        S.sch = dill.loads(dill.dumps(S.sch))
        S.oh = S.sch.bracket_distribution
    # the reference maximum resource comes from the documented rule, never from scheduler.max_t
    max_t = spec["max_t"]
    if "max_t_via" in spec:
        max_t = U.documented_max_t(spec["max_t_arg"], spec["max_resource_attr"], spec["space_consts"])
        assert max_t == spec["max_t"], "generator: documented max_t differs from the intended one"
    mode = spec["mode"]
    per_bracket = spec.get("per_bracket", False)
    nthr = spec.get("num_threshold_candidates", 0) if spec["type"] == "rush_stopping" else None
    impl_levels = levels
    # the checker works with the DOCUMENTED rung levels (recomputed by the harness), not with the scheduler's own
    doc = U.expected_rung_levels(spec)
    levels = doc if doc else impl_levels
    quant = {lv: lv / (levels[i + 1] if i + 1 < len(levels) else max_t) for i, lv in enumerate(levels)}

    # ---- harness-side tracker (independent checker of the documented rule) ----
    store = {}       # (system, level) -> list of (trial, metric)
    thr = {}         # (system, level) -> best threshold-candidate value   (RUSH)
    bracket_of, last_dec, trials = {}, {}, {}
    violations, n_boundary, n_decisions_at_rung, n_nontrivial = [], 0, 0, 0

    def check_report(t, r, m, dec):
        nonlocal n_boundary, n_decisions_at_rung, n_nontrivial
        b = bracket_of[t]
        sysk = b if per_bracket else 0
        own = levels[b:]
        if r >= max_t:
            if dec != "STOP":
                violations.append(("resource %d >= max_t %d but decision %s" % (r, max_t, dec), "max_t_not_stopped"))
            return
        if r in own and all(t != tt for tt, _ in store.get((sysk, r), [])):
            ent = store.setdefault((sysk, r), [])
            ent.append((t, m))
            n_decisions_at_rung += 1
            vals = np.array([v for _, v in ent])
            boundary = False
            if len(ent) < 2:
                base = True
            else:
                n_nontrivial += 1
                qq = quant[r] if mode == "min" else 1 - quant[r]
                cutoff = float(np.quantile(vals, qq))
                boundary = U.rel_close(m, cutoff, float(np.max(np.abs(vals))), len(ent))
                base = (m <= cutoff) if mode == "min" else (m >= cutoff)
            if boundary:
                n_boundary += 1
            key = (sysk, r)

            def final(bc):  # RUSH: base rule and (threshold candidate or no worse than the recorded threshold)
                if nthr is None or not bc:
                    return bc
                if t < nthr:
                    return True
                return key not in thr or ((m <= thr[key]) if mode == "min" else (m >= thr[key]))

            for bc in ([base, not base] if boundary else [base]):
                if final(bc) == (dec == "CONTINUE"):
                    if nthr is not None and bc and t < nthr:
                        thr[key] = m if key not in thr else (min(thr[key], m) if mode == "min" else max(thr[key], m))
                    return
            violations.append((
                "trial %d at rung level %d (bracket %d): metric %r, rung metrics incl. own %r, q=%r mode=%s%s: "
                "rule says %s, scheduler decided %s" % (
                    t, r, b, m, vals.tolist(), quant[r], mode,
                    "" if nthr is None else " rush threshold=%r candidate=%s" % (thr.get(key), t < nthr),
                    "CONTINUE" if final(base) else "STOP", dec),
                "decision_differs_from_quantile_rule"))
        else:
            if dec != "CONTINUE":
                violations.append((
                    "trial %d reports resource %d which is not one of its rung levels %r (or it is already "
                    "recorded there), but decision is %s" % (t, r, own, dec), "decision_outside_own_rung_levels"))

    # ---- script -----------------------------------------------------------------
    rng = _random.Random(spec["script_seed"])
    out_events = []
    running, cursor, next_id = [], {}, 0

    def do_suggest(tid, b):
        S.oh.bracket = b
        try:
            sug = S.sch.suggest(tid)
            trials[tid] = U.mk_trial(tid, sug.config)
            bracket_of[tid] = b
            last_dec[tid] = "CONTINUE"
            return "Done"
        except AssertionError as e:
            return "AssertExists" if "already exists" in str(e) else "AssertOther"
        except Exception as e:
            violations.append(("suggest(%d) raised %s" % (tid, type(e).__name__), "call_raises"))
            return "Raised"

    def do_report(tid, r, m):
        tr = trials.get(tid) or U.mk_trial(tid, {"x": 0.5})
        try:
            dec = S.sch.on_trial_result(tr, {"epoch": r, "m": U.cast_metric(m, spec.get("metric_dtype"))})
        except KeyError:
            if last_dec.get(tid) == "CONTINUE" and r >= 1:
                violations.append(("on_trial_result(trial %d, resource %d) raised KeyError although the trial is running" % (tid, r),
                                   "on_trial_result_raises"))
                last_dec[tid] = "RAISED"
            return "KeyError"
        except AssertionError:
            return "AssertResource" if r < 1 else "AssertOther"
        except Exception as e:
            if last_dec.get(tid) == "CONTINUE":
                violations.append(("on_trial_result(trial %d, resource %d) raised %s" % (tid, r, type(e).__name__),
                                   "on_trial_result_raises"))
                last_dec[tid] = "RAISED"
            return "Raised"
        if tid in last_dec:
            if last_dec[tid] == "CONTINUE":
                check_report(tid, r, m, dec)
                if dec != "CONTINUE":
                    last_dec[tid] = dec
        return dec

    def emit(ev, outcome):
        ev = dict(ev, outcome=outcome)
        if clock is not None:
            ev["g"] = clock[0]
            clock[0] += 1
        out_events.append(ev)

    yield  # the scheduler exists; in a twin experiment the other one is constructed before any event
    if events is not None:
        for ev in events:
            yield
            k = ev["op"]
            if k == "suggest":
                o = do_suggest(ev["t"], ev["b"])
            elif k == "report":
                o = do_report(ev["t"], ev["r"], ev["m"])
            elif k == "restore":
                do_restore()
                o = "Done"
            elif k == "remove":
                G.on_trial_remove(trials.get(ev["t"]) or U.mk_trial(ev["t"], {"x": 0.5}))
                if last_dec.get(ev["t"]) == "CONTINUE":
                    last_dec[ev["t"]] = "PAUSE"
                o = "Done"
            elif k == "complete":
                try:
                    G.on_trial_complete(trials.get(ev["t"]) or U.mk_trial(ev["t"], {"x": 0.5}), {"epoch": ev.get("r", 1), "m": 0.0})
                    if ev["t"] in last_dec:
                        last_dec[ev["t"]] = "STOP"
                    o = "Done"
                except KeyError:
                    o = "KeyError"
            else:
                G.on_trial_error(trials.get(ev["t"]) or U.mk_trial(ev["t"], {"x": 0.5}))
                if ev["t"] in last_dec:
                    last_dec[ev["t"]] = "STOP"
                o = "Done"
            emit({kk: vv for kk, vv in ev.items() if kk not in ("outcome", "g")}, o)
    else:
        def start_new():
            nonlocal next_id
            b = rng.randrange(nb)
            tid = next_id
            next_id += 1
            o = do_suggest(tid, b)
            emit(dict(op="suggest", t=tid, b=b), o)
            running.append(tid)
            cursor[tid] = 0

        for _ in range(spec["concurrent"]):
            yield
            start_new()
        zombies = []  # stopped / removed trials that may still send late reports
        restore_at = set(rng.sample(range(spec["steps"]), rng.choice([0, 0, 1, 1, 2])))
        for step in range(spec["steps"]):
            yield
            if step in restore_at:
                do_restore()
                emit(dict(op="restore"), "Done")
            x = rng.random()
            if x < 0.02 and zombies:
                tid = rng.choice(zombies)
                cursor[tid] += 1
                m = metric_value(rng, spec["metric_style"], tid, cursor[tid])
                emit(dict(op="report", t=tid, r=cursor[tid], m=m), do_report(tid, cursor[tid], m))
                continue
            if x < 0.03:
                tid = next_id + 50  # a trial the scheduler has never seen
                emit(dict(op="report", t=tid, r=1, m=0.5), do_report(tid, 1, 0.5))
                continue
            if x < 0.035 and running:
                tid = rng.choice(running)
                emit(dict(op="suggest", t=tid, b=0), do_suggest_dup(S.sch, S.oh, tid))
                continue
            if x < 0.045 and running:
                tid = rng.choice(running)
                emit(dict(op="report", t=tid, r=0, m=0.5), do_report(tid, 0, 0.5))
                continue
            if not running:
                if next_id < spec["total"]:
                    start_new()
                    continue
                break
            tid = rng.choice(running)
            if x < 0.06:
                k = rng.choice(["remove", "complete", "error"])
                ev = dict(op=k, t=tid)
                if k == "remove":
                    G.on_trial_remove(trials[tid])
                    last_dec[tid] = "PAUSE"
                elif k == "complete":
                    ev["r"] = max(cursor[tid], 1)
                    G.on_trial_complete(trials[tid], {"epoch": ev["r"], "m": 0.0})
                    last_dec[tid] = "STOP"
                else:
                    G.on_trial_error(trials[tid])
                    last_dec[tid] = "STOP"
                emit(ev, "Done")
                running.remove(tid)
                zombies.append(tid)
                if next_id < spec["total"]:
                    start_new()
                continue
            y = rng.random()
            cursor[tid] += 1 if y < 0.93 else (2 if y < 0.97 else 0)
            cursor[tid] = max(cursor[tid], 1)
            r = cursor[tid]
            m = metric_value(rng, spec["metric_style"], tid, r)
            dec = do_report(tid, r, m)
            emit(dict(op="report", t=tid, r=r, m=m), dec)
            if dec != "CONTINUE":
                running.remove(tid)
                if rng.random() < 0.8:
                    G.on_trial_remove(trials[tid])  # what the Tuner does after STOP
                    emit(dict(op="remove", t=tid), "Done")
                zombies.append(tid)
                if next_id < spec["total"]:
                    start_new()

    info = [(int(a), int(b), float(c)) for a, b, c in S.sch.terminator.information_for_rungs()]
    # enter-once / own-levels-only, observed through the public rung sizes of system 0
    for lv, cnt, pq in info:
        if lv in quant and abs(pq - quant[lv]) > 1e-12:
            violations.append(("promotion quantile of rung level %d is %r, expected level/next level = %r" % (
                lv, pq, quant[lv]), "promotion_quantile"))
        mine = len(store.get((0, lv), []))
        if mine != cnt:
            violations.append(("rung level %d of system 0 holds %d entries, but %d distinct trials reported at it as "
                               "one of their own rung levels" % (lv, cnt, mine), "rung_size_mismatch"))
    return dict(levels=impl_levels, impl_max_t=impl_max_t, num_brackets=nb, events=out_events, info=info, violations=violations,
                n_boundary=n_boundary, n_rung_decisions=n_decisions_at_rung, n_nontrivial=n_nontrivial)


def do_suggest_dup(sch, oh, tid):
    oh.bracket = 0
    try:
        sch.suggest(tid)
        return "Done"
    except AssertionError as e:
        return "AssertExists" if "already exists" in str(e) else "AssertOther"


def outcome_term(o):
    if o in ("CONTINUE", "STOP", "PAUSE"):
        return "Dec %s" % o
    if o == "Done":
        return "Done"
    return "Err %s" % EXC.get(o, "EKeyTask")


def event_term(ev):
    k = ev["op"]
    if k == "suggest":
        return "EvSuggest %s %s" % (zlit(ev["t"]), natlit(ev["b"]))
    if k == "report":
        return "EvReport %s %s %s" % (zlit(ev["t"]), zlit(ev["r"]), q(ev["m"]))
    return {"remove": "EvRemove", "complete": "EvComplete", "error": "EvError"}[k] + " " + zlit(ev["t"])


def ev_opt_term(ev):
    return "None" if ev["op"] == "restore" else "Some (%s)" % event_term(ev)


def strlit(x):
    return '"%s"%%string' % x


def maxt_term(arg, attr, consts, hps):
    cs = ["(%s, Some %s)" % (strlit(k), zlit(v)) for k, v in consts.items()] + ["(%s, None)" % strlit(k) for k in hps]
    return "(%s, %s, %s)" % (optlit(arg, zlit), optlit(attr, strlit), lst(cs))


def seq_term(spec, res):
    nthr = spec.get("num_threshold_candidates", 0) if spec["type"] == "rush_stopping" else None
    cfg = "(%s, %s, %s)" % (blit(spec["mode"] == "min"), blit(spec.get("per_bracket", False)), optlit(nthr, zlit))
    evs = lst(["(%s, %s)" % (ev_opt_term(e), outcome_term(e["outcome"])) for e in res["events"]])
    mt = maxt_term(spec.get("max_t_arg", spec["max_t"]) if "max_t_via" in spec else spec["max_t"], spec.get("max_resource_attr"),
                   spec.get("space_consts", {}), ["x"])
    info = lst(["(%s, %s, %s)" % (zlit(a), natlit(b), q(c)) for a, b, c in res["info"]])
    return "((%s, %s, %s, %s, %s, %s, %s) : seq_case)" % (cfg, mt, optlit(params_of(spec), params_term), lst([zlit(x) for x in res["levels"]]),
                                                    natlit(spec["brackets"]), evs, info)


def params_of(spec):
    """construction parameters as the scheduler passes them to successive_halving_rung_levels; None when
    r_min * eta^k is within round-off of a rounding boundary (binary64 may legitimately round the other way)"""
    if spec.get("rung_levels") is not None:
        return dict(rung_levels=list(spec["rung_levels"]), grace_period=1, reduction_factor=None, rung_increment=None)
    rf, incr = spec.get("reduction_factor"), spec.get("rung_increment")
    if rf is None and incr is None:
        rf = 3
    if rf is not None and U.documented_rung_levels(dict(spec, reduction_factor=rf))[1]:
        return None
    return dict(rung_levels=None, grace_period=spec["grace_period"], reduction_factor=rf, rung_increment=incr)


def params_term(p):
    return "(%s, %s, %s, %s)" % (optlit(p["rung_levels"], lambda l: lst([zlit(x) for x in l])), zlit(p["grace_period"]),
                                 optlit(p["reduction_factor"], q), optlit(p["rung_increment"], zlit))


# ------------------------------------------------------------------------------------------------
# unit step: successive_halving_rung_levels
# ------------------------------------------------------------------------------------------------
def gen_levels_case(rng):
    max_t = rng.choice([2, 4, 8, 9, 10, 16, 27, 50, 64, 81, 100, rng.randint(1, 120), rng.randint(1, 120)])
    style = rng.choice(["rf", "rf", "rf", "rf", "incr", "incr", "incr", "explicit", "explicit", "explicit", "both", "neither"])
    c = dict(kind="levels", max_t=max_t, rung_levels=None,
             grace_period=rng.choice([0, 1, 1, 1, 1, 1, 2, 2, 3, 3, 5, rng.randint(1, 12)]),
             reduction_factor=None, rung_increment=None)
    if style in ("rf", "both"):
        c["reduction_factor"] = rng.choice([1, 1.5, 2, 2, 3, 3, 4, 5, 7, 10, 2.0, 2.2, 2.2, 2.5, 2.5, 2.7, 2.7, 3.5, 3.5,
                                            round(rng.uniform(2, 4), 2)])
    if style in ("incr", "both"):
        c["rung_increment"] = rng.choice([0, 1, 1, 1, 2, 2, 3, 5, 9, 40])
    if style == "explicit":
        k = rng.choice([0, 1, 2, 2, 3, 4, 6])
        lv = sorted(rng.sample(range(1, max(max_t, k) + 2), k))
        y = rng.random()
        if y < 0.1 and lv:
            lv[rng.randrange(len(lv))] = 0
        elif y < 0.2 and len(lv) >= 2:
            i = rng.randrange(len(lv) - 1)
            lv[i + 1] = lv[i] if rng.random() < 0.5 else lv[i] - 1
        elif y < 0.45 and lv:
            lv[-1] = max_t
            lv = sorted(set(lv)) if rng.random() < 0.7 else lv
        c["rung_levels"] = lv
    return c


def run_levels_cases(ctx, cases_in):
    from syne_tune.optimizer.schedulers.utils.successive_halving import successive_halving_rung_levels
    U.quiet()
    terms, kept = [], []
    for c in cases_in:
        try:
            impl = successive_halving_rung_levels(None if c["rung_levels"] is None else list(c["rung_levels"]), c["grace_period"],
                                                  c["reduction_factor"], c["rung_increment"], c["max_t"])
            impl = [int(x) for x in impl]
        except AssertionError:
            impl = None
        ctx.count(("levels", c), nontrivial=impl is not None and len(impl) >= 2)
        ctx.h("levels_kind", "explicit" if c["rung_levels"] is not None else ("rf" if c["reduction_factor"] is not None else "incr"))
        ctx.h("levels_result", "AssertionError" if impl is None else min(len(impl), 8))
        rf = c["reduction_factor"]
        rf_int = rf is None or int(rf) == rf
        boundary = False
        if impl is not None:
            # independent checker: strictly increasing positive levels below max_t, equal to the documented formula
            # (exact rational arithmetic, every reduction factor)
            want, boundary = U.documented_rung_levels(c)
            ok = all(a < b for a, b in zip(impl, impl[1:])) and all(1 <= x < c["max_t"] for x in impl) and len(impl) >= 1
            if not ok or (not boundary and want != impl):
                ctx.violation("property", "successive_halving_rung_levels(grace_period=%r, reduction_factor=%r, rung_increment=%r, "
                              "rung_levels=%r, max_t=%r) gives %r, documented r_min*eta^k (rounded) is %r" % (
                                  c["grace_period"], rf, c["rung_increment"], c["rung_levels"], c["max_t"], impl, want), case=c,
                              signature=dict(check="rung_levels", rf_integer=bool(rf_int)))
        ctx.h("levels_rf", "none" if rf is None else ("integer" if rf_int else "non_integer"))
        if boundary:
            ctx.h("levels_result", "Boundary")
            continue
        kept.append(c)
        terms.append("((%s, %s, %s) : levels_case)" % (params_term(c), zlit(c["max_t"]),
                                                      optlit(impl, lambda l: lst([zlit(x) for x in l]))))
    if terms:
        for i in ctx.coq_bad_cases("levels", IMPORTS, PRELUDE, "chk_levels", terms, shard=300):
            ctx.violation("correspondence", "model sh_rung_levels differs from successive_halving_rung_levels",
                          case=kept[i], failing_input=False,
                          broken="correspondence chk_levels (model/Rung.v sh_rung_levels)")


# ------------------------------------------------------------------------------------------------
# unit step: maximum resource inferred by the constructor (public attribute scheduler.max_t)
# ------------------------------------------------------------------------------------------------
def gen_maxt_case(rng):
    keys = ["epochs", "max_t", "max_epochs", "num_steps", "steps"]
    consts = {k: rng.choice([3, 9, 16, 27, 81]) for k in keys if rng.random() < 0.4}
    hps = [k for k in keys if k not in consts and rng.random() < 0.2]  # default-named hyperparameters are not constants
    return dict(kind="maxt", arg=rng.choice([None, None, None, 5, 50]), attr=rng.choice([None, None] + keys), consts=consts, hps=hps)


def run_maxt_cases(ctx, cases_in):
    from syne_tune.optimizer.schedulers.fifo import FIFOScheduler
    from syne_tune.config_space import uniform, randint
    U.quiet()
    terms = []
    for c in cases_in:
        space = {"x": uniform(0, 1)}
        space.update(c["consts"])
        space.update({k: randint(1, 100) for k in c["hps"]})
        kw = {}
        if c["arg"] is not None:
            kw["max_t"] = c["arg"]
        if c["attr"] is not None:
            kw["max_resource_attr"] = c["attr"]
        impl = FIFOScheduler(space, searcher="random", metric="m", mode="min", random_seed=0, **kw).max_t
        impl = None if impl is None else int(impl)
        want = U.documented_max_t(c["arg"], c["attr"], c["consts"])
        ctx.count(("maxt", c), nontrivial=c["arg"] is None and len(c["consts"]) >= 2)
        ctx.h("maxt_source", "arg" if c["arg"] is not None else ("attr" if c["attr"] in c["consts"] else
                                                                  ("default_key" if want is not None else "none")))
        if impl != want:
            ctx.violation("property", "scheduler.max_t = %r, the documented rule (max_t argument, then config_space[max_resource_attr], "
                          "then epochs / max_t / max_epochs) gives %r for max_t=%r, max_resource_attr=%r, constants %r" % (
                              impl, want, c["arg"], c["attr"], c["consts"]), case=c, signature=dict(check="max_t"))
        terms.append("((%s, %s) : maxt_case)" % (maxt_term(c["arg"], c["attr"], c["consts"], ["x"] + c["hps"]), optlit(impl, zlit)))
    if terms:
        for i in ctx.coq_bad_cases("maxt", IMPORTS, PRELUDE, "chk_maxt", terms, shard=300):
            ctx.violation("correspondence", "model infer_max_resource_level differs from scheduler.max_t", case=cases_in[i],
                          failing_input=False, broken="correspondence chk_maxt (model/Rung.v infer_max_resource_level)")


def run(ctx, replay=None):
    ctx.rule = ("cases: (a) Rung.add/quantile on metric lists of length 0..60 (grids with ties, duplicates, signed floats), "
                "both modes, q = level/next level; non-trivial = >= 3 entries with >= 2 distinct values; (a') "
                "successive_halving_rung_levels on grids of grace_period / reduction_factor (integers and 1.5, 2.2, 2.5, 2.7, 3.5, "
                "random two-decimal values) / rung_increment / "
                "explicit lists (valid and invalid) / max_t; non-trivial = >= 2 levels returned; "
                "(b) event scripts on the real HyperbandScheduler(type=stopping|rush_stopping, searcher=random): grace "
                "period / reduction factor in {2,3,4,2.5} / rung increment / explicit rung list, max_t <= 81, brackets "
                "1..4 forced through scheduler.bracket_distribution, shared or per-bracket rung systems, 2..8 concurrent "
                "trials with interleaved, occasionally skipped / repeated / late / unknown-trial reports, dill round trips "
                "of the scheduler (model: restore_state), remove / "
                "complete / error calls, metric values reported as Python floats or numpy float64 / float32 / int64 / int32 scalars; "
                "plus interleaved twin experiments (two independent schedulers with >= 2 brackets alive "
                "in one process, events interleaved, same trial numbering, each against its own reference and model instance); "
                "non-trivial = a script with a decision at a rung holding >= 2 entries; "
                "distinct by content hash")
    rng = ctx.rng
    # ---------------- unit step ----------------------------------------------------------------
    if replay is None:
        qcases = [gen_quant_case(rng) for _ in range(ctx.n(1000, 10000))]
    elif replay.get("kind") == "quantile":
        qcases = [{k: v for k, v in replay.items() if k not in ("impl_quantile", "impl_order")}]
    else:
        qcases = []
    run_quant_cases(ctx, qcases)
    if replay is None:
        lcases = [gen_levels_case(rng) for _ in range(ctx.n(600, 6000))]
    elif replay.get("kind") == "levels":
        lcases = [replay]
    else:
        lcases = []
    run_levels_cases(ctx, lcases)
    if replay is None:
        mcases = [gen_maxt_case(rng) for _ in range(ctx.n(300, 3000))]
    elif replay.get("kind") == "maxt":
        mcases = [replay]
    else:
        mcases = []
    run_maxt_cases(ctx, mcases)

    # ---------------- sequences ----------------------------------------------------------------
    if replay is None:
        jobs = [("single", gen_seq_spec(rng), None) for _ in range(ctx.n(300, 5000))]
        for _ in range(ctx.n(40, 600)):
            # interleaved twin experiment: two independent schedulers (own seeds, modes, rung systems) alive at once,
            # several brackets, both numbering their trials 0, 1, 2, ...
            tw = [gen_seq_spec(rng), gen_seq_spec(rng)]
            for sp in tw:
                sp["brackets"] = max(2, sp["brackets"])
                sp["steps"] = min(sp["steps"], 90)
            tw[1]["mode"] = rng.choice(["min", "max"])
            jobs.append(("twin", tw, None))
    elif replay.get("kind") == "sequence":
        jobs = [("single", replay["spec"], replay.get("events"))]
    elif replay.get("kind") == "twin":
        jobs = [("twin", replay["specs"], replay.get("events"))]
    else:
        jobs = []
    terms, meta = [], []
    tot = dict(boundary=0, dec=0)

    def process(spec, res, case):
        ctx.count(("sequence", spec, case["kind"]), nontrivial=res["n_nontrivial"] > 0)
        ctx.h("seq_type", spec["type"])
        ctx.h("seq_max_t_via", spec.get("max_t_via", "arg"))
        ctx.h("seq_metric_dtype", spec.get("metric_dtype", "py"))
        ctx.h("seq_dill_round_trips", sum(1 for e in res["events"] if e["op"] == "restore"))
        ctx.h("seq_brackets", "%d%s" % (res["num_brackets"], "pb" if spec.get("per_bracket") else ""))
        ctx.h("seq_rf", spec.get("reduction_factor", "incr" if "rung_increment" in spec else "explicit"))
        ctx.h("seq_events", len(res["events"]) // 40 * 40)
        for e in res["events"]:
            ctx.h("seq_outcomes", e["outcome"])
        ctx.h("rung_decisions", "at_rung", res["n_rung_decisions"])
        ctx.h("rung_decisions", "with_>=2_entries", res["n_nontrivial"])
        ctx.h("rung_decisions", "Boundary", res["n_boundary"])
        tot["boundary"] += res["n_boundary"]
        tot["dec"] += res["n_nontrivial"]
        twin = " [interleaved twin experiment]" if case["kind"] == "twin" else ""
        if res["impl_max_t"] != spec["max_t"]:
            ctx.violation("property", "scheduler.max_t = %r, documented maximum resource %r (max_t argument %r, max_resource_attr %r, "
                          "constants %r)" % (res["impl_max_t"], spec["max_t"], spec.get("max_t_arg"), spec.get("max_resource_attr"),
                                             spec.get("space_consts")), case=case, signature=dict(check="max_t"))
        want_levels = U.expected_rung_levels(spec)
        if want_levels is not None and want_levels != res["levels"]:
            rf = spec.get("reduction_factor")
            ctx.violation("property", "scheduler.rung_levels = %r, documented r_min*eta^k (rounded) is %r (grace_period=%r, "
                          "reduction_factor=%r, max_t=%r)" % (res["levels"], want_levels, spec.get("grace_period"), rf, spec["max_t"]),
                          case=case, signature=dict(check="rung_levels", rf_integer=bool(rf is None or int(rf) == rf)))
        for what, defect in res["violations"][:1]:
            ctx.violation("property", what + twin, case=case,
                          signature=dict(scheduler="HyperbandScheduler", type=spec["type"], defect=defect,
                                         twin=case["kind"] == "twin"))
        terms.append(seq_term(spec, res))
        meta.append(case)

    for kind, spec, events in jobs:
        first = spec if kind == "single" else spec[0]
        raw_case = dict(kind="sequence", spec=spec, events=events) if kind == "single" else dict(kind="twin", specs=spec, events=events)
        try:
            with U.watchdog(180):
                results = [run_sequence(ctx, spec, events)] if kind == "single" else run_twin(ctx, spec, events)
        except ConstructorRaised as e:
            ctx.violation("property", "HyperbandScheduler constructor raised %s for a valid configuration (documented max resource %r, "
                          "max_t argument %r, max_resource_attr %r, constants %r)" % (e, first["max_t"], first.get("max_t_arg"),
                                                                                     first.get("max_resource_attr"), first.get("space_consts")),
                          case=raw_case,
                          signature=dict(scheduler="HyperbandScheduler", type=first["type"], defect="constructor_raises"))
            continue
        except U.Hang as e:
            ctx.violation("property", "HyperbandScheduler did not answer: %s" % e, case=raw_case,
                          signature=dict(scheduler="HyperbandScheduler", type=first["type"], defect="hang"))
            continue
        if kind == "single":
            process(spec, results[0], dict(kind="sequence", spec=spec, events=[dict(e) for e in results[0]["events"]]))
        else:
            ctx.h("twin_experiments", "pairs")
            case = dict(kind="twin", specs=spec, events=[[dict(e) for e in r["events"]] for r in results])
            for sp, r in zip(spec, results):
                process(sp, r, case)
    if terms:
        ctx.notes.append("decisions at a rung with >= 2 entries: %d, of which Boundary (|metric - cutoff| <= 8 (n+1) half-ulps * scale, n = rung size; "
                         "either answer accepted): %d" % (tot["dec"], tot["boundary"]))
        m0 = meta[0]
        if m0["kind"] == "sequence":
            ctx.sample(dict(kind="sequence", spec=m0["spec"], first_events=m0["events"][:12]))
        for i in ctx.coq_bad_cases("seq", IMPORTS, PRELUDE, "chk_seq", terms, shard=24):
            ctx.violation("correspondence", "model decisions / rung sizes differ from the real HyperbandScheduler",
                          case=meta[i], failing_input=False,
                          broken="correspondence chk_seq (model/Rung.v step / on_trial_result)")
