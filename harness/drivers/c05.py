"""C05 — correspondence of model/SyncHB.v with
syne_tune/optimizer/schedulers/synchronous/{hyperband_bracket,hyperband_bracket_manager,hyperband,hyperband_impl,
hyperband_rung_system}.py and an independent checker of the property on the implementation's job/result log.

Three kinds of cases:
  top   get_top_list(rung, new_len, mode) on random rungs (ties, NaN = failed)            vs model get_top_list
  mgr   random next_job / on_result sequences on the real SynchronousHyperbandBracketManager
        (random order in which outstanding jobs of several open brackets return, random failures = NaN,
        a few protocol violations that must be rejected)                                  vs model next_job / mgr_on_result
  sched the same through the real SynchronousGeometricHyperbandScheduler / SynchronousHyperbandScheduler
        (suggest, on_trial_add, on_trial_result, on_trial_error, on_trial_remove,
        trials_checkpoints_can_be_removed)                                                vs model suggest / on_trial_result / on_trial_error
The checker (class LogChecker) keeps its own rung tables, fed only with what next_job returned and what was
passed to / returned by on_result, and reports `property` violations."""
import datetime
import json
import logging
import math
import os

from common import q, lst, natlit, zlit, optlit, blit

IMPORTS = "From Verif Require Import model.Base model.SyncHB.\nOpen Scope Q_scope.\n"

PRELUDE = r"""
(* +-inf reported by a trial: embedded as +-2^1100, beyond every finite binary64 value *)
Definition QINF : Q := inject_Z (2 ^ 1100).
Definition tids_eqb := list_eqb tid_eqb.
Definition top_case := (mode * list (tid * mval) * nat * list tid * list tid)%type.
Definition chk_top (c : top_case) : bool :=
  let '(m, rung, k, top, rest) := c in
  let '(t', r') := get_top_list m rung k in tids_eqb t' top && tids_eqb r' rest.

Definition mval_eqb (a b : mval) : bool :=
  match a, b with NaN, NaN => true | Val x, Val y => Qeqb x y | _, _ => false end.
Definition sir_eqb (a b : slot_in_rung) : bool :=
  Nat.eqb (rung_index a) (rung_index b) && Z.eqb (level a) (level b) &&
  Nat.eqb (slot_index a) (slot_index b) && tid_eqb (trial_id a) (trial_id b) &&
  opt_eqb mval_eqb (metric_val a) (metric_val b).

(* manager events: what the implementation returned is part of the event *)
Inductive mev :=
  | MNext (bid : nat) (s : slot_in_rung)
  | MRet (bid : nat) (s : slot_in_rung) (ok : bool) (out : option (list tid)).
Fixpoint run_mev (m : mgr) (evs : list mev) : bool :=
  match evs with
  | [] => true
  | MNext bid s :: r =>
      match next_job m with
      | Ok (m', (bid', s')) => Nat.eqb bid bid' && sir_eqb s s' && run_mev m' r
      | Error _ => false
      end
  | MRet bid s ok out :: r =>
      match mgr_on_result m bid s with
      | Ok (m', out') => ok && opt_eqb tids_eqb out out' && run_mev m' r
      | Error _ => negb ok && run_mev m r
      end
  end.
Definition mgr_case := (list rung_system * mode * list mev)%type.
Definition chk_mgr (c : mgr_case) : bool :=
  let '(rss, md, evs) := c in
  match mgr_init rss md with Ok m => run_mev m evs | Error _ => false end.

(* DEHB bracket manager events *)
Inductive dev :=
  | DMNext (bid : nat) (s : slot_in_rung)
  | DMRet (bid : nat) (s : slot_in_rung) (ok : bool) (out : option (list tid))
  | DMSize (bid : nat) (n : nat)
  | DMTop (bid pos : nat) (t : tid)
  | DMParent (bid : nat) (lv : Z) (si : nat) (t : tid)
  | DMParentErr (bid : nat) (lv : Z) (si : nat).
(* the model is run with its own top-list cache (top_of_previous_rung_cached), as the implementation *)
Fixpoint run_dev (m : mgr) (c : tcache) (evs : list dev) : bool :=
  match evs with
  | [] => true
  | DMNext bid s :: r =>
      match dehb_next_job m with
      | Ok (m', (bid', s')) => Nat.eqb bid bid' && sir_eqb s s' && run_dev m' c r
      | Error _ => false
      end
  | DMRet bid s ok out :: r =>
      match dehb_mgr_on_result m bid s with
      | Ok (m', out') => ok && opt_eqb tids_eqb out out' && run_dev m' c r
      | Error _ => negb ok && run_dev m c r
      end
  | DMSize bid n :: r =>
      match mgr_size_of_current_rung m bid with Ok n' => Nat.eqb n n' && run_dev m c r | Error _ => false end
  | DMTop bid pos t :: r =>
      match top_of_previous_rung_cached m c bid pos with
      | (c', Ok t') => tid_eqb t t' && run_dev m c' r
      | (_, Error _) => false
      end
  | DMParent bid lv si t :: r =>
      match trial_id_from_parent_slot m bid lv si with Ok t' => tid_eqb t t' && run_dev m c r | Error _ => false end
  | DMParentErr bid lv si :: r =>
      match trial_id_from_parent_slot m bid lv si with Ok _ => false | Error _ => run_dev m c r end
  end.
Definition dmgr_case := (rung_system * mode * option nat * list dev)%type.
Definition chk_dmgr (c : dmgr_case) : bool :=
  let '(first, md, nb, evs) := c in
  match dehb_mgr_init first md nb with Ok m => run_dev m [] evs | Error _ => false end.

(* scheduler events *)
Definition sug_eqb (a b : suggestion) : bool :=
  match a, b with
  | SStart x, SStart y => Z.eqb x y | SResume x, SResume y => Z.eqb x y | SNone, SNone => true
  | _, _ => false end.
Definition dec_eqb (a b : decision) : bool :=
  match a, b with CONTINUE, CONTINUE => true | PAUSE, PAUSE => true | STOP, STOP => true | _, _ => false end.
(* the hyperparameter part of a config is the value of "x" (a rational); cfg = what the suggestion of the
   implementation carried: (x, value under max_resource_attr) *)
Definition cfgQ := (Q * option Z)%type.
Definition cfg_eqb (a b : cfgQ) : bool := Qeqb (fst a) (fst b) && opt_eqb Z.eqb (snd a) (snd b).
Inductive sev :=
  | SSuggest (cfg_ok : bool) (out : suggestion) (bid : nat) (s : slot_in_rung) (cfg : option cfgQ)
  | SResult (t : Z) (resource : Z) (v : mval) (ok : bool) (d : decision) (to_searcher : bool)
  | SPrev (bid : nat) (lv : Z) (prev : Z)
  | SErr (t : Z) (ok : bool)
  | SCollect (l : list tid).
Fixpoint run_sev (st : shell) (cfgs : list (Z * cfgQ)) (evs : list sev) : bool :=
  match evs with
  | [] => true
  | SSuggest cfg_ok out bid s cfg :: r =>
      (* what the searcher delivered: the hyperparameters of the suggested config (for a new trial) *)
      let nc := if cfg_ok then match cfg with Some c => Some (fst c, None) | None => None end else None in
      match next_job (s_mgr st), suggest_cfg Q true (st, cfgs) nc with
      | Ok (_, (bid', s')), Ok ((st', cfgs'), res) =>
          Nat.eqb bid bid' && sir_eqb s s' &&
          match res, cfg with
          | Some (out', c'), Some c => sug_eqb out out' && cfg_eqb c c'
          | None, None => sug_eqb out SNone
          | _, _ => false
          end && run_sev st' cfgs' r
      | _, _ => false
      end
  | SResult t res v ok d ts :: r =>
      match on_trial_result st t res v with
      | Ok (st', d', ts') => ok && dec_eqb d d' && Bool.eqb ts ts' && run_sev st' cfgs r
      | Error _ => negb ok && run_sev st cfgs r
      end
  | SPrev bid lv prev :: r =>
      match level_to_prev_level (s_mgr st) bid lv with
      | Ok p => Z.eqb p prev && run_sev st cfgs r
      | Error _ => false
      end
  | SErr t ok :: r =>
      match on_trial_error st t with
      | Ok st' => ok && run_sev st' cfgs r
      | Error _ => negb ok && run_sev st cfgs r
      end
  | SCollect l :: r =>
      let '(st', l') := checkpoints_can_be_removed st in tids_eqb l l' && run_sev st' cfgs r
  end.
Definition sched_case := (list rung_system * mode * list sev)%type.
Definition chk_sched (c : sched_case) : bool :=
  let '(rss, md, evs) := c in
  match shell_init rss md with Ok st => run_sev st [] evs | Error _ => false end.
"""



def coq_bad(ctx, tag, check_fn, cases, **kw):
    """ctx.coq_bad_cases with a per-process tag (two checks of C05 may run at the same time, e.g. one
    against a scratch tree) and removal of the generated files afterwards."""
    import glob
    import common
    utag = "%s_p%d" % (tag, os.getpid())
    try:
        return ctx.coq_bad_cases(utag, IMPORTS, PRELUDE, check_fn, cases, **kw)
    finally:
        for f in glob.glob(os.path.join(common.BUILD, "cases", "%s_%s_*" % (ctx.prop, utag))) + \
                glob.glob(os.path.join(common.BUILD, "cases", ".%s_%s_*" % (ctx.prop, utag))):
            try:
                os.remove(f)
            except OSError:
                pass


# ------------------------------------------------------------------ literals
def isnan(x):
    return isinstance(x, float) and math.isnan(x)


def mval(x):
    """metric literal of the model: NaN = failed; +-inf, which a trial may REPORT, are valid extreme values: the
    model's metrics are rationals, and +-inf are embedded order-preservingly as +-QINF = +-2^1100, beyond every
    finite float (|x| < 2^1024), so all comparisons <, <=, == among reported values are the same"""
    if isnan(x):
        return "NaN"
    if isinstance(x, float) and math.isinf(x):
        return "(Val QINF)" if x > 0 else "(Val (- QINF))"
    return "(Val %s)" % q(float(x))


def tidlit(t):
    return optlit(t, zlit)


def tidlist(l):
    return lst([tidlit(t) for t in l])


def sirlit(s):
    """s: dict rung_index, level, slot_index, trial_id, metric_val"""
    return "(mkSIR %s %s %s %s %s)" % (natlit(s["rung_index"]), zlit(s["level"]), natlit(s["slot_index"]),
                                         tidlit(s["trial_id"]), optlit(s["metric_val"], mval))


def rsslit(rss):
    return lst([lst(["(%s, %s)" % (natlit(sz), zlit(lv)) for sz, lv in rs]) for rs in rss])


def modelit(mode):
    return "Max" if mode == "max" else "Min"


def sir_dict(s):
    mv = s.metric_val
    return dict(rung_index=int(s.rung_index), level=int(s.level), slot_index=int(s.slot_index),
                trial_id=None if s.trial_id is None else int(s.trial_id),
                metric_val=None if mv is None else float(mv))


def jnum(x):
    """JSON-able metric (NaN -> 'nan', +-inf -> 'inf' / '-inf')"""
    if isnan(x):
        return "nan"
    if isinstance(x, float) and math.isinf(x):
        return "inf" if x > 0 else "-inf"
    return x


def unj(x):
    return float(x) if x in ("nan", "inf", "-inf") else x


# ------------------------------------------------------------------ independent checker
def better(mode, a, b):
    """a strictly better than b"""
    return a < b if mode == "min" else a > b


def check_best_k(mode, rung, promoted, not_promoted, new_len):
    """rung: list of (trial, metric). Returns None or a description of what is wrong."""
    ids = [t for t, _ in rung]
    if sorted(promoted + not_promoted) != sorted(ids):
        return "promoted + not promoted is not a partition of the rung: %s + %s vs %s" % (promoted, not_promoted, ids)
    if len(promoted) != new_len:
        return "%d trials promoted, next rung has %d slots" % (len(promoted), new_len)
    val = dict(rung)
    pv = [val[t] for t in promoted if not isnan(val[t])]
    nv = [val[t] for t in not_promoted if not isnan(val[t])]
    for a in nv:
        for b in pv:
            if better(mode, a, b):
                return "non-promoted trial with metric %r is better than promoted one with %r (mode %s)" % (a, b, mode)
    if len(pv) < len(promoted) and nv:
        return "a failed trial is promoted while a valid one (metric %r) is not" % (nv[0],)
    return None


class LogChecker:
    """Tracks every bracket's rungs from the implementation's job / result log only."""

    def __init__(self, rss, mode, dehb=False):
        self.rss, self.mode = [list(map(tuple, rs)) for rs in rss], mode
        # dehb: DEHB brackets do not promote by themselves (slots of higher rungs carry no trial id,
        # on_result returns [] at rung completion); the top list is asked for separately
        self.dehb = dehb
        # what the HARNESS knows about a job (bracket, rung, slot): the value it reported itself, or NaN if
        # it made the job fail (on_trial_error / searcher without config). Used instead of whatever value
        # the implementation recorded, so "failed ranks last" is judged on real failures.
        self.truth = {}
        self.brackets = []   # per bracket: dict(sys, rungs: {k: {pos: [trial, metric|None]}}, cur, promoted: {k: set})
        self.problems = []
        self.stats = dict(rungs_completed=0, promotions=0, max_open=0, new_brackets=0, failed_promoted=0)

    def bad(self, msg, defect):
        self.problems.append((msg, defect))

    def _open(self):
        return [i for i, b in enumerate(self.brackets) if b["cur"] < len(b["sys"])]

    def _has_free(self, b):
        return b["cur"] < len(b["sys"]) and len(b["rungs"].get(b["cur"], {})) < b["sys"][b["cur"]][0]

    def on_next_job(self, bid, s):
        open_before = self._open()
        if bid == len(self.brackets):
            # a new bracket: allowed only if no open bracket has a free slot; offsets cycle
            free = [i for i in open_before if self._has_free(self.brackets[i])]
            if free and self.brackets:
                self.bad("bracket %d opened although open bracket(s) %s have a free slot" % (bid, free), "new_bracket_with_free_slot")
            self.brackets.append(dict(sys=self.rss[bid % len(self.rss)], rungs={}, cur=0, promoted={}))
            self.stats["new_brackets"] += 1
        elif not (0 <= bid < len(self.brackets)):
            self.bad("job for bracket %d, but %d brackets exist (ids must be consecutive)" % (bid, len(self.brackets)), "bracket_id_gap")
            return
        b = self.brackets[bid]
        k, pos = s["rung_index"], s["slot_index"]
        if k != b["cur"] or k >= len(b["sys"]):
            self.bad("bracket %d: slot of rung %d handed out while rung %d is the lowest incomplete rung" % (bid, k, b["cur"]),
                     "slot_of_wrong_rung")
            return
        size, lv = b["sys"][k]
        if s["level"] != lv:
            self.bad("bracket %d (offset %d) rung %d: level %s, configured %s" % (bid, bid % len(self.rss), k, s["level"], lv),
                     "wrong_level_or_offset")
        rung = b["rungs"].setdefault(k, {})
        if pos in rung or not (0 <= pos < size):
            self.bad("bracket %d rung %d: slot %d handed out twice or outside the rung of size %d" % (bid, k, pos, size),
                     "slot_handed_twice")
            return
        rung[pos] = [s["trial_id"], None]
        if k == 0 or self.dehb:
            if s["trial_id"] is not None:
                self.bad("bracket %d rung %d slot %d: trial id %s pre-assigned" % (bid, k, pos, s["trial_id"]), "rung0_preassigned")
        else:
            prev = {v[0]: v[1] for v in b["rungs"].get(k - 1, {}).values()}
            nvalid = sum(1 for v in prev.values() if v is not None and not isnan(v))
            if s["trial_id"] in prev and prev[s["trial_id"]] is not None and isnan(prev[s["trial_id"]]) and nvalid >= size:
                self.bad("bracket %d: failed trial %s is resumed to rung %d (%d slots) although %d trials of rung %d "
                         "have valid results" % (bid, s["trial_id"], k, size, nvalid, k - 1), "failed_trial_resumed")
            prom = b["promoted"].get(k)
            if prom is None or s["trial_id"] not in prom:
                self.bad("bracket %d rung %d: trial %s resumed but it is not among the promoted trials %s" % (
                    bid, k, s["trial_id"], prom), "resumed_not_promoted")
            others = [v[0] for p, v in rung.items() if p != pos]
            if s["trial_id"] is not None and s["trial_id"] in others:
                self.bad("bracket %d rung %d: trial %s resumed twice" % (bid, k, s["trial_id"]), "resumed_twice")
        self.stats["max_open"] = max(self.stats["max_open"], len(self._open()))

    def on_result(self, bid, s, ret):
        """accepted result (on_result returned [ret])"""
        if not (0 <= bid < len(self.brackets)):
            self.bad("result accepted for unknown bracket %d" % bid, "result_unknown_bracket")
            return
        b = self.brackets[bid]
        k, pos = s["rung_index"], s["slot_index"]
        rung = b["rungs"].get(k, {})
        if k != b["cur"] or pos not in rung or rung[pos][1] is not None:
            self.bad("bracket %d: result accepted for rung %d slot %d which is not a pending slot" % (bid, k, pos),
                     "result_for_non_pending_slot")
            return
        rung[pos] = [s["trial_id"], self.truth.get((bid, k, pos), s["metric_val"])]
        size = b["sys"][k][0]
        complete = len(rung) == size and all(v[1] is not None for v in rung.values())
        if not complete:
            if ret is not None:
                self.bad("bracket %d rung %d: promotion triggered before the rung is complete" % (bid, k), "promotion_before_complete")
            return
        self.stats["rungs_completed"] += 1
        ids = [v[0] for v in rung.values()]
        real = [t for t in ids if t is not None]
        if len(set(real)) != len(real) and not self.dehb:
            # (DEHB records the WINNER of its selection step in the slot; the same trial can win in
            # several slots by design, so distinctness is not demanded there)
            self.bad("bracket %d rung %d filled by non-distinct trials %s" % (bid, k, ids), "rung_not_distinct")
        b["cur"] = k + 1
        if k + 1 >= len(b["sys"]):
            if ret is not None:
                self.bad("bracket %d: promotion out of the last rung" % bid, "promotion_from_last_rung")
            return
        if ret is None:
            self.bad("bracket %d rung %d complete but no promotion happened" % (bid, k), "no_promotion_at_complete")
            return
        self.stats["promotions"] += 1
        new_len = b["sys"][k + 1][0]
        if self.dehb:
            if ret != []:
                self.bad("DEHB bracket %d rung %d: on_result returned %s at rung completion" % (bid, k, ret), "dehb_promotes")
            return
        if None in ids or len(set(ids)) != len(ids):
            # searcher failed to deliver a config for some slot: outside the property's quantifier
            b["promoted"][k + 1] = set(ids)
            return
        not_promoted = [int(t) for t in ret]
        promoted = [t for t in ids if t not in set(not_promoted)]
        b["promoted"][k + 1] = set(promoted)
        entries = [(v[0], v[1]) for v in rung.values()]
        msg = check_best_k(self.mode, entries, promoted, not_promoted, new_len)
        if msg:
            self.bad("bracket %d rung %d -> %d: %s" % (bid, k, k + 1, msg), "promoted_not_best")
        if any(isnan(dict(entries)[t]) for t in promoted):
            self.stats["failed_promoted"] += 1

    def check_top_list(self, bid, k, top):
        """DEHB: [top] = manager.top_of_previous_rung(bid, 0..size-1) right after rung k of bracket bid completed"""
        b = self.brackets[bid]
        entries = [(v[0], v[1]) for v in b["rungs"][k].values()]
        ids = [t for t, _ in entries]
        if None in ids or len(set(ids)) != len(ids):
            return
        msg = check_best_k(self.mode, entries, list(top), [t for t in ids if t not in set(top)], b["sys"][k + 1][0])
        if msg:
            self.bad("DEHB bracket %d rung %d top list: %s" % (bid, k, msg), "promoted_not_best")

    def expected_parent(self, bid, level, pos):
        """documented contract of trial_id_from_parent_slot: same slot index and rung level in the largest
        bracket < bid whose slot has a trial id; None if there is none"""
        for j in range(bid - 1, -1, -1):
            b = self.brackets[j]
            for k, (size, lv) in enumerate(b["sys"]):
                if lv == level and pos in b["rungs"].get(k, {}) and b["rungs"][k][pos][0] is not None:
                    return b["rungs"][k][pos][0]
        return None

    def pending_slots(self):
        res = set()
        for bid, b in enumerate(self.brackets):
            for k, rung in b["rungs"].items():
                for pos, v in rung.items():
                    if v[1] is None:
                        res.add((bid, k, pos))
        return res


# ------------------------------------------------------------------ generators
def gen_rung_systems(rng):
    """returns (description, rss) — geometric via the implementation, or custom"""
    from syne_tune.optimizer.schedulers.synchronous.hyperband_rung_system import SynchronousHyperbandRungSystem
    if rng.random() < 0.55:
        mn = rng.choice([1, 1, 1, 2, 3])
        mx = rng.choice([3, 4, 8, 9, 10, 16, 27])
        if mx <= mn:
            mx = mn + rng.randint(1, 5)
        rf = rng.choice([2, 2, 3, 3, 4, 2.5, 3.5])
        nb = rng.choice([None, None, 1, 2, 3])
        desc = dict(kind="geometric", min_resource=mn, max_resource=mx, reduction_factor=rf, num_brackets=nb)
        rss = SynchronousHyperbandRungSystem.geometric(mn, mx, rf, nb)
        rss = [[(int(a), int(b)) for a, b in rs] for rs in rss]
        return desc, rss
    depth = rng.randint(1, 4)
    nb = rng.randint(1, depth)
    levels = sorted(rng.sample(range(1, 30), depth))
    nested = rng.random() < 0.5
    rss = []
    for off in range(nb):
        n = depth - off
        sizes = sorted(rng.sample(range(1, 9), n), reverse=True) if n <= 8 else list(range(n, 0, -1))
        if nested or off == 0:
            lv = levels[off:]
        else:
            # a later bracket with rung levels of its own (only the largest one is shared): the constructor
            # asks for increasing levels per bracket, not for levels taken from the first bracket
            lv = sorted(rng.sample(range(1, levels[-1]), n - 1)) + [levels[-1]] if levels[-1] > n - 1 else levels[off:]
        rss.append([(sizes[i], lv[i]) for i in range(n)])
    return dict(kind="custom" if nested else "custom_own_levels"), rss


def rss_valid(rss):
    try:
        from syne_tune.optimizer.schedulers.synchronous.hyperband_bracket_manager import SynchronousHyperbandBracketManager
        SynchronousHyperbandBracketManager(rss, "min")
        return True
    except AssertionError:
        return False


def gen_metric(rng, style):
    if rng.random() < 0.06:
        # a diverged training run REPORTS an infinite metric at its rung level: a valid result, the best or the
        # worst of the rung depending on the mode — not a failure (failures are NaN)
        return float("inf") if rng.random() < 0.5 else float("-inf")
    if style == "grid":
        return float(rng.randint(0, 3))
    if style == "grid_fine":
        return rng.randint(-4, 4) * 0.25
    return rng.uniform(-2, 2)


# ------------------------------------------------------------------ get_top_list
def run_top(ctx, replay):
    from syne_tune.optimizer.schedulers.synchronous.hyperband_bracket import get_top_list
    rng = ctx.rng
    specs = []
    if replay and replay.get("kind") == "top":
        specs = [replay["spec"]]
    elif not replay:
        for _ in range(ctx.n(500, 8000)):
            n = rng.choice([1, 2, 3, 4, 5, 6, 8, 12, rng.randint(1, 20)])
            style = rng.choice(["grid", "grid", "grid_fine", "float"])
            pfail = rng.choice([0.0, 0.2, 0.5, 0.9, 1.0])
            ids = rng.sample(range(0, 60), n)
            rung = [[t, jnum(float("nan") if rng.random() < pfail else gen_metric(rng, style))] for t in ids]
            specs.append(dict(rung=rung, new_len=rng.randint(0, n), mode=rng.choice(["min", "max"])))
    cases, meta = [], []
    for sp in specs:
        rung = [(t, unj(v)) for t, v in sp["rung"]]
        top, rest = get_top_list(rung=list(rung), new_len=sp["new_len"], mode=sp["mode"])
        top, rest = [int(t) for t in top], [int(t) for t in rest]
        vals = [v for _, v in rung if not isnan(v)]
        nfail = len(rung) - len(vals)
        ctx.count(("top", sp), nontrivial=(len(set(vals)) < len(vals) or nfail > 0) and 0 < sp["new_len"] < len(rung))
        ctx.h("top_failed", "none" if nfail == 0 else ("all" if not vals else "some"))
        ctx.h("top_fill", "enough_valid" if len(vals) >= sp["new_len"] else "failed_promoted")
        msg = check_best_k(sp["mode"], rung, top, rest, sp["new_len"])
        if msg:
            ctx.violation("property", "get_top_list: " + msg, case=dict(kind="top", spec=sp),
                          signature=dict(component="get_top_list", defect="promoted_not_best"))
        cases.append("(%s, %s, %s, %s, %s)" % (
            modelit(sp["mode"]), lst(["(%s, %s)" % (tidlit(t), mval(v)) for t, v in rung]), natlit(sp["new_len"]),
            tidlist(top), tidlist(rest)))
        meta.append(dict(kind="top", spec=sp, impl=[top, rest]))
    if cases:
        ctx.sample(dict(kind="get_top_list", spec=meta[0]["spec"], impl_top_rest=meta[0]["impl"]))
        for i in coq_bad(ctx, "top", "chk_top", cases):
            ctx.violation("correspondence", "model get_top_list differs from implementation", case=meta[i],
                          failing_input=False, broken="correspondence chk_top (model/SyncHB.v get_top_list)")


# ------------------------------------------------------------------ geometric rung systems
GEOM_SIG = dict(component="SynchronousHyperbandRungSystem.geometric", defect="duplicate_last_rung_level")


def rung_system_problem(rss):
    """what SynchronousHyperbandBracketManager documents about bracket_rungs; None if fine"""
    if not rss or not rss[0]:
        return "empty"
    for off, rs in enumerate(rss):
        if len(rs) != len(rss[0]) - off:
            return "bracket %d has %d rungs, expected %d" % (off, len(rs), len(rss[0]) - off)
        sizes, levels = [x[0] for x in rs], [x[1] for x in rs]
        if any(int(x) != x or x < 1 for x in sizes + levels):
            return "bracket %d: sizes/levels not positive integers" % off
        if any(a >= b for a, b in zip(levels, levels[1:])):
            return "bracket %d: rung levels %s are not strictly increasing" % (off, levels)
        if any(a <= b for a, b in zip(sizes, sizes[1:])):
            return "bracket %d: rung sizes %s are not strictly decreasing" % (off, sizes)
    return None


def run_geom(ctx, replay):
    """The public factory for geometric rung systems must produce, for legal arguments, a system that the
    bracket manager / scheduler constructors accept (C05 quantifies over geometric and custom systems)."""
    from syne_tune.optimizer.schedulers.synchronous.hyperband_rung_system import SynchronousHyperbandRungSystem
    from syne_tune.optimizer.schedulers.synchronous.hyperband_bracket_manager import SynchronousHyperbandBracketManager
    rng = ctx.rng
    if replay and replay.get("kind") == "geom":
        specs = [replay["spec"]]
    elif replay:
        return
    else:
        specs = []
        for _ in range(ctx.n(300, 5000)):
            mn = rng.choice([1, 1, 1, 2, 3, 5])
            specs.append(dict(min_resource=mn, max_resource=mn + rng.randint(1, 80),
                              reduction_factor=rng.choice([2, 3, 4, 2.5, 3.5, 2.2, 2.4, 3.3, 4.7, 2 + rng.random() * 3]),
                              num_brackets=rng.choice([None, None, 1, 2, 3])))
    for sp in specs:
        rss = SynchronousHyperbandRungSystem.geometric(sp["min_resource"], sp["max_resource"], sp["reduction_factor"],
                                                       sp["num_brackets"])
        rss = [[(x[0], x[1]) for x in rs] for rs in rss]
        prob = rung_system_problem(rss)
        try:
            SynchronousHyperbandBracketManager(rss, "min")
            rejected = None
        except AssertionError as e:
            rejected = str(e)[:200]
        ctx.count(("geom", sp), nontrivial=int(sp["reduction_factor"]) != sp["reduction_factor"] and len(rss[0]) >= 3)
        ctx.h("geom", "accepted" if rejected is None else "rejected")
        if prob is not None or rejected is not None:
            lv = [x[1] for x in rss[0]]
            dup_last = len(lv) >= 2 and lv[-1] == lv[-2]
            ctx.violation("property", "SynchronousHyperbandRungSystem.geometric(%s, %s, %s, %s) returns %s: %s; "
                          "SynchronousHyperbandBracketManager / SynchronousGeometricHyperbandScheduler %s" % (
                              sp["min_resource"], sp["max_resource"], sp["reduction_factor"], sp["num_brackets"], rss[0],
                              prob, "raise AssertionError: " + rejected if rejected else "accept it"),
                          case=dict(kind="geom", spec=sp),
                          signature=GEOM_SIG if dup_last else dict(GEOM_SIG, defect="invalid_rung_system"))


def clobber_caller_list(arg):
    """The caller keeps its own rung-system list after handing it to a manager / scheduler and may re-use it:
    overwrite it IN PLACE (sizes, levels, number of rungs, number of brackets). Whoever still reads the caller's
    object afterwards no longer sees the configured system; checker and model use a private copy."""
    def clobber_system(rs):
        for j in range(len(rs)):
            sz, lv = rs[j]
            rs[j] = (int(sz) + 2 + j, int(lv) + 100 + j)
        if len(rs) > 1:
            rs.pop()
        else:
            rs.append((1, 10 ** 6))
    if arg and isinstance(arg[0], list):
        for rs in arg:
            clobber_system(rs)
        arg.append([(3, 7)])
    else:
        clobber_system(arg)


# ------------------------------------------------------------------ manager sequences
def gen_mgr_spec(rng):
    for _ in range(50):
        desc, rss = gen_rung_systems(rng)
        if rss_valid(rss):
            break
    sp = dict(rss_desc=desc, rss=rss, mode=rng.choice(["min", "max"]), workers=rng.choice([1, 2, 3, 4, 6, 9, 14]),
              style=rng.choice(["grid", "grid", "grid_fine", "float"]), pfail=rng.choice([0.0, 0.1, 0.3, 0.6]),
              pbogus=rng.choice([0.0, 0.0, 0.05]), steps=rng.randint(10, 90), seed=rng.randrange(1 << 30),
              policy=rng.choice(["random", "lifo", "fifo", "newest_bracket_first"]))
    if rng.random() < 0.2:
        # DEHB's bracket manager (dehb_bracket_manager.py) through the same next_job / on_result interface:
        # all brackets are suffixes of the first rung system; checked by the log checker only (not modelled)
        sp["dehb"] = dict(num_brackets=rng.choice([None, rng.randint(1, len(rss[0]))]))
    return sp


def run_mgr(ctx, replay):
    import random as _random
    from syne_tune.optimizer.schedulers.synchronous.hyperband_bracket_manager import SynchronousHyperbandBracketManager
    from syne_tune.optimizer.schedulers.synchronous.hyperband_bracket import SlotInRung
    if replay and replay.get("kind") == "mgr":
        specs = [replay["spec"]]
    elif replay:
        return
    else:
        specs = [gen_mgr_spec(ctx.rng) for _ in range(ctx.n(140, 2500))]
    cases, meta, dcases, dmeta = [], [], [], []
    for sp in specs:
        rng = _random.Random(sp["seed"])
        rss = [[tuple(x) for x in rs] for rs in sp["rss"]]
        dehb = sp.get("dehb")
        if dehb:
            from syne_tune.optimizer.schedulers.synchronous.dehb_bracket_manager import (
                DifferentialEvolutionHyperbandBracketManager)
            arg = list(rss[0])                                  # the caller's own list object
            mgr = DifferentialEvolutionHyperbandBracketManager(arg, sp["mode"], dehb["num_brackets"])
            clobber_caller_list(arg)
            nbo = dehb["num_brackets"] or len(rss[0])
            rss = [list(rss[0][off:]) for off in range(nbo)]    # reference configuration: suffixes of the first bracket
            chk = LogChecker(rss, sp["mode"], dehb=True)
        else:
            arg = [list(rs) for rs in rss]                      # the caller's own nested list
            mgr = SynchronousHyperbandBracketManager(arg, sp["mode"])
            clobber_caller_list(arg)
            chk = LogChecker(rss, sp["mode"])
        outstanding, done_jobs, evs, log = [], [], [], []
        reported = set()
        first_rs = [tuple(x) for x in sp["rss"][0]]
        NEXT, RET = ("DMNext", "DMRet") if dehb else ("MNext", "MRet")
        next_tid = 0
        nfail = 0
        blocked = None
        for _ in range(sp["steps"]):
            r = rng.random()
            if r < sp["pbogus"] and (done_jobs or outstanding):
                # protocol violation: must be rejected (assertion) and leave the state unchanged
                kind = rng.choice(["again", "rung", "level", "bracket", "slot", "nometric"])
                if kind == "again":
                    if not done_jobs:
                        continue
                    bid, s = rng.choice(done_jobs)      # a job that was already answered
                    s = dict(s)
                else:
                    bid, s = rng.choice(outstanding or done_jobs)
                    s = dict(s, metric_val=1.0)
                    if kind == "rung":
                        s["rung_index"] += 1
                    elif kind == "level":
                        s["level"] += 1
                    elif kind == "bracket":
                        bid = bid + 7
                    elif kind == "slot":
                        s["slot_index"] += 40
                    else:
                        s["metric_val"] = None
                try:
                    ret = mgr.on_result((bid, SlotInRung(**s)))
                    ok = True
                except (AssertionError, IndexError, KeyError, TypeError):
                    ok, ret = False, None
                if ok:
                    # accepted: then it must have been a legal result after all; feed the checker
                    chk.on_result(bid, s, ret)
                    outstanding = [j for j in outstanding if not (j[0] == bid and j[1]["rung_index"] == s["rung_index"]
                                                                  and j[1]["slot_index"] == s["slot_index"])]
                evs.append(RET + " %s %s %s %s" % (natlit(bid), sirlit(s), blit(ok),
                                                 optlit(None if ret is None else [int(t) for t in ret], tidlist)))
                log.append(["bogus_" + kind, bid, dict(s, metric_val=jnum(s["metric_val"])), ok])
                continue
            want_next = len(outstanding) < sp["workers"] and (not outstanding or rng.random() < 0.6)
            if want_next:
                try:
                    bid, slot = mgr.next_job()
                except Exception as e:  # a request for work must never fail
                    blocked = "next_job raised %s: %s" % (type(e).__name__, e)
                    break
                if slot is None:
                    blocked = "next_job returned no job"
                    break
                s = sir_dict(slot)
                chk.on_next_job(int(bid), s)
                evs.append(NEXT + " %s %s" % (natlit(bid), sirlit(s)))
                log.append(["next", int(bid), dict(s)])
                if dehb:
                    # what dehb.py asks the manager when it prepares this job
                    try:
                        sz = int(mgr.size_of_current_rung(bid))
                    except Exception as e:
                        blocked = "DEHB size_of_current_rung raised %s: %s" % (type(e).__name__, e)
                        break
                    evs.append("DMSize %s %s" % (natlit(bid), natlit(sz)))
                    want = chk.expected_parent(bid, s["level"], s["slot_index"])
                    nbo = len(rss)
                    psig = dict(component="DifferentialEvolutionHyperbandBracketManager.trial_id_from_parent_slot",
                                # fewer brackets per iteration than rung levels: offset-0 brackets have rungs whose
                                # stored bracket delta is <= 0 (directly, or further down the chain of parents)
                                defect="parent_rung_bracket_delta_not_positive"
                                if nbo < len(rss[0]) else "parent_slot_wrong")
                    try:
                        par = mgr.trial_id_from_parent_slot(bid, s["level"], s["slot_index"])
                        par = None if par is None else int(par)
                        evs.append("DMParent %s %s %s %s" % (natlit(bid), zlit(s["level"]), natlit(s["slot_index"]), tidlit(par)))
                        if par != want and "parent" not in reported:
                            reported.add("parent")
                            ctx.violation("property", "DEHB bracket manager (%d brackets per iteration, %d rung levels): "
                                          "trial_id_from_parent_slot(bracket %d, level %s, slot %d) = %s, but the slot with that "
                                          "index and rung level in the closest earlier bracket holds trial %s" % (
                                              nbo, len(rss[0]), bid, s["level"], s["slot_index"], par, want),
                                          case=dict(kind="mgr", spec=sp), signature=psig)
                    except (IndexError, KeyError, AssertionError) as e:
                        evs.append("DMParentErr %s %s %s" % (natlit(bid), zlit(s["level"]), natlit(s["slot_index"])))
                        if "parent" not in reported:
                            reported.add("parent")
                            ctx.violation("property", "DEHB bracket manager (%d brackets per iteration, %d rung levels): "
                                          "trial_id_from_parent_slot(bracket %d, level %s, slot %d) raises %s: %s — preparing "
                                          "the job fails, the request for work is not answered" % (
                                              nbo, len(rss[0]), bid, s["level"], s["slot_index"], type(e).__name__, e),
                                          case=dict(kind="mgr", spec=sp), signature=psig)
                    if sz != rss[bid % len(rss)][s["rung_index"]][0]:
                        chk.bad("DEHB size_of_current_rung(%d) = %d, configured %d" % (
                            bid, sz, rss[bid % len(rss)][s["rung_index"]][0]), "wrong_rung_size")
                if s["trial_id"] is None:
                    s["trial_id"] = next_tid
                    next_tid += 1
                outstanding.append((int(bid), s))
            else:
                if sp["policy"] == "random":
                    j = rng.randrange(len(outstanding))
                elif sp["policy"] == "lifo":
                    j = len(outstanding) - 1
                elif sp["policy"] == "fifo":
                    j = 0
                else:
                    mb = max(b for b, _ in outstanding)
                    j = rng.choice([i for i, (b, _) in enumerate(outstanding) if b == mb])
                bid, s = outstanding.pop(j)
                fail = rng.random() < sp["pfail"]
                nfail += fail
                s = dict(s, metric_val=float("nan") if fail else gen_metric(rng, sp["style"]))
                if fail and dehb and rng.random() < 0.6:
                    s["trial_id"] = None        # the way dehb.py reports a failed job (_report_as_failed)
                try:
                    ret = mgr.on_result((bid, SlotInRung(**s)))
                except Exception as e:
                    blocked = "on_result of an outstanding job raised %s: %s" % (type(e).__name__, e)
                    break
                ret = None if ret is None else [None if t is None else int(t) for t in ret]
                chk.on_result(bid, s, ret)
                if dehb and ret is not None and s["rung_index"] + 1 < len(rss[bid % len(rss)]):
                    # DEHB asks the manager for the best entries of the rung just completed
                    try:
                        top = [mgr.top_of_previous_rung(bid, p) for p in range(rss[bid % len(rss)][s["rung_index"] + 1][0])]
                        top = [None if t is None else int(t) for t in top]
                    except Exception as e:
                        blocked = "top_of_previous_rung raised %s: %s" % (type(e).__name__, e)
                        break
                    chk.check_top_list(bid, s["rung_index"], top)
                    ctx.h("dehb_top_list", "contains_failed_job_without_trial" if None in top else "all_trials")
                done_jobs.append((bid, s))
                evs.append(RET + " %s %s true %s" % (natlit(bid), sirlit(s), optlit(ret, tidlist)))
                if dehb and ret is not None and s["rung_index"] + 1 < len(rss[bid % len(rss)]):
                    for p_, t_ in enumerate(top):
                        evs.append("DMTop %s %s %s" % (natlit(bid), natlit(p_), tidlit(t_)))
                if dehb and rng.random() < 0.4:
                    # ask again later, for any bracket above its base rung (answered from the manager's cache)
                    cand = [j for j, b_ in enumerate(chk.brackets) if 0 < b_["cur"] < len(b_["sys"])]
                    if cand:
                        j = rng.choice(cand)
                        p_ = rng.randrange(chk.brackets[j]["sys"][chk.brackets[j]["cur"]][0])
                        try:
                            t_ = mgr.top_of_previous_rung(j, p_)
                        except Exception as e:
                            blocked = "top_of_previous_rung raised %s: %s" % (type(e).__name__, e)
                            break
                        t_ = None if t_ is None else int(t_)
                        evs.append("DMTop %s %s %s" % (natlit(j), natlit(p_), tidlit(t_)))
                        ctx.h("dehb_top_requery", "asked")
                        # the answer must still be an entry of a best-k set of the rung below, by the checker's own table
                        kprev = chk.brackets[j]["cur"] - 1
                        entries = [(v_[0], v_[1]) for v_ in chk.brackets[j]["rungs"][kprev].values()]
                        ids_ = [x for x, _ in entries]
                        if None not in ids_ and len(set(ids_)) == len(ids_) and t_ in ids_:
                            valid_ = [v_ for x, v_ in entries if not isnan(v_)]
                            mine = dict(entries)[t_]
                            size_ = chk.brackets[j]["sys"][chk.brackets[j]["cur"]][0]
                            nbetter = sum(1 for v_ in valid_ if not isnan(mine) and better(sp["mode"], v_, mine))
                            if (isnan(mine) and len(valid_) >= size_) or (not isnan(mine) and nbetter >= size_):
                                chk.bad("DEHB top_of_previous_rung(%d, %d) = trial %s (metric %r) asked again later: "
                                        "not among the best %d of rung %d" % (j, p_, t_, mine, size_, kprev), "promoted_not_best")
                        elif None not in ids_ and t_ not in ids_:
                            chk.bad("DEHB top_of_previous_rung(%d, %d) = %s asked again later: not a trial of rung %d %s" % (
                                j, p_, t_, kprev, ids_), "promoted_not_best")
                log.append(["ret", bid, dict(s, metric_val=jnum(s["metric_val"])), ret])
        # every unanswered job must still be a pending slot of the checker, and nothing else
        exp = {(b, s["rung_index"], s["slot_index"]) for b, s in outstanding}
        if blocked is None and chk.pending_slots() != exp:
            chk.bad("pending slots %s differ from the outstanding jobs %s" % (sorted(chk.pending_slots()), sorted(exp)),
                    "pending_slots_mismatch")
        st = chk.stats
        ctx.count(("mgr", sp), nontrivial=st["rungs_completed"] >= 1 and (st["max_open"] >= 2 or nfail >= 1))
        ctx.h("mgr_rss", sp["rss_desc"]["kind"] + ("_dehb" if dehb else ""))
        ctx.h("mgr_max_open_brackets", min(st["max_open"], 4))
        ctx.h("mgr_rungs_completed", min(st["rungs_completed"], 6))
        ctx.h("mgr_failures", min(nfail, 5))
        ctx.h("mgr_failed_promoted", min(st["failed_promoted"], 2))
        case = dict(kind="mgr", spec=sp)
        if blocked:
            ctx.violation("property", "bracket manager: " + blocked, case=case,
                          signature=dict(component="DEHB bracket manager" if dehb else "SynchronousHyperbandBracketManager",
                                         defect="request_raises"))
        for msg, defect in chk.problems[:2]:
            ctx.violation("property", "bracket manager log: " + msg, case=case,
                          signature=dict(component="SynchronousHyperbandBracketManager", defect=defect))
        if dehb:
            dcases.append("(%s, %s, %s, %s)" % (
                lst(["(%s, %s)" % (natlit(a), zlit(b)) for a, b in first_rs]), modelit(sp["mode"]),
                optlit(dehb["num_brackets"], natlit), lst(["\n   " + e for e in evs])))
            dmeta.append(dict(kind="mgr", spec=sp, impl_log=log))
            for e in evs:
                k = e.split()[0]
                if k in ("DMTop", "DMParent", "DMParentErr"):
                    k += "_none" if e.rstrip().endswith("None") else "_trial"
                ctx.h("dehb_events", k)
            continue
        cases.append("(%s, %s, %s)" % (rsslit(rss), modelit(sp["mode"]), lst(["\n   " + e for e in evs])))
        meta.append(dict(kind="mgr", spec=sp, impl_log=log))
    if cases:
        ctx.sample(dict(kind="bracket manager sequence", spec=meta[0]["spec"], impl_log_head=meta[0]["impl_log"][:6]))
        for i in coq_bad(ctx, "mgr", "chk_mgr", cases, shard=40):
            ctx.violation("correspondence", "model bracket manager differs from implementation on a next_job/on_result sequence",
                          case=meta[i], failing_input=False,
                          broken="correspondence chk_mgr (model/SyncHB.v next_job / mgr_on_result)")
    if dcases:
        for i in coq_bad(ctx, "dmgr", "chk_dmgr", dcases, shard=40):
            ctx.violation("correspondence", "model DEHB bracket manager differs from implementation on a sequence",
                          case=dmeta[i], failing_input=False,
                          broken="correspondence chk_dmgr (model/SyncHB.v dehb_next_job / dehb_mgr_on_result / "
                                 "top_of_previous_rung / trial_id_from_parent_slot)")


# ------------------------------------------------------------------ scheduler sequences
class RecordingManager:
    """Harness-side proxy placed in the scheduler's public attribute ``bracket_manager``."""

    def __init__(self, inner):
        self._inner = inner
        self.log = []

    def next_job(self):
        bid, slot = self._inner.next_job()
        self.log.append(("next", int(bid), sir_dict(slot)))
        return bid, slot

    def on_result(self, result):
        bid, slot = result
        s = sir_dict(slot)
        ret = self._inner.on_result(result)
        self.log.append(("ret", int(bid), s, None if ret is None else [None if t is None else int(t) for t in ret]))
        return ret

    def __getattr__(self, name):
        return getattr(self._inner, name)


def gen_sched_spec(rng):
    geometric = rng.random() < 0.5
    sp = dict(mode=rng.choice(["min", "max"]), workers=rng.choice([1, 2, 3, 4, 6, 9]),
              style=rng.choice(["grid", "grid", "grid_fine", "float"]), pfail=rng.choice([0.0, 0.1, 0.3, 0.6]),
              pstale=rng.choice([0.0, 0.05]), pinter=rng.choice([0.0, 0.3]), steps=rng.randint(10, 90),
              seed=rng.randrange(1 << 30), tiny_space=rng.random() < 0.12, searcher_data=rng.choice(["rungs", "all"]))
    if geometric:
        sp["geometric"] = dict(grace_period=rng.choice([1, 1, 2, 3]), max_resource=rng.choice([4, 8, 9, 10, 16, 27]),
                               reduction_factor=rng.choice([2, 3, 3, 4, 2.5]), brackets=rng.choice([None, None, 1, 2, 3]))
    else:
        for _ in range(50):
            _, rss = gen_rung_systems(rng)
            if rss_valid(rss):
                break
        sp["bracket_rungs"] = rss
    return sp


def build_scheduler(sp):
    from syne_tune.optimizer.schedulers.synchronous.hyperband_impl import SynchronousGeometricHyperbandScheduler
    from syne_tune.optimizer.schedulers.synchronous.hyperband import SynchronousHyperbandScheduler
    from syne_tune.config_space import uniform, choice
    kw = dict(metric="m", mode=sp["mode"], resource_attr="epoch", max_resource_attr="epochs", searcher="random",
              random_seed=sp["seed"] % 1000, searcher_data=sp["searcher_data"])
    hp = choice([0, 1, 2]) if sp["tiny_space"] else uniform(0, 1)
    if "geometric" in sp:
        g = sp["geometric"]
        cs = {"x": hp, "epochs": g["max_resource"]}
        extra = dict(grace_period=g["grace_period"], reduction_factor=g["reduction_factor"])
        if g["brackets"] is not None:
            extra["brackets"] = g["brackets"]
        return SynchronousGeometricHyperbandScheduler(cs, **kw, **extra)
    rss = [[tuple(x) for x in rs] for rs in sp["bracket_rungs"]]      # the caller's own nested list
    cs = {"x": hp, "epochs": rss[0][-1][1]}
    sch = SynchronousHyperbandScheduler(cs, bracket_rungs=rss, **kw)
    clobber_caller_list(rss)
    return sch


def run_sched(ctx, replay):
    import random as _random
    from syne_tune.backend.trial_status import Trial
    if replay and replay.get("kind") == "sched":
        specs = [replay["spec"]]
    elif replay:
        return
    else:
        specs = [gen_sched_spec(ctx.rng) for _ in range(ctx.n(140, 2500))]
    cases, meta = [], []
    t0 = datetime.datetime(2020, 1, 1)
    for sp in specs:
        rng = _random.Random(sp["seed"])
        try:
            sch = build_scheduler(sp)
        except AssertionError as e:
            ctx.h("sched_constructor", "rejected_rung_system")
            if "geometric" in sp:
                ctx.violation("property", "SynchronousGeometricHyperbandScheduler(%s) raises AssertionError for legal "
                              "arguments: %s" % (sp["geometric"], str(e)[:200]), case=dict(kind="sched", spec=sp),
                              signature=GEOM_SIG)
            continue
        ctx.h("sched_constructor", "ok")
        if "geometric" in sp:
            rss = [[(int(a), int(b)) for a, b in rs] for rs in sch.bracket_manager.bracket_rungs]
        else:
            rss = [[(int(a), int(b)) for a, b in rs] for rs in sp["bracket_rungs"]]    # private reference configuration
        rec = RecordingManager(sch.bracket_manager)
        sch.bracket_manager = rec
        searcher_calls = []
        if sch.searcher is not None:
            _orig_otr = sch.searcher.on_trial_result

            def _rec_otr(*a, _orig=_orig_otr, **k):
                searcher_calls.append(1)
                return _orig(*a, **k)
            sch.searcher.on_trial_result = _rec_otr
        chk = LogChecker(rss, sp["mode"])
        fed = 0

        def feed():
            nonlocal fed
            while fed < len(rec.log):
                e = rec.log[fed]
                fed += 1
                if e[0] == "next":
                    chk.on_next_job(e[1], e[2])
                else:
                    chk.on_result(e[1], e[2], e[3])

        running = {}      # trial_id -> dict(trial, milestone, job)  (jobs the scheduler waits for)
        paused = set()
        trials = {}
        ntrials = 0
        nfail = 0
        evs, log = [], []
        broken = None     # (call, exception) under the protocol
        for _ in range(sp["steps"]):
            r = rng.random()
            if r < sp["pstale"] and paused:
                # a paused (not pending) trial reports or fails once more: must be ignored
                t = rng.choice(sorted(paused))
                if rng.random() < 0.5:
                    try:
                        dec = sch.on_trial_result(trials[t], {"m": 0.5, "epoch": 1})
                        ok = True
                    except AssertionError:
                        ok, dec = False, "STOP"
                    evs.append("SResult %s %s %s %s %s false" % (zlit(t), zlit(1), mval(0.5), blit(ok), dec))
                    log.append(["stale_result", t, dec])
                else:
                    try:
                        sch.on_trial_error(trials[t])
                        ok = True
                    except Exception as e:
                        broken = ("on_trial_error", e)
                        break
                    evs.append("SErr %s true" % zlit(t))
                    log.append(["stale_error", t])
                continue
            if r < 0.04:
                rem = sch.trials_checkpoints_can_be_removed()
                rem = [None if t is None else int(t) for t in rem]
                evs.append("SCollect %s" % tidlist(rem))
                log.append(["collect", rem])
                continue
            want_next = len(running) < sp["workers"] and (not running or rng.random() < 0.6)
            if want_next:
                nlog = len(rec.log)
                try:
                    sg = sch.suggest(ntrials)
                except Exception as e:
                    broken = ("suggest", e)
                    break
                nj = [e for e in rec.log[nlog:] if e[0] == "next"]
                if len(nj) != 1:
                    broken = ("suggest", RuntimeError("suggest asked the bracket manager for %d jobs" % len(nj)))
                    break
                bid, s = nj[0][1], nj[0][2]
                if sg is None:
                    # no trial was started for this slot: the job failed, whatever value gets recorded
                    chk.truth[(bid, s["rung_index"], s["slot_index"])] = float("nan")
                feed()
                if sg is not None and not sg.spawn_new_trial_id and int(sg.checkpoint_trial_id) != s["trial_id"]:
                    chk.bad("suggest resumes trial %s but the job is for trial %s" % (sg.checkpoint_trial_id, s["trial_id"]),
                            "suggestion_job_mismatch")
                if sg is None:
                    out, cfg_ok = "SNone", False
                    log.append(["suggest", None, bid, s])
                elif sg.spawn_new_trial_id:
                    t = ntrials
                    ntrials += 1
                    out, cfg_ok = "(SStart %s)" % zlit(t), True
                    trial = Trial(trial_id=t, config=sg.config, creation_time=t0)
                    trials[t] = trial
                    sch.on_trial_add(trial)
                    running[t] = dict(milestone=int(sg.config["epochs"]), job=(bid, s))
                    log.append(["suggest", "start", t, bid, s])
                else:
                    t = int(sg.checkpoint_trial_id)
                    out, cfg_ok = "(SResume %s)" % zlit(t), True
                    paused.discard(t)
                    lvl = int(sg.config["epochs"]) if sg.config is not None else s["level"]
                    running[t] = dict(milestone=lvl, job=(bid, s))
                    log.append(["suggest", "resume", t, bid, s])
                if sg is not None and running[t]["milestone"] != s["level"]:
                    broken = ("suggest", RuntimeError("config carries level %s, job says %s" % (running[t]["milestone"], s["level"])))
                    break
                if sg is None or sg.config is None:
                    cfglit = "None"
                else:
                    cfglit = "(Some (%s, %s))" % (q(float(sg.config["x"])), optlit(sg.config.get("epochs"), zlit))
                evs.append("SSuggest %s %s %s %s %s" % (blit(cfg_ok), out, natlit(bid), sirlit(s), cfglit))
                try:
                    prev = int(sch.bracket_manager.level_to_prev_level(bid, s["level"]))
                except Exception as e:
                    broken = ("level_to_prev_level", e)
                    break
                evs.append("SPrev %s %s %s" % (natlit(bid), zlit(s["level"]), zlit(prev)))
            else:
                t = rng.choice(sorted(running))
                info = running[t]
                if rng.random() < sp["pfail"]:
                    nfail += 1
                    jb, js = info["job"]
                    chk.truth[(jb, js["rung_index"], js["slot_index"])] = float("nan")   # the harness fails this job
                    try:
                        sch.on_trial_error(trials[t])
                    except Exception as e:
                        broken = ("on_trial_error", e)
                        break
                    feed()
                    del running[t]
                    evs.append("SErr %s true" % zlit(t))
                    log.append(["error", t])
                    continue
                ms = info["milestone"]
                inter = rng.random() < sp["pinter"] and ms > 1
                res = rng.randint(1, ms - 1) if inter else ms
                v = gen_metric(rng, sp["style"])
                if rng.random() < 0.03:
                    v = float("nan")       # a training script may also report NaN itself
                if not inter:
                    jb, js = info["job"]
                    chk.truth[(jb, js["rung_index"], js["slot_index"])] = v          # the value the harness reports
                ncalls = len(searcher_calls)
                try:
                    dec = sch.on_trial_result(trials[t], {"m": v, "epoch": res})
                except Exception as e:
                    broken = ("on_trial_result", e)
                    break
                feed()
                evs.append("SResult %s %s %s true %s %s" % (zlit(t), zlit(res), mval(v), dec, blit(len(searcher_calls) > ncalls)))
                log.append(["result", t, res, jnum(v), dec])
                want = "CONTINUE" if inter else "PAUSE"
                if dec != want:
                    chk.bad("trial %d reporting at resource %d (milestone %d) got %s, expected %s" % (t, res, ms, dec, want),
                            "wrong_decision")
                if dec == "PAUSE":
                    sch.on_trial_remove(trials[t])
                    paused.add(t)
                    del running[t]
        feed()
        case = dict(kind="sched", spec=sp)
        if broken is not None:
            call, e = broken
            ctx.violation("property", "synchronous Hyperband scheduler: %s raised %s: %s — the job's slot stays pending, "
                          "the bracket waits forever / the request for work fails" % (call, type(e).__name__, e),
                          case=case, signature=dict(component="SynchronousHyperbandScheduler", call=call,
                                                    exception=type(e).__name__))
        else:
            exp = {(info["job"][0], info["job"][1]["rung_index"], info["job"][1]["slot_index"]) for info in running.values()}
            if chk.pending_slots() != exp:
                chk.bad("pending slots %s differ from the jobs still running %s" % (sorted(chk.pending_slots()), sorted(exp)),
                        "pending_slots_mismatch")
        st = chk.stats
        ctx.count(("sched", sp), nontrivial=st["rungs_completed"] >= 1 and (st["max_open"] >= 2 or nfail >= 1))
        ctx.h("sched_kind", "geometric" if "geometric" in sp else "custom")
        ctx.h("sched_max_open_brackets", min(st["max_open"], 4))
        ctx.h("sched_rungs_completed", min(st["rungs_completed"], 6))
        ctx.h("sched_failures", min(nfail, 5))
        for msg, defect in chk.problems[:2]:
            ctx.violation("property", "scheduler job/result log: " + msg, case=case,
                          signature=dict(component="SynchronousHyperbandScheduler", defect=defect))
        cases.append("(%s, %s, %s)" % (rsslit(rss), modelit(sp["mode"]), lst(["\n   " + e for e in evs])))
        meta.append(dict(kind="sched", spec=sp, impl_log=log))
    if cases:
        ctx.sample(dict(kind="scheduler sequence", spec=meta[0]["spec"], impl_log_head=meta[0]["impl_log"][:6]))
        for i in coq_bad(ctx, "sched", "chk_sched", cases, shard=40):
            ctx.violation("correspondence", "model scheduler shell differs from implementation on an event sequence",
                          case=meta[i], failing_input=False,
                          broken="correspondence chk_sched (model/SyncHB.v suggest / on_trial_result / on_trial_error)")


# ------------------------------------------------------------------ DEHB scheduler: requests for work keep being answered
class _CallTimeout(Exception):
    pass


def _with_alarm(seconds, fn, *a, **k):
    """run fn under SIGALRM (a call that does not return is a violation, not a hung check)"""
    import signal

    def _h(signum, frame):
        raise _CallTimeout("no answer within %d s" % seconds)
    old = signal.signal(signal.SIGALRM, _h)
    signal.alarm(seconds)
    try:
        return fn(*a, **k)
    finally:
        signal.alarm(0)
        signal.signal(signal.SIGALRM, old)


def gen_dehb_sched_spec(rng):
    sp = dict(mode=rng.choice(["min", "max"]), grace_period=rng.choice([1, 1, 2]), max_resource=rng.choice([4, 9, 9, 16, 27]),
              reduction_factor=rng.choice([2, 3, 3, 4]), brackets=rng.choice([None, None, 1, 2]),
              pfail=rng.choice([0.0, 0.0, 0.1, 0.3, 0.5]), workers=rng.choice([1, 2, 4]), steps=rng.randint(40, 160),
              seed=rng.randrange(1 << 30), pause_resume=rng.choice([True, False]),
              # a finite space runs out of new configs: suggest answers None and the job is reported as failed
              finite_space=rng.choice([None, None, None, 6, 12, 24]))
    if rng.random() < 0.35:
        # DifferentialEvolutionHyperbandScheduler with custom rungs of the first bracket
        depth = rng.randint(2, 4)
        sizes = sorted(rng.sample(range(1, 8), depth), reverse=True)
        levels = sorted(rng.sample(range(1, 20), depth))
        sp["custom_first"] = [[sizes[i], levels[i]] for i in range(depth)]
        sp["brackets"] = rng.choice([None, rng.randint(1, depth)])
    return sp


def run_dehb_sched(ctx, replay):
    """The real DEHB scheduler (dehb.py is modelled only as far as its bracket manager and the ids it reads).
    (a) every suggest / on_trial_result / on_trial_error under the protocol returns, whatever jobs fail;
    (b) the bracket manager's job/result log passes LogChecker, with the slot values replaced by what the HARNESS
        reported for the winning trial, so that top_of_previous_rung must be a best-k set of the completed rung;
    (c) on the public behaviour: the trials resumed (support_pause_resume) / continued as a new trial with the same
        config to the next rung level of the FIRST bracket are a best-k set of the completed rung, failed last."""
    import random as _random
    from syne_tune.backend.trial_status import Trial
    from syne_tune.config_space import uniform, randint, finrange
    from syne_tune.optimizer.schedulers.synchronous.hyperband_impl import GeometricDifferentialEvolutionHyperbandScheduler
    from syne_tune.optimizer.schedulers.synchronous.dehb import DifferentialEvolutionHyperbandScheduler
    if replay and replay.get("kind") == "dehb_sched":
        specs = [replay["spec"]]
    elif replay:
        return
    else:
        specs = [gen_dehb_sched_spec(ctx.rng) for _ in range(ctx.n(60, 800))]
    t0 = datetime.datetime(2020, 1, 1)
    nan = float("nan")
    for sp in specs:
        rng = _random.Random(sp["seed"])
        kw = dict(metric="m", mode=sp["mode"], resource_attr="epoch", max_resource_attr="epochs",
                  random_seed=sp["seed"] % 1000, support_pause_resume=sp["pause_resume"])
        fs = sp.get("finite_space")
        space = {"x": uniform(0, 1), "y": uniform(0, 1)} if not fs else {
            "x": finrange(0.0, 2.0, max(2, fs // 3), cast_int=True), "y": randint(0, 2)}
        try:
            if sp.get("custom_first"):
                first = [tuple(x) for x in sp["custom_first"]]                  # the caller's own list
                sch = DifferentialEvolutionHyperbandScheduler(dict(space, epochs=first[-1][1]), rungs_first_bracket=first,
                                                              num_brackets_per_iteration=sp["brackets"], **kw)
                clobber_caller_list(first)
            else:
                if sp["brackets"] is not None:
                    kw["brackets"] = sp["brackets"]
                sch = GeometricDifferentialEvolutionHyperbandScheduler(
                    dict(space, epochs=sp["max_resource"]), grace_period=sp["grace_period"],
                    reduction_factor=sp["reduction_factor"], **kw)
        except AssertionError:
            ctx.h("dehb_sched_constructor", "rejected")
            continue
        if sp.get("custom_first"):
            ref = [(int(a), int(b)) for a, b in sp["custom_first"]]            # private reference configuration
            rss = [ref[off:] for off in range(sp["brackets"] or len(ref))]
        else:
            rss = [[(int(a), int(b)) for a, b in rs] for rs in sch.bracket_manager.bracket_rungs]
        rec = RecordingManager(sch.bracket_manager)
        sch.bracket_manager = rec
        chk = LogChecker(rss, sp["mode"], dehb=True)
        running, trials, n, nfail, broken, nnone = {}, {}, 0, 0, None, 0
        reported_last = {}            # trial -> the value the harness reported last (NaN: it made the trial fail)
        b0, promoted = {}, {}         # first bracket: rung -> {trial: value} / rung -> trials continued from the rung below
        fed = [0]
        ntop = 0

        def feed():
            nonlocal ntop
            while fed[0] < len(rec.log):
                e = rec.log[fed[0]]
                fed[0] += 1
                if e[0] == "next":
                    chk.on_next_job(e[1], e[2])
                    continue
                bid, s_, ret = e[1], e[2], e[3]
                w = s_["trial_id"]
                # the slot holds the WINNER of the selection step; its value is what the harness reported for it
                chk.truth[(bid, s_["rung_index"], s_["slot_index"])] = nan if w is None else reported_last.get(w, s_["metric_val"])
                before = chk.stats["rungs_completed"]
                chk.on_result(bid, s_, ret)
                sys_ = rss[bid % len(rss)]
                if chk.stats["rungs_completed"] > before and s_["rung_index"] + 1 < len(sys_):
                    try:
                        top = [rec.top_of_previous_rung(bid, p) for p in range(sys_[s_["rung_index"] + 1][0])]
                    except Exception as e_:
                        chk.bad("top_of_previous_rung(bracket %d, pos < %d) raised %s: %s — the top list of the completed "
                                "rung %d is shorter than the next rung" % (bid, sys_[s_["rung_index"] + 1][0],
                                                                           type(e_).__name__, e_, s_["rung_index"]),
                                "top_list_too_short")
                        continue
                    chk.check_top_list(bid, s_["rung_index"], [None if t_ is None else int(t_) for t_ in top])
                    ntop += 1

        for _ in range(sp["steps"]):
            if len(running) < sp["workers"] and (not running or rng.random() < 0.6):
                nlog = len(rec.log)
                try:
                    sg = _with_alarm(20, sch.suggest, n)
                except Exception as e:
                    broken = ("suggest", e)
                    break
                nj = [e for e in rec.log[nlog:] if e[0] == "next"]
                feed()
                if sg is None:
                    nnone += 1
                    continue
                bid, js = (nj[0][1], nj[0][2]) if len(nj) == 1 else (None, None)
                if sg.spawn_new_trial_id:
                    t = n
                    n += 1
                    trials[t] = Trial(trial_id=t, config=sg.config, creation_time=t0)
                    sch.on_trial_add(trials[t])
                else:
                    t = int(sg.checkpoint_trial_id)
                running[t] = dict(ms=int(sg.config["epochs"]) if sg.config is not None else None, bid=bid,
                                  rung=None if js is None else js["rung_index"])
                if bid == 0 and js is not None and js["rung_index"] >= 1:
                    # which trial of the rung below is continued here?
                    k = js["rung_index"]
                    if not sg.spawn_new_trial_id:
                        src = t
                    else:
                        cfg = (sg.config.get("x"), sg.config.get("y"))
                        src = next((u for u in b0.get(k - 1, {}) if (trials[u].config.get("x"), trials[u].config.get("y")) == cfg), None)
                    promoted.setdefault(k, []).append(src)
            else:
                t = rng.choice(sorted(running))
                info = running.pop(t)
                ms = info["ms"]
                try:
                    if rng.random() < sp["pfail"] or ms is None:
                        nfail += 1
                        v = nan
                        reported_last[t] = nan
                        _with_alarm(20, sch.on_trial_error, trials[t])
                    else:
                        v = gen_metric(rng, "grid_fine")
                        reported_last[t] = v
                        _with_alarm(20, sch.on_trial_result, trials[t], {"m": v, "epoch": ms})
                except Exception as e:
                    broken = ("on_trial_result/on_trial_error", e)
                    break
                if info["bid"] == 0 and info["rung"] is not None:
                    b0.setdefault(info["rung"], {})[t] = v
                feed()
        feed()
        # (c) first bracket, public behaviour
        sys0 = rss[0]
        for k in sorted(promoted):
            if len(promoted[k]) != sys0[k][0] or len(b0.get(k - 1, {})) != sys0[k - 1][0]:
                continue                                   # rung not handed out completely yet
            prev = b0[k - 1]
            valid = {u: v for u, v in prev.items() if not isnan(v)}
            prom = [u for u in promoted[k] if u is not None]
            msg = None
            if len(set(prom)) != len(prom) or any(u not in prev for u in prom):
                msg = "trials %s continued to rung %d are not distinct trials of rung %d %s" % (prom, k, k - 1, sorted(prev))
            elif any(isnan(prev[u]) for u in prom):
                msg = "a failed trial of rung %d is continued to rung %d" % (k - 1, k)
            elif len(prom) != min(sys0[k][0], len(valid)):
                msg = "%d trials of rung %d continued to rung %d, which has %d slots (%d valid results)" % (
                    len(prom), k - 1, k, sys0[k][0], len(valid))
            else:
                for a_ in valid:
                    if a_ in prom:
                        continue
                    worse = [u for u in prom if better(sp["mode"], valid[a_], valid[u])]
                    if worse:
                        msg = ("trial %s (metric %r) of rung %d was not continued to level %d, but trial %s with the worse "
                               "metric %r (mode %s) was" % (a_, valid[a_], k - 1, sys0[k][1], worse[0], valid[worse[0]], sp["mode"]))
                        break
            if msg:
                chk.bad("first bracket: " + msg, "promoted_not_best")
        ctx.count(("dehb_sched", sp), nontrivial=chk.stats["rungs_completed"] >= 1 and (nfail >= 1 or len(promoted) >= 1))
        ctx.h("dehb_sched_kind", "custom_rungs" if sp.get("custom_first") else "geometric")
        ctx.h("dehb_sched_brackets", sp["brackets"])
        ctx.h("dehb_sched_failures", min(nfail, 5))
        ctx.h("dehb_sched_suggest_none", min(nnone, 5))
        ctx.h("dehb_sched_space", "finite" if fs else "continuous")
        ctx.h("dehb_sched_rungs_completed", min(chk.stats["rungs_completed"], 6))
        ctx.h("dehb_sched_first_bracket_rungs_checked", min(sum(1 for k in promoted if len(promoted[k]) == sys0[k][0]), 3))
        ctx.h("dehb_sched_top_lists_checked", min(ntop, 6))
        case = dict(kind="dehb_sched", spec=sp)
        if broken is not None:
            call, e = broken
            import traceback
            tb = traceback.extract_tb(e.__traceback__)
            where = [f for f in tb if "syne_tune" in f.filename][-1:] or tb[-1:]
            ctx.violation("property", "DEHB scheduler: %s raised %s: %s at %s:%s — the request for work is not answered / the "
                          "failed job blocks the bracket" % (call, type(e).__name__, e, os.path.basename(where[0].filename),
                                                             where[0].name),
                          case=case, signature=dict(component="DifferentialEvolutionHyperbandScheduler", call=call,
                                                    exception=type(e).__name__, function=where[0].name))
        for msg, defect in chk.problems[:2]:
            ctx.violation("property", "DEHB scheduler job/result log: " + msg, case=case,
                          signature=dict(component="DifferentialEvolutionHyperbandScheduler", defect=defect))


def run(ctx, replay=None):
    logging.disable(logging.CRITICAL)
    ctx.rule = ("cases: (top) random rungs with ties and failed entries for get_top_list; (mgr) random next_job/on_result "
                "sequences on the real bracket manager over geometric and custom rung systems, 1-14 workers, random/"
                "lifo/fifo/newest-bracket-first return order, random failures; (sched) the same through the real "
                "scheduler classes (suggest/on_trial_result/on_trial_error/...); (dehb_sched) the real DEHB scheduler with "
                "failing jobs: every call returns, its bracket-manager log passes the checker. Non-trivial = a get_top_list case with "
                "a tie or a failed entry and 0 < new_len < len, or a sequence that completes >= 1 rung with >= 2 open "
                "brackets or >= 1 failed job; distinct by content hash")
    try:
        if replay is None:
            # minimised / directed cases first (corpus/C05/*.json, each a replayable "case" dict)
            cdir = os.path.join(os.path.dirname(os.path.dirname(os.path.dirname(os.path.abspath(__file__)))), "corpus", "C05")
            if os.path.isdir(cdir):
                for f in sorted(os.listdir(cdir)):
                    if f.endswith(".json"):
                        case = json.load(open(os.path.join(cdir, f)))
                        ctx.h("corpus", case.get("kind"))
                        run_top(ctx, case)
                        run_geom(ctx, case)
                        run_mgr(ctx, case)
                        run_sched(ctx, case)
                        run_dehb_sched(ctx, case)
        run_top(ctx, replay)
        run_geom(ctx, replay)
        run_mgr(ctx, replay)
        run_sched(ctx, replay)
        run_dehb_sched(ctx, replay)
    finally:
        logging.disable(logging.NOTSET)
