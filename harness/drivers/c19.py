"""C19 — correspondence of model/Pareto.v with
syne_tune/optimizer/schedulers/multiobjective/{non_dominated_priority,multiobjective_priority,moasha}.py
and the checker for 'MOASHA follows the Pareto rank' on implementation decisions."""
import math
from unittest import mock

import numpy as np

from common import q, qlist, lst, natlit, zlit, optlit, blit

IMPORTS = "From Verif Require Import model.Base model.Pareto.\nOpen Scope Q_scope.\n"

PRELUDE = r"""
Definition mask_case := (list vec * list bool)%type.
Definition chk_mask (c : mask_case) : bool := list_eqb Bool.eqb (pareto_efficient (fst c)) (snd c).

(* sort case: X, dim, max_items, implementation's layers (flatten=False) *)
Definition sort_case := (list vec * option nat * option nat * list (list nat))%type.
Fixpoint layers_match (model impl : list (list nat)) : bool :=
  match model, impl with
  | _, [] => true
  | m :: ms, [l] => (* last implementation layer may be truncated by max_items *)
      forallb (fun x => mem_nat x m) l && Nat.leb (length l) (length m)
  | m :: ms, l :: ls => same_set_nat m l && layers_match ms ls
  | [], _ :: _ => false
  end.
Fixpoint nodup_nat (l : list nat) : bool :=
  match l with [] => true | x :: r => negb (mem_nat x r) && nodup_nat r end.
Definition chk_sort (c : sort_case) : bool :=
  let '(X, dim, mx, impl) := c in
  let n := length X in
  let model := match mx with
               | None => nd_layers X (seq 0 n) n
               | Some m => nd_layers_max X (seq 0 n) n (Some m) 0 end in
  let flat := concat impl in
  Nat.eqb (length impl) (length model) && layers_match model impl && nodup_nat flat &&
  Nat.eqb (length flat) (match mx with None => n | Some m => Nat.min m n end).

(* compute_epsilon_net: n, the greedy order recovered from the implementation's ranks
   (order[r] = the item with rank r), the implementation's ranks. The model, with the
   float-valued choices replayed from that order, must return the same ranks and order. *)
Definition epsnet_case := (nat * list nat * list nat)%type.
Definition chk_epsnet (c : epsnet_case) : bool :=
  let '(n, order, ranks) := c in
  let seed := hd O order in
  list_eqb Nat.eqb (epsilon_net_order seed (choose_replay order) n) order &&
  list_eqb Nat.eqb (compute_epsilon_net seed (choose_replay order) n) ranks &&
  same_set_nat ranks (seq 0 n).

(* MOASHA sequence: rf, max_t, initial brackets, priority table, events
   (bracket index, trial, cur_iter, metrics (already signed), implementation decision, is-on_trial_complete);
   an on_trial_complete event has no decision (the field is ignored) *)
Definition prio_tbl := list (list vec * list Q).
Definition vec_eqb := list_eqb xeqb.
Fixpoint prio_of (tbl : prio_tbl) (X : list vec) : list Q :=
  match tbl with
  | [] => []
  | (k, v) :: r => if list_eqb vec_eqb k X then v else prio_of r X
  end.
Definition ev := (nat * Z * Q * vec * decision * bool)%type.
Fixpoint upd {A} (l : list A) (i : nat) (x : A) : list A :=
  match l, i with
  | [], _ => []
  | _ :: r, O => x :: r
  | y :: r, S j => y :: upd r j x
  end.
Fixpoint run_evs (prio : list vec -> list Q) (rf max_t : Q) (bs : list bracket) (evs : list ev) : bool :=
  match evs with
  | [] => true
  | (bi, t, it, m, d, true) :: r =>
      run_evs prio rf max_t (upd bs bi (moasha_on_trial_complete prio rf (nth bi bs []) t it m)) r
  | (bi, t, it, m, d, false) :: r =>
      let '(b', d') := moasha_on_trial_result prio rf max_t (nth bi bs []) t it m in
      decision_eqb d d' && run_evs prio rf max_t (upd bs bi b') r
  end.
(* NonDominatedPriority: implementation's sorted index list, n, implementation's priorities *)
Definition prio_case := (list nat * nat * list Q)%type.
Definition chk_prio (c : prio_case) : bool :=
  let '(sorted, n, impl) := c in list_eqb Qeqb (priority_of_sorted sorted n) impl.
(* sign normalisation: modes (true = min), reported values, the row the implementation handed to the priority *)
Definition sign_case := (list bool * vec * vec)%type.
Definition chk_sign (c : sign_case) : bool :=
  let '(modes, raw, impl) := c in list_eqb xeqb (metric_dict modes raw) impl.
Definition seq_case := (Q * Q * list bracket * prio_tbl * list ev)%type.
Definition chk_seq (c : seq_case) : bool :=
  let '(rf, max_t, bs, tbl, evs) := c in run_evs (prio_of tbl) rf max_t bs evs.
"""


def xql(v):
    """literal of model/Pareto.v [xq]: a finite float as exact rational, +-inf as PInf / NInf"""
    v = float(v)
    if v == float("inf"):
        return "PInf"
    if v == float("-inf"):
        return "NInf"
    return "(Fin %s)" % q(v)


def vecs(X):
    return "(" + lst([lst([xql(v) for v in row]) for row in X]) + ")"


def gen_matrix(rng, nmax=40):
    n = rng.choice([0, 1, 2, 3, 5, 8, 13, 21, rng.randint(0, nmax)])
    d = rng.randint(1, 5)
    style = rng.choice(["grid2", "grid3", "grid5", "float", "mixed", "dupes", "huge", "inf"])
    rows = []
    # 'huge' / 'inf': a coordinate shared by several points that is huge (or infinite) next to small differences
    # in the other coordinates: sums and differences of whole rows lose the small part in binary64
    big = [rng.choice([3e17, -3e17, 2.0 ** 60, 1e300, -1e300, 9007199254740993.0]) for _ in range(d)]
    for _ in range(n):
        if style in ("huge", "inf"):
            row = []
            for k in range(d):
                r = rng.random()
                if r < 0.45:
                    row.append(big[k] if style == "huge" else rng.choice([float("inf"), float("inf"), float("-inf"), big[k]]))
                elif r < 0.8:
                    row.append(0.1 * rng.randint(0, 4))
                else:
                    row.append(float(rng.randint(-2, 2)))
            rows.append(row)
        elif style.startswith("grid"):
            g = int(style[4:])
            rows.append([float(rng.randint(0, g - 1)) for _ in range(d)])
        elif style == "float":
            rows.append([rng.uniform(-3, 3) for _ in range(d)])
        elif style == "mixed":
            rows.append([rng.choice([rng.uniform(-1, 1), float(rng.randint(-1, 1)), 0.1 * rng.randint(0, 3)]) for _ in range(d)])
        else:
            if rows and rng.random() < 0.5:
                rows.append(list(rng.choice(rows)))
            else:
                rows.append([float(rng.randint(0, 3)) for _ in range(d)])
    return np.array(rows, dtype=float).reshape((n, d)), style


def dominates(a, b):
    return bool(np.all(a <= b) and np.any(a < b))


def brute_mask(X):
    n = X.shape[0]
    return [not any(dominates(X[i], X[j]) for i in range(n)) for j in range(n)]


def brute_layers(X):
    rem = list(range(X.shape[0]))
    layers = []
    while rem:
        front = [j for j in rem if not any(dominates(X[i], X[j]) for i in rem)]
        layers.append(front)
        rem = [j for j in rem if j not in front]
    return layers


def run(ctx, replay=None):
    from syne_tune.optimizer.schedulers.multiobjective.non_dominated_priority import (
        pareto_efficient, nondominated_sort, compute_epsilon_net)
    ctx.rule = ("cases: random objective matrices (N 0..40, D 1..5; integer grids forcing ties, duplicates, floats), "
                "non-dominated sorts with dim/max_items, and MOASHA report sequences; non-trivial = a matrix with at "
                "least one tie or duplicate row and at least one dominated point, or a MOASHA sequence with a "
                "decision at a rung holding >= 2 entries; distinct by content hash")
    rng = ctx.rng
    # ---------------- pareto_efficient --------------------------------------
    n_mask = ctx.n(400, 6000)
    mats = []
    if replay and replay.get("kind") == "mask":
        mats = [(np.array(replay["X"], dtype=float).reshape(replay["shape"]), "replay")]
    elif replay:
        mats = []
    else:
        mats = [gen_matrix(rng) for _ in range(n_mask)]
    cases, meta = [], []
    for X, style in mats:
        mask = [bool(b) for b in pareto_efficient(X.copy())]
        truth = brute_mask(X)
        has_tie = len({tuple(r) for r in X.tolist()}) < len(X) or any(
            len(set(X[:, k].tolist())) < len(X) for k in range(X.shape[1])) if len(X) else False
        ctx.count(("mask", X.tolist()), nontrivial=bool(has_tie and not all(truth)))
        ctx.h("mask_style", style)
        ctx.h("mask_N", X.shape[0] // 10 * 10)
        if mask != truth:
            ctx.violation("property", "pareto_efficient marks %s but brute force says %s" % (mask, truth),
                          case=dict(kind="mask", X=X.tolist(), shape=list(X.shape)),
                          signature=dict(function="pareto_efficient", n=int(X.shape[0])))
        if not np.all(np.isfinite(X)):
            ctx.h("mask_with_infinite_values", "n")
        cases.append("(%s, %s)" % (vecs(X), lst([blit(b) for b in mask])))
        meta.append(dict(kind="mask", X=X.tolist(), shape=list(X.shape), impl=mask))
    if cases:
        ctx.sample(dict(kind="pareto_efficient", X=meta[0]["X"], impl_mask=meta[0]["impl"]))
        for i in ctx.coq_bad_cases("mask", IMPORTS, PRELUDE, "chk_mask", cases):
            ctx.violation("correspondence", "model pareto_efficient differs from implementation", case=meta[i],
                          failing_input=False, broken="correspondence chk_mask (model/Pareto.v pareto_efficient)")

    # ---------------- nondominated_sort --------------------------------------
    n_sort = ctx.n(250, 4000)
    scases, smeta = [], []
    sorts = []
    if replay and replay.get("kind") == "sort":
        sorts = [(np.array(replay["X"], dtype=float).reshape(replay["shape"]), replay["dim"], replay["max_items"])]
    elif not replay:
        for _ in range(n_sort):
            X, style = gen_matrix(rng, nmax=25)
            if X.shape[0] == 0:
                continue
            dim = rng.choice([None, 0, rng.randrange(X.shape[1])])
            mx = rng.choice([None, None, 1, rng.randint(1, X.shape[0] + 2)])
            sorts.append((X, dim, mx))
    for X, dim, mx in sorts:
        try:
            layers = nondominated_sort(X.copy(), dim=dim, max_items=mx, flatten=False)
            layers = [[int(i) for i in l] for l in layers]
            flat = [int(i) for i in nondominated_sort(X.copy(), dim=dim, max_items=mx, flatten=True)]
        except Exception as e:  # the sort returns no ranking at all for this input
            ctx.count(("sort", X.tolist(), dim, mx))
            ctx.violation("property", "nondominated_sort raised %s: %s (no ranking returned)" % (type(e).__name__, e),
                          case=dict(kind="sort", X=X.tolist(), shape=list(X.shape), dim=dim, max_items=mx),
                          signature=dict(function="nondominated_sort", raised=type(e).__name__))
            continue
        truth = brute_layers(X)
        ctx.count(("sort", X.tolist(), dim, mx), nontrivial=len(truth) >= 2 and len(truth[0]) >= 2)
        ctx.h("sort_layers", len(truth))
        ctx.h("sort_max_items", "none" if mx is None else ("lt_n" if mx < X.shape[0] else "ge_n"))
        # checker on the implementation output: rank by layer must be monotone along the output, each index once
        layer_of = {j: k for k, l in enumerate(truth) for j in l}
        ranks = [layer_of[j] for j in flat]
        want_len = X.shape[0] if mx is None else min(mx, X.shape[0])
        ok = ranks == sorted(ranks) and len(set(flat)) == len(flat) == want_len
        # and it must be a prefix-closed selection: every layer before the last listed one is complete
        if ok and flat:
            last = ranks[-1]
            ok = all(sum(1 for r in ranks if r == k) == len(truth[k]) for k in range(last))
        if not ok:
            ctx.violation("property", "nondominated_sort output %s is not layer-consistent (layers %s)" % (flat, truth),
                          case=dict(kind="sort", X=X.tolist(), shape=list(X.shape), dim=dim, max_items=mx),
                          signature=dict(function="nondominated_sort"))
        if not np.all(np.isfinite(X)):
            ctx.h("sort_with_infinite_values", "n")
        scases.append("(%s, %s, %s, %s)" % (vecs(X), optlit(dim, natlit), optlit(mx, natlit),
                                            lst([lst([natlit(i) for i in l]) for l in layers])))
        smeta.append(dict(kind="sort", X=X.tolist(), shape=list(X.shape), dim=dim, max_items=mx, impl=layers))
    if scases:
        ctx.sample(dict(kind="nondominated_sort", X=smeta[0]["X"], dim=smeta[0]["dim"],
                        max_items=smeta[0]["max_items"], impl_layers=smeta[0]["impl"]))
        for i in ctx.coq_bad_cases("sort", IMPORTS, PRELUDE, "chk_sort", scases):
            ctx.violation("correspondence", "model nondominated_sort layers differ from implementation", case=smeta[i],
                          failing_input=False, broken="correspondence chk_sort (model/Pareto.v nd_layers)")

    # ---------------- compute_epsilon_net --------------------------------------
    ecases, emeta = [], []
    nets = []
    if replay and replay.get("kind") == "epsnet":
        nets = [(np.array(replay["X"], dtype=float).reshape(replay["shape"]), replay["dim"])]
    elif not replay:
        for _ in range(ctx.n(150, 2000)):
            X, style = gen_matrix(rng, nmax=14)
            if X.shape[0] == 0:
                continue
            nets.append((X, rng.choice([None, 0, rng.randrange(X.shape[1])])))
    for X, dim in nets:
        n = X.shape[0]
        case = dict(kind="epsnet", X=X.tolist(), shape=list(X.shape), dim=dim)
        np.random.seed(rng.randrange(2 ** 31))
        ctx.count(("epsnet", X.tolist(), dim), nontrivial=n >= 3)
        try:
            with np.errstate(all="ignore"):
                ranks = [int(r) for r in compute_epsilon_net(X.copy(), dim=dim)]
        except Exception as e:
            ctx.violation("property", "compute_epsilon_net raised %s: %s" % (type(e).__name__, e),
                          case=case, signature=dict(function="compute_epsilon_net", raised=type(e).__name__))
            continue
        ctx.h("epsnet_items", min(n, 10))
        if sorted(ranks) != list(range(n)):
            ctx.violation("property", "compute_epsilon_net returned %s: not a permutation of 0..%d, so "
                          "nondominated_sort repeats or drops an index of the layer" % (ranks, n - 1),
                          case=case, signature=dict(function="compute_epsilon_net"))
            continue
        order = [ranks.index(r) for r in range(n)]
        ecases.append("(%s, %s, %s)" % (natlit(n), lst([natlit(i) for i in order]), lst([natlit(i) for i in ranks])))
        emeta.append(dict(case, impl_ranks=ranks))
    if ecases:
        for i in ctx.coq_bad_cases("epsnet", IMPORTS, PRELUDE, "chk_epsnet", ecases):
            ctx.violation("correspondence", "model compute_epsilon_net differs from implementation", case=emeta[i],
                          failing_input=False, broken="correspondence chk_epsnet (model/Pareto.v compute_epsilon_net)")

    # ---------------- MOASHA sequences ---------------------------------------
    moasha_sequences(ctx, replay)


class RecordingPriority:
    """Harness-side wrapper around a real MOPriority: records (matrix, priorities)."""

    def __init__(self, inner):
        self.inner = inner
        self.calls = []
        self.sorts = []

    def __call__(self, objectives):
        out = self.inner(objectives)
        if hasattr(self.inner, "max_num_samples") and getattr(self.inner, "dim", None) is not None:
            # deterministic (dim given): the same sort the priority was computed from
            from syne_tune.optimizer.schedulers.multiobjective.non_dominated_priority import nondominated_sort
            srt = nondominated_sort(X=np.array(objectives, dtype=float), dim=self.inner.dim,
                                    max_items=self.inner.max_num_samples)
            self.sorts.append(([int(i) for i in srt], int(np.asarray(objectives).shape[0]),
                               [float(x) for x in np.asarray(out).tolist()]))
        self.calls.append((np.array(objectives, dtype=float).tolist(), [float(x) for x in np.asarray(out).tolist()]))
        return out


def bracket_milestones(min_t, max_t, rf, s):
    max_rungs = int(np.log(max_t / min_t) / np.log(rf) - s + 1)
    return [min_t * rf ** (k + s) for k in reversed(range(max_rungs))]


def gen_moasha_case(rng):
    nmet = rng.randint(1, 3)
    metrics = ["m%d" % i for i in range(nmet)]
    mode = rng.choice(["min", "max", [rng.choice(["min", "max"]) for _ in range(nmet)], None])
    rf = rng.choice([2, 3, 4, 2.5, 1.5])
    grace = rng.choice([1, 1, 2, 3])
    max_t = rng.choice([9, 16, 27, 30, 81])
    brackets = rng.randint(1, 3)
    prio = rng.choice(["nd", "nd1", "fixed", "linear", "ndk", "ndk", "default", "default"])
    max_num_samples = rng.choice([1, 2, 3, 5])
    ntrials = rng.randint(2, 9)
    key_order = rng.choice([0, 0, rng.randint(1, 10 ** 6)])
    # event schedule: interleaving of per-trial consecutive reports
    cursors = {t: 0 for t in range(ntrials)}
    assign = {t: rng.randrange(brackets) for t in range(ntrials)}
    grid = rng.choice([3, 5, 100, -1])   # -1: one huge coordinate shared by all reports + small differences elsewhere
    hugecol = rng.randrange(nmet)
    hugeval = rng.choice([3e17, 2.0 ** 60, 1e300] + ([float("inf")] * 2 if prio in ("nd", "nd1", "ndk", "default") else []))
    stride_mode = rng.choice([0, 0, 3, 9])
    complete_rate = rng.choice([0, 0.1, 0.25])
    evs = []
    alive = list(range(ntrials))
    for _ in range(rng.randint(5, 60)):
        if not alive:
            break
        t = rng.choice(alive)
        # consecutive epochs mostly; some trials report with a stride / a late first report (jumping over rung levels)
        cursors[t] += 1 if (stride_mode == 0 or rng.random() < 0.5) else rng.randint(1, stride_mode)
        if grid == -1:
            vals = [hugeval if (k == hugecol and nmet > 1) else 0.1 * rng.randint(0, 5) for k in range(nmet)]
        else:
            vals = [float(rng.randint(0, grid)) if grid < 100 else rng.uniform(0, 1) for _ in range(nmet)]
        u = rng.random()
        if complete_rate and u < complete_rate and cursors[t] < max_t:
            # the trial finishes on its own: its final result reaches the scheduler through on_trial_complete,
            # either after on_trial_result saw the same result (what the Tuner does) or as a new result
            if rng.random() < 0.6:
                evs.append((t, cursors[t], vals, "result"))
            evs.append((t, cursors[t], vals, "complete"))
            alive.remove(t)
        else:
            evs.append((t, cursors[t], vals, "result"))
    return dict(metrics=metrics, mode=mode, rf=rf, grace=grace, max_t=max_t, brackets=brackets, prio=prio, max_num_samples=max_num_samples, key_order=key_order,
                assign={str(k): v for k, v in assign.items()}, evs=evs)


def moasha_sequences(ctx, replay):
    from syne_tune.optimizer.schedulers.multiobjective.moasha import MOASHA
    from syne_tune.optimizer.schedulers.multiobjective.multiobjective_priority import (
        NonDominatedPriority, FixedObjectivePriority, LinearScalarizationPriority)
    from syne_tune.backend.trial_status import Trial
    from syne_tune.config_space import randint
    import datetime
    import io
    import contextlib

    rng = ctx.rng
    if replay and replay.get("kind") == "moasha":
        specs = [replay["spec"]]
    elif replay:
        return
    else:
        specs = [gen_moasha_case(rng) for _ in range(ctx.n(150, 3000))]
    cases, meta = [], []
    pcases, pmeta = [], []
    gcases, gmeta = [], []
    for spec in specs:
        nmet = len(spec["metrics"])
        inner = {"nd": lambda: NonDominatedPriority(), "default": lambda: NonDominatedPriority(),
                 "nd1": lambda: NonDominatedPriority(dim=nmet - 1),
                 "ndk": lambda: NonDominatedPriority(max_num_samples=spec.get("max_num_samples", 2)),
                 "fixed": lambda: FixedObjectivePriority(dim=nmet - 1),
                 "linear": lambda: LinearScalarizationPriority()}[spec["prio"]]()
        rec = RecordingPriority(inner)
        if spec["prio"] == "default":
            # the scheduler's own default priority (no object passed): schedulers created one after another in this
            # process, with different numbers of metrics, must not influence each other. Nothing can be recorded
            # from inside; the calls are reconstructed below from the reference rung bookkeeping
            sch = MOASHA(config_space={"x": randint(0, 10)}, metrics=spec["metrics"], mode=spec["mode"],
                         time_attr="epoch", max_t=spec["max_t"],
                         grace_period=spec["grace"], reduction_factor=spec["rf"], brackets=spec["brackets"])
        else:
            sch = MOASHA(config_space={"x": randint(0, 10)}, metrics=spec["metrics"], mode=spec["mode"],
                         time_attr="epoch", multiobjective_priority=rec, max_t=spec["max_t"],
                         grace_period=spec["grace"], reduction_factor=spec["rf"], brackets=spec["brackets"])
        mode = spec["mode"] or "min"
        signs = [(1.0 if (mode if isinstance(mode, str) else mode[i]) == "min" else -1.0) for i in range(nmet)]
        stopped = set()
        added = set()
        reported_vectors = set()
        # harness-side reference bookkeeping of "trials recorded at a rung" (per bracket: milestone -> {trial: vector})
        ref_rungs = [{float(m): {} for m in bracket_milestones(spec["grace"], spec["max_t"], spec["rf"], s)}
                     for s in range(spec["brackets"])]
        ev_terms = []
        decisions = []
        nontriv = False
        viol = None
        ncomplete = 0
        sink = io.StringIO()
        rung_sizes = {}
        for evt in spec["evs"]:
            t, it, vals = evt[0], evt[1], evt[2]
            is_complete = len(evt) > 3 and evt[3] == "complete"
            if t in stopped:
                continue
            bi = spec["assign"][str(t)]
            trial = Trial(trial_id=t, config={"x": 1}, creation_time=datetime.datetime(2020, 1, 1))
            if t not in added:
                with mock.patch("numpy.random.choice", lambda n, p=None: bi), contextlib.redirect_stdout(sink):
                    sch.on_trial_add(trial)
                added.add(t)
            # the reported dict lists its keys in a scripted order (not necessarily the order of `metrics`)
            items = [("epoch", it)] + list(zip(spec["metrics"], vals)) + [("other", 0.5)]
            order = spec.get("key_order")
            if order:
                rnd = __import__("random").Random(order * 7919 + t * 31 + int(it))
                rnd.shuffle(items)
            result = dict(items)
            ncalls = len(rec.calls)
            try:
                if is_complete:
                    sch.on_trial_complete(trial, result)
                    dec = "CONTINUE"   # no decision; placeholder ignored by the model and the checker
                else:
                    dec = sch.on_trial_result(trial, result)
            except Exception as e:   # a legal report must be answered, not raise
                viol = dict(event=[t, it, vals], kind="exception", exception="%s: %s" % (type(e).__name__, str(e)[:200]))
                break
            if is_complete:
                ncomplete += 1
            else:
                decisions.append(dec)
            signed = [s * v for s, v in zip(signs, vals)]
            reported_vectors.add(tuple(signed))
            # reference: the report is recorded at the highest rung reached that does not hold the trial yet
            ref_expected = None
            if it < spec["max_t"] or is_complete:   # on_trial_complete has no max_t test
                for ms in sorted(ref_rungs[bi].keys(), reverse=True):
                    if it < ms or t in ref_rungs[bi][ms]:
                        continue
                    ref_expected = [list(v) for v in ref_rungs[bi][ms].values()]
                    ref_rungs[bi][ms][t] = tuple(signed)
                    break
            if spec["prio"] == "default" and ref_expected:
                rec(np.array([list(v) for v in ref_expected] + [signed], dtype=float))
            called = len(rec.calls) > ncalls
            if viol is None and ref_expected is not None and (bool(ref_expected) != called or (
                    called and sorted(map(tuple, rec.calls[-1][0][:-1])) != sorted(map(tuple, ref_expected)))):
                viol = dict(event=[t, it, vals], matrix=(rec.calls[-1][0] if called else None), own_signed=signed,
                            decision=dec, expected="competitors recorded at the rung: %s" % ref_expected, kind="competitors")
            if viol is None and ref_expected is None and called:
                viol = dict(event=[t, it, vals], matrix=rec.calls[-1][0], own_signed=signed, decision=dec,
                            expected="no rung reached / trial already recorded at every reached rung", kind="competitors")
            if len(rec.calls) > ncalls:
                mat, pr = rec.calls[-1]
                # the objective matrix handed to the priority must consist of the recorded trials' metrics,
                # each in the DECLARED order of `metrics` (per-metric sign applied), own vector last
                if viol is None and (list(mat[-1]) != signed or any(tuple(r) not in reported_vectors for r in mat)):
                    viol = dict(event=[t, it, vals], matrix=mat, own_signed=signed, decision=dec,
                                expected="objective vectors in the order of `metrics`", kind="matrix")
                if spec["prio"] != "default" and len(gcases) < 1500:
                    # the row the implementation handed to the priority for this report vs the model's sign rule
                    gcases.append("(%s, %s, %s)" % (lst([blit(sg > 0) for sg in signs]), lst([xql(v) for v in vals]),
                                                    lst([xql(v) for v in mat[-1]])))
                    gmeta.append(dict(kind="moasha", spec=spec, event=[t, it, vals], impl_row=mat[-1]))
                if len(mat) >= 2:
                    nontriv = True
                # checker on the implementation decision: 'continue exactly when the trial's priority rank
                # among all trials recorded at that rung, itself included, is within the best 1/rf fraction'
                X = np.array(mat, dtype=float)
                n = len(mat)
                if spec["prio"] in ("nd", "nd1", "ndk", "default"):
                    layers = brute_layers(X)
                    layer_of = {j: k for k, l in enumerate(layers) for j in l}
                    own = n - 1
                    # rank of own is only determined up to the order inside its layer: bounds
                    lo = sum(len(l) for l in layers[:layer_of[own]])
                    hi = lo + len(layers[layer_of[own]]) - 1
                    if spec["prio"] == "ndk":
                        # items cut off by max_num_samples share the lowest priority (= k)
                        k = spec.get("max_num_samples", 2)
                        lo, hi = min(lo, k), min(hi, k)
                    must_stop = lo / n > 1 / spec["rf"]
                    must_cont = hi / n <= 1 / spec["rf"]
                else:
                    p = np.array(pr)
                    r = float(np.sum(p < p[-1])) / n
                    must_stop = r > 1 / spec["rf"]
                    must_cont = not must_stop
                if viol is None and not is_complete and ((must_stop and dec != "STOP") or (must_cont and dec != "CONTINUE")):
                    viol = dict(event=[t, it, vals], matrix=mat, priorities=pr, decision=dec,
                                expected="STOP" if must_stop else "CONTINUE")
            if is_complete:
                stopped.add(t)     # finished: no further events for this trial
            elif dec == "STOP":
                stopped.add(t)
                sch.on_trial_remove(trial)
            ev_terms.append("(%s, %s, %s, %s, %s, %s)" % (natlit(bi), zlit(t), q(it), lst([xql(v) for v in signed]), dec,
                                                      blit(is_complete)))
        ctx.count(("moasha", spec), nontrivial=nontriv)
        ctx.h("moasha_prio", spec["prio"])
        ctx.h("moasha_decisions", "STOP", decisions.count("STOP"))
        ctx.h("moasha_decisions", "CONTINUE", decisions.count("CONTINUE"))
        ctx.h("moasha_on_trial_complete_events", "n", ncomplete)
        if viol is not None and viol.get("kind") == "exception":
            ctx.violation("property", "MOASHA.on_trial_result raised %s for the legal report %s (priority=%s, %d metrics; "
                          "schedulers created earlier in this process must not matter)" % (
                              viol["exception"], viol["event"], spec["prio"], nmet),
                          case=dict(kind="moasha", spec=spec, first_bad=viol),
                          signature=dict(scheduler="MOASHA", defect="on_trial_result_raises", priority=spec["prio"]))
            continue
        if viol is not None and viol.get("kind") == "competitors":
            ctx.violation("property",
                          "MOASHA ranked a trial reaching a rung against %s but %s" % (viol["matrix"], viol["expected"]),
                          case=dict(kind="moasha", spec=spec, first_bad=viol),
                          signature=dict(scheduler="MOASHA", defect="wrong_set_of_trials_recorded_at_rung"))
        elif viol is not None and viol.get("kind") == "matrix":
            ctx.violation("property",
                          "MOASHA ranked a trial on an objective vector %s that is not its reported metrics %s in the "
                          "declared order of `metrics`" % (viol["matrix"][-1], viol["own_signed"]),
                          case=dict(kind="moasha", spec=spec, first_bad=viol),
                          signature=dict(scheduler="MOASHA", defect="objective_vector_not_in_metrics_order"))
        elif viol is not None:
            ctx.violation("property",
                          "MOASHA decided %s for a trial whose priority rank requires %s (priority=%s, rf=%s)" % (
                              viol["decision"], viol["expected"], spec["prio"], spec["rf"]),
                          case=dict(kind="moasha", spec=spec, first_bad=viol),
                          signature=dict(scheduler="MOASHA", priority=type(inner).__name__,
                                         defect="priority_is_argsort_not_rank"))
        brs = []
        for s in range(spec["brackets"]):
            ms = bracket_milestones(spec["grace"], spec["max_t"], spec["rf"], s)
            brs.append(lst(["{| milestone := %s; recorded := [] |}" % q(float(m)) for m in ms]))
        for srt, n, pr in rec.sorts[:6]:
            pcases.append("(%s, %s, %s)" % (lst([natlit(i) for i in srt]), natlit(n), qlist(pr)))
            pmeta.append(dict(kind="moasha", spec=spec, sorted=srt, n=n, impl_priorities=pr))
        tbl = lst(["(%s, %s)" % (vecs(m), qlist(p)) for m, p in rec.calls])
        cases.append("(%s, %s, %s, %s, %s)" % (q(float(spec["rf"])), q(float(spec["max_t"])), lst(brs), tbl, lst(ev_terms)))
        meta.append(dict(kind="moasha", spec=spec, impl_decisions=decisions))
    if gcases:
        ctx.h("sign_cases", "n", len(gcases))
        for i in ctx.coq_bad_cases("sign", IMPORTS, PRELUDE, "chk_sign", gcases):
            ctx.violation("correspondence", "model metric_dict (per-metric sign) differs from the row MOASHA ranks", case=gmeta[i],
                          failing_input=False, broken="correspondence chk_sign (model/Pareto.v metric_dict)")
    if pcases:
        ctx.h("priority_cases", "n", len(pcases))
        for i in ctx.coq_bad_cases("prio", IMPORTS, PRELUDE, "chk_prio", pcases):
            ctx.violation("correspondence", "model priority_of_sorted differs from NonDominatedPriority", case=pmeta[i],
                          failing_input=False, broken="correspondence chk_prio (model/Pareto.v priority_of_sorted)")
    if cases:
        ctx.sample(dict(kind="moasha", spec=meta[0]["spec"], impl_decisions=meta[0]["impl_decisions"]))
        for i in ctx.coq_bad_cases("moasha", IMPORTS, PRELUDE, "chk_seq", cases, shard=60):
            ctx.violation("correspondence", "model MOASHA decisions differ from implementation", case=meta[i],
                          failing_input=False, broken="correspondence chk_seq (model/Pareto.v moasha_on_trial_result)")
