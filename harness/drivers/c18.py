"""C18 — correspondence of model/Report.v with syne_tune/report.py (Reporter, retrieve),
util.dump_json_with_numpy and the way local_backend.py reads std.out, plus the independent
checker 'what was reported is what retrieve() returns' on the real code.

Case language (JSON-able, so that every case can be replayed):
  value spec : ["int", n] | ["float", hex|"nan"|"inf"|"-inf"] | ["str", s] | ["bool", b]
             | ["np", dtype, hex-or-int-or-bool] | ["list", [spec..]] | ["dict", [[key, spec]..]]
             | ["none"] | ["bad", kind] | ["big", n]
  event      : ["say", text] | ["call", [[key, spec]..]]
  sequence   : {"add_time": bool, "add_cost": bool, "events": [event..]}
"""
import contextlib
import glob
import io
import json
import math
import os
import sys
import tempfile
from unittest import mock

import numpy as np

from common import lst, blit, natlit, VERIF

TAGTXT = "tune-metric"
RESERVED = ("st_worker_timestamp", "st_worker_time", "st_worker_cost", "st_worker_iter")

IMPORTS = "From Verif Require Import model.Base model.Report.\nOpen Scope Z_scope.\n"

PRELUDE = r"""
Definition text_eqb := list_eqb Z.eqb.
Definition texts_eqb := list_eqb text_eqb.

(* (text with newlines already translated, f.readlines() of the real file, real regex groups) *)
Definition lines_case := (list Z * list (list Z) * list (list Z))%type.
Definition chk_lines (c : lines_case) : bool :=
  let '(t, lines, groups) := c in
  texts_eqb (readlines t) lines && texts_eqb (retrieve_model lines) groups && texts_eqb (findall t) groups &&
  texts_eqb (retrieve_model (map strip_nl lines)) groups.

(* JSON layer: (add_time, clock tokens, kwargs as JSON values, counter, real payload, real sys.getsizeof) *)
Definition json_case := (bool * (list Z * list Z * option (list Z)) * list (list Z * jvalue) * nat * list Z * Z)%type.
Definition chk_json (c : json_case) : bool :=
  let '(add_time, (ts, tm, cost), kw, k, payload, sz) := c in
  let v := report_dict add_time {| ck_timestamp := ts; ck_time := tm; ck_cost := cost |} kw k in
  jwf v && list_eqb Z.eqb (dumps v) payload && Z.eqb (ascii_str_sizeof payload) sz &&
  match loads payload with Some v' => jvalue_eqb v' v | None => false end &&
  (* what the abstract Reporter is told is what the concrete one computes *)
  match rq_dump (to_request add_time {| ck_timestamp := ts; ck_time := tm; ck_cost := cost |} kw) k with
  | Some (p, s) => list_eqb Z.eqb p payload && Z.eqb s sz
  | None => false
  end.

(* (message unserialisable, message too large, events, observed outcomes, captured stdout) *)
Definition sender_case := (list Z * list Z * list event * list outcome * list Z)%type.
Definition chk_sender (c : sender_case) : bool :=
  let '(m1, m2, evs, obs, captured) := c in
  let '(_, os, cs) := run_script m1 m2 reporter_init evs in
  list_eqb outcome_eqb os obs && text_eqb (render cs) captured &&
  (* the hypotheses of c18_framing / c18_end_to_end hold of the real stream, and so does the conclusion *)
  payloads_ok cs && noise_ok cs && texts_eqb (retrieve_model (readlines (render cs))) (payloads_of cs) &&
  (* wire format: every payload is ASCII-only (hypothesis of c18_encoding_independent) *)
  payloads_ascii cs.
"""


# --------------------------------------------------------------------------
# Coq literals
# --------------------------------------------------------------------------
def tx(s):
    return "(@nil Z)" if not s else "[" + ";".join(str(ord(c)) for c in s) + "]"


def txs(items):
    return "(@nil (list Z))" if not items else lst([tx(s) for s in items])


# --------------------------------------------------------------------------
# value specs
# --------------------------------------------------------------------------
NP_FLOAT = ["float16", "float32", "float64"]
NP_INT = ["int8", "int16", "int32", "int64", "uint8", "uint16", "uint32", "uint64"]
# values json cannot encode (before the fix 93fe890 of /repo these were silently written as null)
BAD_NULL = ["set", "ndarray", "object", "complex", "bytes", "np_bytes", "np_datetime64", "np_complex64", "frozenset"]
BAD_TYPEERROR = ["tuple_key"]

STRINGS = [
    "", "a", "}", "{", "}}", "{{", "]", "[", "\n", "\r\n", "\t", '"', "\\", "\\n", "'", ": ", TAGTXT,
    "[%s]: {" % TAGTXT, '[%s]: {"a": 1}' % TAGTXT, "[%s]: {}\n" % TAGTXT, "}\n[%s]: {" % TAGTXT,
    "é", "日本語", " ", "\x85", "\x0c", "\x00", "\x7f", "\U0001F600", "\ud800", "st_", "null", "NaN",
]


def gen_string(rng):
    k = rng.choice([1, 1, 2, 3, 5])
    return "".join(rng.choice(STRINGS) for _ in range(k))


def gen_float_spec(rng):
    r = rng.random()
    if r < 0.12:
        return ["float", "nan"]
    if r < 0.2:
        return ["float", rng.choice(["inf", "-inf"])]
    if r < 0.3:
        return ["float", rng.choice([0.0, -0.0, 1e-320, 5e-324, 1.7976931348623157e308, 0.1, 1 / 3]).hex()]
    return ["float", (rng.uniform(-10, 10) * 10 ** rng.randint(-20, 20)).hex()]


def gen_np_spec(rng):
    r = rng.random()
    if r < 0.45:
        dt = rng.choice(NP_FLOAT)
        v = rng.choice(["nan", "inf", "-inf", (0.1).hex(), (-0.0).hex(), rng.uniform(-100, 100).hex(), (1.0).hex()])
        return ["np", dt, v]
    if r < 0.85:
        dt = rng.choice(NP_INT)
        info = np.iinfo(dt)
        v = rng.choice([int(info.min), int(info.max), 0, 1, rng.randint(int(info.min), int(info.max))])
        return ["np", dt, v]
    if r < 0.95:
        return ["np", "bool_", rng.random() < 0.5]
    return ["np", "str_", gen_string(rng)]


def gen_value(rng, depth=0):
    r = rng.random()
    if depth < 3 and r < 0.12:
        return ["list", [gen_value(rng, depth + 1) for _ in range(rng.randint(0, 3))]]
    if depth < 3 and r < 0.24:
        keys = []
        for _ in range(rng.randint(0, 3)):
            k = rng.choice(PARAM_NAMES + ["self"]) if rng.random() < 0.15 else gen_string(rng)
            if k not in keys:
                keys.append(k)
        return ["dict", [[k, gen_value(rng, depth + 1)] for k in keys]]
    if r < 0.4:
        return ["str", gen_string(rng)]
    if r < 0.52:
        return ["int", rng.choice([0, 1, -1, 2 ** 63, -2 ** 70, rng.randint(-1000, 1000)])]
    if r < 0.68:
        return gen_float_spec(rng)
    if r < 0.74:
        return ["bool", rng.random() < 0.5]
    if depth > 0 and r < 0.77:
        return ["none"]  # None nested inside a container is plain JSON null (only top-level None is rejected)
    return gen_np_spec(rng)


def build(spec):
    """spec -> the Python object handed to Reporter"""
    k = spec[0]
    if k == "int":
        return int(spec[1])
    if k == "float":
        return float(spec[1]) if spec[1] in ("nan", "inf", "-inf") else float.fromhex(spec[1])
    if k == "str":
        return spec[1]
    if k == "bool":
        return bool(spec[1])
    if k == "none":
        return None
    if k == "big":
        return "x" * int(spec[1])
    if k == "bigu":   # a long string with one wide character in front or at the end
        return spec[2] + "x" * int(spec[1]) if spec[3] == "front" else "x" * int(spec[1]) + spec[2]
    if k == "np":
        dt, v = spec[1], spec[2]
        if dt == "bool_":
            return np.bool_(v)
        if dt == "str_":
            return np.str_(v)
        if dt.startswith("float"):
            f = float(v) if v in ("nan", "inf", "-inf") else float.fromhex(v)
            with np.errstate(all="ignore"):
                return getattr(np, dt)(f)
        return getattr(np, dt)(int(v))
    if k == "list":
        return [build(s) for s in spec[1]]
    if k == "dict":
        return {kk: build(s) for kk, s in spec[1]}
    if k == "bad":
        return {
            "set": lambda: {1, 2}, "frozenset": lambda: frozenset([1]), "ndarray": lambda: np.array([1.0, 2.0]),
            "object": lambda: object(), "complex": lambda: 1j, "bytes": lambda: b"ab",
            "np_bytes": lambda: np.bytes_(b"ab"), "np_datetime64": lambda: np.datetime64("2020-01-01"),
            "np_complex64": lambda: np.complex64(1j), "tuple_key": lambda: {(1, 2): 3},
        }[spec[1]]()
    raise ValueError(spec)


def expect(spec):
    """spec -> the plain Python object that has to arrive (numpy scalars -> plain numbers)"""
    k = spec[0]
    if k == "np":
        # np.str_ is a str subclass (json writes it as it is; .item() would strip trailing NULs)
        return spec[2] if spec[1] == "str_" else build(spec).item()
    if k == "list":
        return [expect(s) for s in spec[1]]
    if k == "dict":
        return {kk: expect(s) for kk, s in spec[1]}
    return build(spec)


def has_bad(spec):
    if spec[0] == "bad":
        return spec[1]
    if spec[0] == "list":
        for s in spec[1]:
            b = has_bad(s)
            if b:
                return b
    if spec[0] == "dict":
        for _, s in spec[1]:
            b = has_bad(s)
            if b:
                return b
    return None


def jterm(x):
    """plain Python value (what has to arrive) -> Coq term of type jvalue; numbers as the tokens Python prints"""
    if x is None:
        return "JNull"
    if isinstance(x, bool):
        return "(JBool %s)" % blit(x)
    if isinstance(x, int):
        return "(JNum %s)" % tx(str(x))
    if isinstance(x, float):
        tok = "NaN" if math.isnan(x) else ("Infinity" if x == math.inf else ("-Infinity" if x == -math.inf else float.__repr__(x)))
        return "(JNum %s)" % tx(tok)
    if isinstance(x, str):
        return "(JStr %s)" % tx(x)
    if isinstance(x, list):
        return "(JList %s)" % (lst([jterm(v) for v in x]) if x else "(@nil jvalue)")
    if isinstance(x, dict):
        return "(JDict %s)" % (lst(["(%s, %s)" % (tx(k), jterm(v)) for k, v in x.items()]) if x else "(@nil (list Z * jvalue))")
    raise ValueError(x)


def same(a, b):
    """deep equality, type-strict (bool/int/float/str kept apart), NaN == NaN, -0.0 != 0.0"""
    if type(a) is not type(b):
        return False
    if isinstance(a, float):
        if math.isnan(a) or math.isnan(b):
            return math.isnan(a) and math.isnan(b)
        return a == b and math.copysign(1, a) == math.copysign(1, b)
    if isinstance(a, list):
        return len(a) == len(b) and all(same(x, y) for x, y in zip(a, b))
    if isinstance(a, dict):
        return list(a.keys()) == list(b.keys()) and all(same(a[k], b[k]) for k in a)
    return a == b


# --------------------------------------------------------------------------
# generators
# --------------------------------------------------------------------------
NOISE_PIECES = [
    "a", "epoch 3 loss=0.5", " ", "\n", "\n", "\n\n", "\r\n", "\r", "{", "}", "} ", "{}", '{"a": 1}', "[", "]", "]: ", "]: {",
    ": {", "[tune-metri", "[tune-", "tune-", "metric", "-metric]: {", "tune_metric", "[tune-metric"[:-1], "une-metric",
    "é", "日本", " ", "\x85", "\x0c", "\t", '"', "\\", "st_worker_iter", "INFO:root:x", "100%|####|", "}}}", "\x00",
]
KEYS_OK = ["a", "loss", "epoch", "x y", "", "{", "}", "}\n", TAGTXT, "é", "ST_x", "xst_", "st", "s", "_st_", "[", '"', "\\",
           "日本", "k1", "k2", "k3", "st-", "St_a"]
# names of parameters / locals of the functions on the reporting path (Reporter.__call__ -> _report_logger ->
# _serialize_report_dict -> dump_json_with_numpy -> json.dumps / print): a metric may be called like that
PARAM_NAMES = ["tag", "kwargs", "file", "end", "sep", "flush", "level", "report_dict", "strict", "add_time", "add_cost", "obj",
               "default", "skipkeys", "indent", "x", "filename", "key", "args", "cls", "separators", "ensure_ascii", "e", "iter"]
KEYS_OK = KEYS_OK + PARAM_NAMES
KEYS_RESERVED = ["st_", "st_a", "st_worker_iter", "st_worker_time", "st_x}"]


def gen_noise(rng, acc):
    """a piece of other output; acc = noise already on the stream since the last delivered report.
    The whole run must not contain the metric tag (the property's premise)."""
    for _ in range(20):
        s = "".join(rng.choice(NOISE_PIECES) for _ in range(rng.choice([1, 1, 2, 3, 6])))
        if rng.random() < 0.5 and not s.endswith("\n"):
            s += "\n"
        if TAGTXT not in (acc + s).replace("\r", "\n") and TAGTXT not in acc + s:
            return s
    return "\n"


def gen_call(rng, kind):
    nkeys = rng.randint(1, 4)
    keys = []
    while len(keys) < nkeys:
        k = rng.choice(KEYS_OK)
        if k not in keys:
            keys.append(k)
    items = [[k, gen_value(rng)] for k in keys]
    if kind == "empty":
        items = []
    elif kind == "st_key":
        items[rng.randrange(len(items))][0] = rng.choice(KEYS_RESERVED)
    elif kind == "none":
        items[rng.randrange(len(items))][1] = ["none"]
    elif kind == "st_and_none":
        items[0][0] = rng.choice(KEYS_RESERVED)
        items[-1][1] = ["none"]
    elif kind == "bad_null":
        b = ["bad", rng.choice(BAD_NULL)]
        w = rng.random()
        items[rng.randrange(len(items))][1] = b if w < 0.5 else (["list", [["int", 1], b]] if w < 0.75 else ["dict", [["k", b]]])
    elif kind == "bad_typeerror":
        items[rng.randrange(len(items))][1] = ["bad", "tuple_key"]
    elif kind == "huge":
        items[rng.randrange(len(items))][1] = ["big", rng.choice([50000, 50100, 60000, 120000])]
    elif kind == "large_ok":
        items = [["a", ["big", rng.choice([10000, 40000, 49000, 49700])]]]
    elif kind == "large_wide":
        # far below the limit, one non-ASCII character (an escape of 6 or 12 characters on the wire)
        items = [["note", ["bigu", rng.choice([10000, 20000, 30000, 40000]),
                           rng.choice(["\U0001F600", "\u00e4", "\u4e2d", "\ud800", "\u2713"]), rng.choice(["front", "end"])]]]
    return ["call", items]


CALL_KINDS = (["ok"] * 14 + ["empty", "st_key", "st_key", "none", "none", "st_and_none", "bad_null", "bad_null",
                             "bad_typeerror", "huge", "large_ok", "large_wide"])


def gen_sequence(rng):
    add_time = rng.random() < 0.8
    add_cost = rng.random() < 0.8
    evs = []
    acc = ""
    for _ in range(rng.choice([1, 2, 3, 4, 6, 9])):
        r = rng.random()
        if r < 0.45:
            s = gen_noise(rng, acc)
            acc += s
            evs.append(["say", s])
        else:
            kind = rng.choice(CALL_KINDS)
            evs.append(gen_call(rng, kind))
            if kind in ("ok", "empty", "large_ok", "large_wide") and add_time:
                acc = ""
    return dict(add_time=add_time, add_cost=add_cost, events=evs)


def classify(items):
    """independent of the implementation: what the property says must happen to this report"""
    if any(k.startswith("st_") for k, _ in items) or any(s[0] == "none" for _, s in items):
        return "reject", "reserved_or_none"
    for _, s in items:
        b = has_bad(s)
        if b:
            return "reject", "unserialisable:" + b
    size = sum(s[1] for _, s in items if s[0] == "big")
    if size >= 50000:
        return "reject", "oversized"
    return "deliver", ""


# --------------------------------------------------------------------------
# running the real code
# --------------------------------------------------------------------------
def read_like_local_backend(text):
    """what LocalBackend.stdout() returns for a std.out holding [text]: open(path, "r").readlines()"""
    fd, path = tempfile.mkstemp(prefix="c18_", suffix=".out")
    try:
        with os.fdopen(fd, "wb") as f:
            f.write(text.encode("utf-8", "surrogatepass"))
        with open(path, "r", encoding="utf-8", errors="surrogatepass") as f:
            return f.readlines()
    finally:
        os.unlink(path)


def retrieve_with_groups(lines, passthrough=True):
    """real retrieve(lines) -> (result or None, raw regex groups seen by json.loads, exception or None)"""
    from syne_tune.report import retrieve
    seen = []
    orig = json.loads

    def spy(s, *a, **k):
        seen.append(s)
        if passthrough:
            return orig(s, *a, **k)
        try:
            return orig(s, *a, **k)
        except Exception:
            return None

    with mock.patch.object(json, "loads", spy):
        try:
            return retrieve(lines), seen, None
        except Exception as e:  # noqa
            return None, seen, e


def exc_kind(e):
    if e is None:
        return None
    if isinstance(e, AssertionError):
        return "AssertionErr"
    if isinstance(e, TypeError):
        return "TypeErr"
    return "Other:" + type(e).__name__


def run_sequence(ctx, seq, lines_cases, lines_meta, sender_cases, sender_meta, json_cases=None, json_meta=None):
    from syne_tune.report import Reporter
    from syne_tune.util import dump_json_with_numpy
    buf = io.StringIO()
    case = dict(kind="seq", seq=seq)
    with contextlib.redirect_stdout(buf):
        reporter = Reporter(add_time=seq["add_time"], add_cost=seq["add_cost"])
    expected = []       # dictionaries that must arrive, in order
    ev_terms, obs_terms = [], []
    msgs = {}
    nontrivial = False
    noise_same_line = False
    for ev in seq["events"]:
        before = buf.tell()
        if ev[0] == "say":
            with contextlib.redirect_stdout(buf):
                sys.stdout.write(ev[1])
            ev_terms.append("Say %s" % tx(ev[1]))
            ctx.h("event", "say_nl" if ev[1].endswith("\n") else "say_no_nl")
            if not ev[1].endswith("\n"):
                noise_same_line = True
            continue
        items = ev[1]
        want, why = classify(items)
        ctx.h("event", "call_" + (why.split(":")[0] or "ok"))
        kwargs = {k: build(s) for k, s in items}
        err = None
        with contextlib.redirect_stdout(buf):
            try:
                reporter(**kwargs)
            except RecursionError as e:
                err = e
            except Exception as e:  # noqa
                err = e
        delta = buf.getvalue()[before:]
        kind = exc_kind(err)
        # ---- independent checker, reporting side ------------------------------------------
        if want == "deliver":
            expected.append({k: expect(s) for k, s in items})
            if err is not None:
                if isinstance(err, AttributeError) and not seq["add_time"]:
                    sig = dict(component="Reporter", defect="iter_missing_when_add_time_false")
                else:
                    sig = dict(component="Reporter", defect="valid_report_rejected", exception=type(err).__name__)
                ctx.violation("property", "a JSON-serialisable report %r was not delivered: Reporter(add_time=%s) raised %s: %s"
                              % (items, seq["add_time"], type(err).__name__, str(err)[:200]), case=case, signature=sig)
                expected.pop()
        else:
            if err is None:
                if why.startswith("unserialisable"):
                    sig = dict(component="dump_json_with_numpy", defect="unserialisable_value_becomes_null",
                               value_type=why.split(":")[1])
                else:
                    sig = dict(component="Reporter", defect="invalid_report_accepted", reason=why)
                ctx.violation("property", "report %r (%s) must be rejected at the reporting side but was written to the stream as %r"
                              % (items, why, delta[:300]), case=case, signature=sig)
            elif TAGTXT in delta or (delta and not delta.endswith("\n")):
                ctx.violation("property", "a rejected report (%s) left a partial or tagged line on the stream: %r" % (why, delta[:200]),
                              case=case, signature=dict(component="Reporter", defect="partial_line_after_rejection"))
        # ---- what the model is told about this call (oracle values) ----------------------
        keys_t = lst([tx(k) for k, _ in items]) if items else "(@nil (list Z))"
        none_t = lst([blit(s[0] == "none") for _, s in items]) if items else "(@nil bool)"
        if err is None:
            payload = delta[len("[%s]: " % TAGTXT):-1] if delta.startswith("[%s]: " % TAGTXT) and delta.endswith("\n") else None
            it = None
            if payload is not None:
                try:
                    it = json.loads(payload).get("st_worker_iter")
                except Exception:
                    it = None
            if payload is None or not isinstance(it, int) or not (0 <= it < 4000):
                ctx.violation("property", "report %r returned without exception but printed %r, not one tagged line with its counter: "
                              "the tuner cannot receive it" % (items, delta[:300]), case=case,
                              signature=dict(component="Reporter", defect="accepted_report_not_a_tagged_line"))
                return
            dump = "fun _ => Some (%s, %d)" % (tx(payload), sys.getsizeof(payload))
            obs_terms.append("Emitted %s" % natlit(it))
            if want == "deliver" and len(payload) <= 1500 and json_cases is not None:
                try:
                    toks = json.loads(payload, parse_float=str, parse_int=str, parse_constant=str)
                    user = {k: expect(sp) for k, sp in items}
                    json_cases.append("(%s, (%s, %s, %s), %s, %s, %s, %d)" % (
                        blit("st_worker_time" in toks), tx(toks["st_worker_timestamp"]), tx(toks.get("st_worker_time", "0")),
                        ("(Some %s)" % tx(toks["st_worker_cost"])) if "st_worker_cost" in toks else "(@None (list Z))",
                        lst(["(%s, %s)" % (tx(k), jterm(v)) for k, v in user.items()]) if user else "(@nil (list Z * jvalue))",
                        natlit(it), tx(payload), sys.getsizeof(payload)))
                    json_meta.append(dict(kind="seq", seq=seq, payload=payload))
                except Exception:  # noqa
                    pass
            if sys.getsizeof(payload) > 8000:
                nontrivial = True
        else:
            if kind == "TypeErr":
                dump = "fun _ => None"
                msgs.setdefault("unser", delta)
            elif kind == "AssertionErr" and why == "oversized":
                lower = sys.getsizeof(dump_json_with_numpy({k: v for k, v in kwargs.items()}))
                dump = "fun _ => Some (@nil Z, %d)" % lower
                msgs.setdefault("large", delta)
            else:
                dump = "fun _ => Some (@nil Z, 0)"
            if kind.startswith("Other"):
                ctx.violation("correspondence", "report %r raised %s, an outcome the model does not have" % (str(items)[:200], kind),
                              case=case, failing_input=False, broken="correspondence chk_sender (model/Report.v report_call)")
                return
            obs_terms.append(kind)
            nontrivial = True
        ev_terms.append("Call {| rq_keys := %s; rq_none := %s; rq_dump := %s |}" % (keys_t, none_t, dump))
    text = buf.getvalue()
    # ---- receiver: read the stream as LocalBackend does, real retrieve --------------------
    lines = read_like_local_backend(text)
    got, groups, rerr = retrieve_with_groups(lines)
    n_calls = sum(1 for e in seq["events"] if e[0] == "call")
    strings_with_tag = TAGTXT in json.dumps([e[1] for e in seq["events"] if e[0] == "call"])
    if len(expected) >= 2 or strings_with_tag or (noise_same_line and expected):
        nontrivial = True
    ctx.count(("seq", seq), nontrivial=nontrivial)
    ctx.traces_validated += 1
    ctx.h("seq_reports_delivered", len(expected))
    ctx.h("stream_chars", min(len(text) // 200 * 200, 2000))
    # ---- independent checker, receiving side ----------------------------------------------
    accepted_bad = any(v["signature"].get("defect") in ("unserialisable_value_becomes_null", "invalid_report_accepted")
                       for v in ctx.violations if v["case"] is case)
    if rerr is not None:
        ctx.violation("property", "retrieve() raised %s: %s on the captured stream" % (type(rerr).__name__, str(rerr)[:200]),
                      case=case, signature=dict(component="retrieve", defect="exception", exception=type(rerr).__name__))
    elif not accepted_bad:
        stripped = [{k: v for k, v in d.items() if k not in RESERVED} for d in got]
        if len(stripped) != len(expected) or not all(same(a, b) for a, b in zip(stripped, expected)):
            first = next((i for i, (a, b) in enumerate(zip(stripped, expected)) if not same(a, b)), min(len(stripped), len(expected)))
            ctx.violation("property", "retrieve() returned %d dictionaries for %d delivered reports; first difference at %d: got %r, sent %r"
                          % (len(stripped), len(expected), first, stripped[first:first + 1], expected[first:first + 1]),
                          case=case, signature=dict(component="channel", defect="received_differs_from_sent"))
        iters = [d.get("st_worker_iter") for d in got]
        if not all(type(i) is int and i >= 0 for i in iters) or not all(a < b for a, b in zip(iters, iters[1:])):
            ctx.violation("property", "st_worker_iter is not a strictly increasing counter: %r" % iters, case=case,
                          signature=dict(component="Reporter", defect="counter_not_increasing"))
        for key in ("st_worker_timestamp",) + (("st_worker_time",) if seq["add_time"] else ()):
            ts = [d.get(key) for d in got]
            if not all(isinstance(t, float) for t in ts) or not all(a <= b for a, b in zip(ts, ts[1:])):
                ctx.violation("property", "%s is not a non-decreasing time stamp: %r" % (key, ts), case=case,
                              signature=dict(component="Reporter", defect="timestamps_decrease", key=key))
        if n_calls and expected and [i for i in iters] != list(range(len(iters))):
            ctx.h("counter", "with_gaps")
        elif expected:
            ctx.h("counter", "dense")
    # ---- the same text handed to retrieve as differently split lines ------------------------
    if rerr is None and got is not None:
        from syne_tune.report import retrieve as _retrieve
        stripped = [ln[:-1] if ln.endswith("\n") else ln for ln in lines]
        variants = {
            "no_terminators": stripped,                                     # str.splitlines() / one log message per element
            "split_on_newline": "".join(lines).split("\n"),                 # text.split("\n"): last element may be ""
            "rstripped": [ln.rstrip() for ln in lines],
            "mixed": [ln if i % 2 else st for i, (ln, st) in enumerate(zip(lines, stripped))],
            "one_element": ["".join(lines)],
        }
        for vname, vlines in variants.items():
            try:
                vgot = _retrieve(vlines)
                bad = not (len(vgot) == len(got) and all(same(a, b) for a, b in zip(vgot, got)))
                what = "returned %d reports instead of %d" % (len(vgot), len(got))
            except Exception as e:  # noqa
                bad, what = True, "raised %s: %s" % (type(e).__name__, str(e)[:100])
            ctx.h("line_variant", vname)
            if bad:
                ctx.violation("property", "retrieve on the same captured output handed over as %s lines %s; lines: %r"
                              % (vname, what, vlines[:6]), case=case,
                              signature=dict(component="retrieve", defect="depends_on_line_terminators", variant=vname))
                break
    # ---- parsing depends only on the output: parse, mutate the result in place, parse again ---
    if rerr is None and got:
        import copy
        from syne_tune.report import retrieve as _retrieve2
        try:
            first = _retrieve2(lines)
            snap = copy.deepcopy(first)

            def mutate(x):
                if isinstance(x, dict):
                    for v in list(x.values()):
                        mutate(v)
                    if x:
                        x.pop(next(iter(x)))
                    x["_mutated_by_receiver"] = 1
                elif isinstance(x, list):
                    for v in x:
                        mutate(v)
                    x.append("_mutated_by_receiver")
            for d_ in first:
                mutate(d_)

            def ids(x, acc):
                if isinstance(x, (dict, list)):
                    acc.add(id(x))
                    for v in (x.values() if isinstance(x, dict) else x):
                        ids(v, acc)
                return acc
            second = _retrieve2(lines)
            shared = ids(first, set()) & ids(second, set())
            differs = not (len(second) == len(snap) and all(same(a, b) for a, b in zip(second, snap)))
            if differs or shared:
                ctx.violation("property", "retrieve on the same captured output twice in one process: after the receiver changed the first "
                              "result in place (pop / annotate / append), the second parse %s: first parse was %r, second parse is %r"
                              % ("differs from what the output says" if differs else "shares %d mutable objects with the first" % len(shared),
                                 snap[:2], second[:2]), case=case,
                              signature=dict(component="retrieve", defect="result_depends_on_earlier_parse"))
        except Exception as e:  # noqa
            ctx.violation("property", "retrieve raised %s when the same captured output was parsed a second time" % type(e).__name__,
                          case=case, signature=dict(component="retrieve", defect="result_depends_on_earlier_parse", exception=type(e).__name__))
    # ---- correspondence with the model (evaluated in Coq below) ----------------------------
    if len(text) <= 2500 and (got is None or len(groups) == len(got)):
        translated = text.replace("\r\n", "\n").replace("\r", "\n")
        lines_cases.append("(%s, %s, %s)" % (tx(translated), txs(lines), txs(groups)))
        lines_meta.append(dict(kind="seq", seq=seq, lines=lines, groups=groups))
    elif got is not None and len(groups) != len(got):
        ctx.notes.append("json.loads spy saw %d groups for %d results: raw-group correspondence skipped" % (len(groups), len(got)))
    if len(text) <= 2500:
        sender_cases.append("(%s, %s, %s, %s, %s)" % (
            tx(msgs.get("unser", "")), tx(msgs.get("large", "")),
            lst(ev_terms) if ev_terms else "(@nil event)", lst(obs_terms) if obs_terms else "(@nil outcome)", tx(text)))
        sender_meta.append(dict(kind="seq", seq=seq, captured=text))
    ctx.sample(dict(kind="sequence", seq=seq, captured_stdout=text[:600], retrieved=repr(got)[:600]))


# --------------------------------------------------------------------------
# regex semantics on arbitrary (also forged) text
# --------------------------------------------------------------------------
FORGE_PIECES = [
    "[tune-metric]: {", "[tune-metric]: {", "[tune-metric]: ", "[tune-metric]:{", "[tune-metric]:  {", "[tune-metric]", "[tune-metri",
    "tune-metric]: {", "[tune-metric]: {}", '[tune-metric]: {"a": 1}', "[[tune-metric]: {", "[tune-metric]: [", "}", "}", "}}", "{",
    "{}", "\n", "\n", "\n\n", "\r", " ", "a", '"}"', "\\n", "é", " ", "\x85", "x}y", "} {", "[tune-metric]: {\n}", "]: {", "[",
]


def gen_forged(rng):
    if rng.random() < 0.4:
        return "".join(rng.choice(FORGE_PIECES) for _ in range(rng.choice([1, 2, 3, 5, 8, 12])))
    lines = []
    for _ in range(rng.randint(1, 4)):
        ln = rng.choice(["", "", "abc", "} ", "[tune-metri", "x{", "[", "\r"])
        for _ in range(rng.randint(0, 3)):
            ln += rng.choice(["[tune-metric]: {", "[tune-metric]: {", "[tune-metric]: {", "[tune-metric]: ", "[tune-metric]:{"])
            ln += rng.choice(['"a": 1', "", "}", '"b": {"c": 2}', "x", '"s": "[tune-metric]: {}"'])
            ln += rng.choice(["}", "}", "", "} tail", "}}", "} } ", "}\r"])
        lines.append(ln)
    return "\n".join(lines) + rng.choice(["", "\n"])


# --------------------------------------------------------------------------
# size limit at the exact boundary (needs the clock stubbed so that the payload length is known)
# --------------------------------------------------------------------------
def boundary_probe(ctx):
    import syne_tune.report as R
    from syne_tune.util import dump_json_with_numpy
    if not (hasattr(R, "time") and hasattr(R, "perf_counter")):
        ctx.notes.append("size boundary probe skipped: report.py no longer binds time/perf_counter at module level")
        return
    with mock.patch.object(R, "time", lambda: 1.5), mock.patch.object(R, "perf_counter", lambda: 0.25):
        buf = io.StringIO()
        with contextlib.redirect_stdout(buf):
            rep = R.Reporter()
            rep(a="x")
        first = buf.getvalue()
        payload = first[len("[tune-metric]: "):-1]
        overhead = len(payload) - len(dump_json_with_numpy({"a": "x"}))   # reserved keys, one-digit counter
        base = sys.getsizeof(dump_json_with_numpy({"a": ""})) + overhead
        for target, must in ((49999, "deliver"), (50000, "reject"), (49998, "deliver"), (50001, "reject")):
            n = target - base
            buf = io.StringIO()
            err = None
            with contextlib.redirect_stdout(buf):
                try:
                    rep(a="x" * n)
                except Exception as e:  # noqa
                    err = e
            out = buf.getvalue()
            ctx.count(("boundary", target), nontrivial=True)
            ctx.h("event", "boundary_" + must)
            case = dict(kind="boundary", target=target)
            if must == "deliver":
                ok = err is None and out.startswith("[tune-metric]: ") and sys.getsizeof(out[len("[tune-metric]: "):-1]) == target
            else:
                ok = isinstance(err, AssertionError) and TAGTXT not in out
            if not ok:
                ctx.violation("correspondence", "size limit: payload of sys.getsizeof %d expected to %s (limit: < 50000); got %s, output %r"
                              % (target, must, type(err).__name__, out[:80]), case=case, failing_input=False,
                              broken="correspondence size limit (model/Report.v SIZE_LIMIT)")


def notes_probes(ctx):
    """facts recorded in the evidence; not violations of C18"""
    from syne_tune.report import Reporter, retrieve
    buf = io.StringIO()
    with contextlib.redirect_stdout(buf):
        rep = Reporter()
        rep(a=1)
        try:
            rep(a="x" * 60000)
        except AssertionError:
            pass
        rep(a=2)
    its = [d["st_worker_iter"] for d in retrieve(buf.getvalue().splitlines(True))]
    ctx.notes.append("counter after an oversized report (theorem c18_counter_dense_refuted replayed): st_worker_iter = %r" % its)
    buf = io.StringIO()
    with contextlib.redirect_stdout(buf):
        try:
            Reporter()(a=np.longdouble(1.5))
            out = "accepted"
        except BaseException as e:  # noqa
            out = "raises " + type(e).__name__
    ctx.notes.append("np.longdouble value (its .item() is again a numpy scalar): Reporter %s, stream %r" % (out, buf.getvalue()[:80]))
    try:
        retrieve(['[tune-metric]: {"a": {"x": 1}, "st_wor'])
        ctx.notes.append("partially written last line with nested '}': retrieve returned normally")
    except Exception as e:  # noqa
        ctx.notes.append("partially written last line with nested '}' (outside C18: a complete report always ends with newline): "
                         "retrieve raises %s" % type(e).__name__)


# --------------------------------------------------------------------------
# the receiving side through the REAL LocalBackend, polling a growing std.out
# --------------------------------------------------------------------------
TRIAL_SCRIPT = r"""
import io, json, os, sys, time
from contextlib import redirect_stdout
from syne_tune import Reporter

args = dict(zip(sys.argv[1::2], sys.argv[2::2]))
sync_dir = args["--sync_dir"]
plan = json.load(open(args["--plan"]))

def wait_for(name):
    path = os.path.join(sync_dir, name)
    t0 = time.time()
    while not os.path.exists(path):
        if time.time() - t0 > 120:
            sys.exit(3)
        time.sleep(0.01)

def signal(name):
    open(os.path.join(sync_dir, name), "w").close()

TAGPRE = "[tune-metric]: "
report = Reporter()
for i, step in enumerate(plan):
    if step["op"] == "noise":
        os.write(1, step["text"].encode())
    elif step["op"] == "report":
        report(**step["kw"])
    else:
        buf = io.StringIO()
        with redirect_stdout(buf):
            report(**step["kw"])
        line = buf.getvalue()
        mode = step["cut"]
        if mode == "in_tag":
            cut = 6
        elif mode == "before_brace":
            cut = len(TAGPRE)
        elif mode == "after_brace":
            cut = len(TAGPRE) + 1
        elif mode == "after_nested":
            cut = line.index("}", len(TAGPRE)) + 1
        elif mode == "before_nl":
            cut = len(line) - 1
        else:
            cut = len(line) // 2
        os.write(1, line[:cut].encode())
        signal("half_%d" % i)
        wait_for("cont_%d" % i)
        os.write(1, line[cut:].encode())
signal("all_written")
wait_for("finish")
"""

CUT_MODES = ["in_tag", "before_brace", "after_brace", "mid", "before_nl", "after_nested"]


def gen_backend_plans(rng):
    """a handful of trials; every trial writes complete reports, other output, and reports whose line reaches
    std.out in two pieces with a poll in between"""
    plans = []
    for t, modes in enumerate([["mid", "after_nested"], ["in_tag", "before_nl"], ["before_brace", "after_brace"],
                               [rng.choice(CUT_MODES), rng.choice(CUT_MODES)]]):
        steps, ep = [], 0
        for mode in modes:
            for _ in range(rng.randint(0, 2)):
                ep += 1
                steps.append(dict(op="report", kw=dict(epoch=ep, loss=rng.randint(1, 99) / 128)))
            if rng.random() < 0.5:
                steps.append(dict(op="noise", text=rng.choice(["progress 50%", "x } y\n", "[tune-metri", "{\n"])))
            ep += 1
            kw = dict(epoch=ep, loss=rng.randint(1, 99) / 128)
            if mode == "after_nested" or rng.random() < 0.5:
                kw = dict(epoch=ep, info={"lr": {"v": rng.randint(1, 9)}, "s": rng.choice(["}", "a", "[tune-metric]: {"])},
                          loss=rng.randint(1, 99) / 128)
            steps.append(dict(op="split", kw=kw, cut=mode))
        ep += 1
        steps.append(dict(op="report", kw=dict(epoch=ep, loss=0.0)))
        plans.append(steps)
    return plans


def _wait(path, timeout=120):
    import time
    t0 = time.time()
    while not os.path.exists(path):
        if time.time() - t0 > timeout:
            return False
        time.sleep(0.01)
    return True


def backend_stream(ctx, plans):
    """Real LocalBackend, real subprocesses: fetch_status_results between the two halves of a report line and
    after. Independent checker: per trial, the concatenation over polls of the delivered reports equals what
    the script reported, in order, each once; a poll never raises."""
    import logging
    import shutil
    from syne_tune.backend import LocalBackend
    case = dict(kind="backend", plans=plans)
    tmp = tempfile.mkdtemp(prefix="c18_backend_")
    logging.getLogger("syne_tune").setLevel(logging.WARNING)
    try:
        script = os.path.join(tmp, "train_script.py")
        open(script, "w").write(TRIAL_SCRIPT)
        sink = io.StringIO()
        with contextlib.redirect_stdout(sink), contextlib.redirect_stderr(sink):
            backend = LocalBackend(entry_point=script, rotate_gpus=False)
            backend.set_path(results_root=os.path.join(tmp, "results"))
        trials = []
        for t, steps in enumerate(plans):
            sync = os.path.join(tmp, "sync%d" % t)
            os.makedirs(sync)
            planf = os.path.join(tmp, "plan%d.json" % t)
            json.dump(steps, open(planf, "w"))
            with contextlib.redirect_stdout(sink), contextlib.redirect_stderr(sink):
                trial = backend.start_trial(config={"sync_dir": sync, "plan": planf})
            trials.append((trial.trial_id, sync, steps))
        delivered = {tid: [] for tid, _, _ in trials}
        raised = []

        def poll(tid, where):
            try:
                _, results = backend.fetch_status_results([tid])
            except Exception as e:  # noqa
                raised.append((tid, where, type(e).__name__, str(e)[:120]))
                return
            for rid, m in results:
                delivered[rid].append(m)

        for tid, sync, steps in trials:
            for i, step in enumerate(steps):
                if step["op"] != "split":
                    continue
                if not _wait(os.path.join(sync, "half_%d" % i)):
                    ctx.notes.append("LocalBackend stream: trial script did not reach its marker (environment); stream skipped")
                    return
                poll(tid, step["cut"])            # the line of this report is only partly in std.out
                ctx.h("backend_poll", "mid_line_" + step["cut"])
                open(os.path.join(sync, "cont_%d" % i), "w").close()
            if not _wait(os.path.join(sync, "all_written")):
                ctx.notes.append("LocalBackend stream: trial script did not finish writing (environment); stream skipped")
                return
            poll(tid, "all_written")
            ctx.h("backend_poll", "complete")
        for tid, sync, steps in trials:
            open(os.path.join(sync, "finish"), "w").close()
        for tid, sync, steps in trials:
            proc = backend.trial_subprocess.get(tid)
            if proc is not None:
                proc.wait(timeout=60)
            poll(tid, "finished")
        for tid, sync, steps in trials:
            sent = [s["kw"] for s in steps if s["op"] != "noise"]
            got = [{k: v for k, v in m.items() if k not in RESERVED} for m in delivered[tid]]
            ctx.count(("backend", steps), nontrivial=True)
            ctx.traces_validated += 1
            if got != sent:
                ctx.violation("property", "LocalBackend: trial reported %r but the polls delivered %r (std.out holds every line intact)"
                              % (sent, got), case=case,
                              signature=dict(component="LocalBackend", defect="report_lost_or_duplicated_across_polls"))
        for tid, where, ename, msg in raised:
            if where in CUT_MODES:
                sig = dict(component="LocalBackend", defect="poll_during_partial_report_line_raises", exception=ename)
            else:
                sig = dict(component="LocalBackend", defect="poll_raises", exception=ename)
            ctx.violation("property", "LocalBackend.fetch_status_results raised %s (%s) when polled at '%s': a report line whose "
                          "first part (cut %s) was in std.out" % (ename, msg, where, where), case=case, signature=sig)
        ctx.sample(dict(kind="local_backend_stream", plan_of_trial_0=plans[0],
                        delivered_trial_0=[{k: v for k, v in m.items() if k not in RESERVED} for m in delivered[trials[0][0]]],
                        polls_that_raised=raised))
    finally:
        shutil.rmtree(tmp, ignore_errors=True)


# --------------------------------------------------------------------------
# reports followed by a hard death of the training process (real LocalBackend, default buffering)
# --------------------------------------------------------------------------
KILL_SCRIPT = r"""
import json, os, signal, sys, time
from syne_tune import Reporter

args = dict(zip(sys.argv[1::2], sys.argv[2::2]))
sync_dir = args["--sync_dir"]
plan = json.load(open(args["--plan"]))

def signal_file(name):
    open(os.path.join(sync_dir, name), "w").close()

report = Reporter()
if plan.get("noise"):
    print("starting to train")
for i, kw in enumerate(plan["reports"]):
    report(**kw)
    signal_file("made_%d" % i)     # side channel: this Reporter call has returned
mode = plan["mode"]
if mode == "os_exit":
    os._exit(1)
elif mode == "sigkill":
    os.kill(os.getpid(), signal.SIGKILL)
else:
    signal_file("ready")
    t0 = time.time()
    while time.time() - t0 < 120:  # killed by backend.stop_trial / pause_trial
        time.sleep(0.05)
"""

KILL_MODES = ["sigkill", "os_exit", "stop_trial", "pause_trial"]


def gen_kill_plans(rng):
    plans = []
    for mode in KILL_MODES:
        k = rng.choice([2, 3, 5])
        reps = [dict(epoch=i + 1, loss=rng.randint(1, 99) / 128, note="epoch {%d} done" % (i + 1)) for i in range(k)]
        plans.append(dict(mode=mode, reports=reps, noise=rng.random() < 0.5))
    return plans


def backend_kill_stream(ctx, plans):
    """Real LocalBackend trials (PYTHONUNBUFFERED removed from the child's environment) report a burst and then die
    without a regular interpreter shutdown, or are killed by stop_trial / pause_trial. Independent checker: every
    report whose Reporter call returned (side-channel marker files) is delivered / is in std.out, in order, once."""
    import logging
    import shutil
    import time
    from syne_tune.backend import LocalBackend
    from syne_tune.backend.trial_status import Status
    from syne_tune.report import retrieve
    case = dict(kind="backend_kill", plans=plans)
    tmp = tempfile.mkdtemp(prefix="c18_kill_")
    logging.getLogger("syne_tune").setLevel(logging.WARNING)
    saved = os.environ.pop("PYTHONUNBUFFERED", None)
    trials, backend = [], None
    try:
        script = os.path.join(tmp, "train_then_die.py")
        open(script, "w").write(KILL_SCRIPT)
        sink = io.StringIO()
        with contextlib.redirect_stdout(sink), contextlib.redirect_stderr(sink):
            backend = LocalBackend(entry_point=script, rotate_gpus=False)
            backend.set_path(results_root=os.path.join(tmp, "results"))
        for t, plan in enumerate(plans):
            sync = os.path.join(tmp, "sync%d" % t)
            os.makedirs(sync)
            planf = os.path.join(tmp, "plan%d.json" % t)
            json.dump(plan, open(planf, "w"))
            with contextlib.redirect_stdout(sink), contextlib.redirect_stderr(sink):
                trial = backend.start_trial(config={"sync_dir": sync, "plan": planf})
            trials.append((trial.trial_id, sync, plan))
        for tid, sync, plan in trials:
            delivered = []
            mode = plan["mode"]
            if mode in ("sigkill", "os_exit"):
                status = Status.in_progress
                t0 = time.time()
                while time.time() - t0 < 90:
                    st, res = backend.fetch_status_results([tid])
                    delivered += [m for _, m in res]
                    status = st[tid][1]
                    if status != Status.in_progress:
                        break
                    time.sleep(0.05)
                if status == Status.in_progress:
                    ctx.notes.append("kill stream: trial did not end (environment); skipped")
                    continue
                _, res = backend.fetch_status_results([tid])
                delivered += [m for _, m in res]
                where = "after the process died (%s)" % mode
            else:
                if not _wait(os.path.join(sync, "ready"), timeout=90):
                    ctx.notes.append("kill stream: trial script did not reach its marker (environment); skipped")
                    continue
                _, res = backend.fetch_status_results([tid])      # the script is alive and idle: everything reported is visible
                delivered += [m for _, m in res]
                where = "while the script was still running, all Reporter calls having returned"
            made = sum(1 for i in range(len(plan["reports"])) if os.path.exists(os.path.join(sync, "made_%d" % i)))
            sent = plan["reports"][:made]
            got = [{k: v for k, v in m.items() if k not in RESERVED} for m in delivered]
            ctx.count(("backend_kill", plan), nontrivial=True)
            ctx.traces_validated += 1
            ctx.h("backend_kill", "%s_k%d" % (mode, len(plan["reports"])))
            sig = dict(component="Reporter", defect="report_not_on_stream_when_call_returns", death=mode)
            if got != sent:
                ctx.violation("property", "LocalBackend trial (default stdout buffering): %d Reporter calls returned (%r) but "
                              "fetch_status_results delivered %r %s" % (made, sent, got, where), case=case, signature=sig)
            if mode in ("stop_trial", "pause_trial"):
                with contextlib.redirect_stdout(sink), contextlib.redirect_stderr(sink):
                    if mode == "stop_trial":
                        backend.stop_trial(tid)
                    else:
                        backend.pause_trial(tid)
                proc = backend.trial_subprocess.get(tid)
                if proc is not None:
                    proc.wait(timeout=60)
                final = [{k: v for k, v in m.items() if k not in RESERVED} for m in retrieve(backend.stdout(tid))]
                if final != sent:
                    ctx.violation("property", "LocalBackend trial killed by %s: %d Reporter calls had returned (%r) but std.out "
                                  "parses to %r" % (mode, made, sent, final), case=case, signature=sig)
        ctx.sample(dict(kind="local_backend_kill_stream", plans=plans))
    finally:
        if saved is not None:
            os.environ["PYTHONUNBUFFERED"] = saved
        for tid, _, _ in trials:
            proc = backend.trial_subprocess.get(tid)
            if proc is not None and proc.poll() is None:
                proc.kill()
        shutil.rmtree(tmp, ignore_errors=True)


# --------------------------------------------------------------------------
# polling a growing std.out at EVERY cut position: real LocalBackend vs poll_model / delivered_upto
# --------------------------------------------------------------------------
SLEEP_SCRIPT = r"""
import os, sys, time
args = dict(zip(sys.argv[1::2], sys.argv[2::2]))
t0 = time.time()
while not os.path.exists(os.path.join(args["--sync_dir"], "finish")) and time.time() - t0 < 120:
    time.sleep(0.05)
"""

POLL_PRELUDE = PRELUDE + r"""
Definition the_cs : list chunk := @CS@.
Definition the_text : list Z := @TEXT@.
(* (n, k): std.out held the first n characters; the real LocalBackend poll parsed the first k payloads *)
Definition chk_poll (c : nat * nat) : bool :=
  let '(n, k) := c in
  let want := firstn k (payloads_of the_cs) in
  text_eqb (render the_cs) the_text && payloads_ok the_cs && noise_ok the_cs &&
  texts_eqb (poll_model (firstn n the_text)) want && texts_eqb (delivered_upto the_cs n) want.
"""


def gen_poll_streams(rng):
    """[(chunks, sent)] with chunks = [("noise", text) | ("report", kwargs)]; the text is produced by the real Reporter"""
    fixed = [("noise", "noise {"), ("report", dict(a=1)), ("report", dict(b={"c": {"d": 2}}, s="}")), ("noise", "x}\n[tune-metri"),
             ("report", dict(t="[tune-metric]: {}", n=[1, {"x": 2}])), ("noise", "tail } without newline")]
    streams = [fixed]
    for _ in range(30):
        chunks, acc = [], ""
        for _ in range(rng.randint(3, 6)):
            if rng.random() < 0.45:
                s = gen_noise(rng, acc)
                if "\r" in s:
                    continue
                acc += s
                chunks.append(("noise", s))
            else:
                kw = {}
                for k in rng.sample(["a", "loss", "}", "x y", TAGTXT, "é"], rng.randint(1, 2)):
                    kw[k] = rng.choice([1, 0.5, "}", {"n": {"m": 1}}, [1, {"z": "}"}], "[tune-metric]: {", float("inf"), True, "é{"])
                chunks.append(("report", kw))
                acc = ""
        if any(c[0] == "report" for c in chunks):
            streams.append(chunks)
            break
    return streams


def polling_stream(ctx, streams):
    import logging
    import shutil
    from syne_tune.backend import LocalBackend
    from syne_tune.report import Reporter
    tmp = tempfile.mkdtemp(prefix="c18_poll_")
    logging.getLogger("syne_tune").setLevel(logging.WARNING)
    backend, trials = None, []
    try:
        script = os.path.join(tmp, "sleeper.py")
        open(script, "w").write(SLEEP_SCRIPT)
        sink = io.StringIO()
        with contextlib.redirect_stdout(sink), contextlib.redirect_stderr(sink):
            backend = LocalBackend(entry_point=script, rotate_gpus=False)
            backend.set_path(results_root=os.path.join(tmp, "results"))
        for si, chunks in enumerate(streams):
            sync = os.path.join(tmp, "sync%d" % si)
            os.makedirs(sync)
            with contextlib.redirect_stdout(sink), contextlib.redirect_stderr(sink):
                trial = backend.start_trial(config={"sync_dir": sync})
            trials.append((trial.trial_id, sync))
        for (tid, sync), chunks in zip(trials, streams):
            case = dict(kind="poll", chunks=[[c[0], c[1]] for c in chunks])
            # the stream, written by the real Reporter
            buf = io.StringIO()
            cs_terms, ends, sent, payloads = [], [], [], []
            with contextlib.redirect_stdout(buf):
                rep = Reporter()
                for kind, v in chunks:
                    if kind == "noise":
                        sys.stdout.write(v)
                        cs_terms.append("Noise %s" % tx(v))
                    else:
                        before = buf.tell()
                        rep(**v)
                        line = buf.getvalue()[before:]
                        payloads.append(line[len("[%s]: " % TAGTXT):-1])
                        cs_terms.append("Report %s" % tx(payloads[-1]))
                        ends.append(buf.tell())
                        sent.append(json.loads(json.dumps(v)))
            text = buf.getvalue()
            path = str(backend.trial_path(tid) / "std.out")
            delivered, cases, bad = [], [], None
            for n in range(len(text) + 1):
                if n > 0:
                    with open(path, "ab") as f:          # the training script's output grows by one character
                        f.write(text[n - 1].encode("utf-8"))
                seen = []
                orig = json.loads

                def spy(s_, *a, **k):
                    seen.append(s_)
                    return orig(s_, *a, **k)

                try:
                    with mock.patch.object(json, "loads", spy):
                        _, res = backend.fetch_status_results([tid])
                except Exception as e:  # noqa
                    ctx.violation("property", "LocalBackend.fetch_status_results raised %s (%s) with the first %d characters %r of the "
                                  "stream in std.out" % (type(e).__name__, str(e)[:100], n, text[max(0, n - 60):n]), case=case,
                                  signature=dict(component="LocalBackend", defect="poll_during_partial_report_line_raises",
                                                 exception=type(e).__name__))
                    bad = n
                    break
                delivered += [{k: v for k, v in m.items() if k not in RESERVED} for _, m in res]
                want = [kw for kw, e in zip(sent, ends) if e <= n]
                if len(delivered) == len(want) + 1 and n + 1 in ends:
                    want = [kw for kw, e in zip(sent, ends) if e <= n + 1]   # complete payload, only its newline missing: also fine
                ctx.count(("poll", chunks, n), nontrivial=n not in ends and n > 0)
                if not (len(delivered) == len(want) and all(same(a, b) for a, b in zip(delivered, want))):
                    ctx.violation("property", "LocalBackend polled with the first %d characters of the stream in std.out: delivered so far %r, "
                                  "reports completely written so far %r" % (n, delivered, want), case=case,
                                  signature=dict(component="LocalBackend", defect="report_lost_or_duplicated_across_polls"))
                    bad = n
                    break
                k = len(seen)
                if seen != payloads[:k]:
                    if any(x not in payloads for x in seen):
                        ctx.violation("correspondence", "LocalBackend poll at %d parsed %r, not a prefix of the payloads" % (n, seen),
                                      case=case, failing_input=False, broken="correspondence chk_poll (model/Report.v poll_model)")
                        bad = n
                        break
                    k = None       # json.loads is used for something else too: raw-group comparison not possible
                if k is not None:
                    cases.append((n, k))
            ctx.h("poll_stream_chars", len(text) // 100 * 100)
            ctx.h("poll_positions", "polled", len(text) + 1)
            ctx.traces_validated += 1
            if cases:
                prelude = POLL_PRELUDE.replace("@CS@", lst(cs_terms)).replace("@TEXT@", tx(text))
                terms = ["(%s, %s)" % (natlit(n), natlit(k)) for n, k in cases]
                for i in ctx.coq_bad_cases("poll%d" % trials.index((tid, sync)), IMPORTS, prelude, "chk_poll", terms, shard=400):
                    ctx.violation("correspondence", "model poll_model / delivered_upto differs from the real LocalBackend poll at cut %d "
                                  "(real parsed %d payloads)" % cases[i], case=dict(case, cut=cases[i][0]), failing_input=False,
                                  broken="correspondence chk_poll (model/Report.v poll_model, delivered_upto)")
            ctx.sample(dict(kind="polling_stream", chunks=case["chunks"], stream=text[:400], polls=len(text) + 1))
    finally:
        for tid, sync in trials:
            open(os.path.join(sync, "finish"), "w").close()
        for tid, sync in trials:
            proc = backend.trial_subprocess.get(tid) if backend else None
            if proc is not None:
                try:
                    proc.wait(timeout=10)
                except Exception:  # noqa
                    proc.kill()
        shutil.rmtree(tmp, ignore_errors=True)


# --------------------------------------------------------------------------
# a trial writes its last reports and exits INSIDE one fetch_status_results call (real LocalBackend,
# harness-side subclass hooking the public stdout() method)
# --------------------------------------------------------------------------
GATE_SCRIPT = r"""
import json, os, sys, time
from syne_tune import Reporter

args = dict(zip(sys.argv[1::2], sys.argv[2::2]))
sync_dir = args["--sync_dir"]
plan = json.load(open(args["--plan"]))

def signal_file(name):
    open(os.path.join(sync_dir, name), "w").close()

report = Reporter()
print("starting up")
for i, kw in enumerate(plan["reports"]):
    if i == plan["before_gate"]:
        t0 = time.time()
        while not os.path.exists(os.path.join(sync_dir, "gate")) and time.time() - t0 < 120:
            time.sleep(0.01)
    report(**kw)
    signal_file("made_%d" % i)
if plan.get("tail"):
    print("done", end="")
sys.exit(plan.get("exit_code", 0))
"""


def gen_gate_plans(rng):
    plans = []
    for exit_code in (0, 0, 1):
        k1, k2 = rng.randint(1, 3), rng.randint(1, 3)
        reps = [dict(epoch=i + 1, loss=rng.randint(1, 99) / 128) for i in range(k1 + k2)]
        plans.append(dict(reports=reps, before_gate=k1, exit_code=exit_code, tail=rng.random() < 0.5))
    return plans


def gated_stream(ctx, plans):
    """What the tuner does: poll the running trials (one fetch_status_results call for all of them) and stop
    polling a trial once it is reported completed / failed. While std.out of a trial is being read inside a
    call, the trial writes its last reports and exits. Independent checker: the reports delivered by the
    polls up to and including the one that reports the final status are all reports the script made."""
    import logging
    import shutil
    import time
    from syne_tune.backend import LocalBackend
    from syne_tune.backend.trial_status import Status
    case = dict(kind="gated", plans=plans)
    tmp = tempfile.mkdtemp(prefix="c18_gate_")
    logging.getLogger("syne_tune").setLevel(logging.WARNING)

    class GatedLocalBackend(LocalBackend):
        gates = {}      # trial_id -> (sync dir, number of reports before the gate); removed once used

        def stdout(self, trial_id):
            lines = super().stdout(trial_id)
            g = self.gates.get(trial_id)
            if g is None:
                return lines
            sync, k1 = g
            if sum(1 for x in lines if TAGTXT in x and x.endswith("\n")) < k1:
                return lines
            # this content is being processed ... and meanwhile the script goes on and terminates
            del self.gates[trial_id]
            open(os.path.join(sync, "gate"), "w").close()
            proc = self.trial_subprocess.get(trial_id)
            if proc is not None:
                proc.wait(timeout=60)
            return lines

    backend, trials = None, []
    try:
        script = os.path.join(tmp, "train_script.py")
        open(script, "w").write(GATE_SCRIPT)
        sink = io.StringIO()
        with contextlib.redirect_stdout(sink), contextlib.redirect_stderr(sink):
            backend = GatedLocalBackend(entry_point=script, rotate_gpus=False)
            backend.set_path(results_root=os.path.join(tmp, "results"))
        for t, plan in enumerate(plans):
            sync = os.path.join(tmp, "sync%d" % t)
            os.makedirs(sync)
            planf = os.path.join(tmp, "plan%d.json" % t)
            json.dump(plan, open(planf, "w"))
            with contextlib.redirect_stdout(sink), contextlib.redirect_stderr(sink):
                trial = backend.start_trial(config={"sync_dir": sync, "plan": planf})
            trials.append((trial.trial_id, sync, plan))
            backend.gates[trial.trial_id] = (sync, plan["before_gate"])
        running = {tid for tid, _, _ in trials}
        delivered = {tid: [] for tid in running}
        final = {}
        t0 = time.time()
        while running and time.time() - t0 < 90:
            st, res = backend.fetch_status_results(sorted(running))
            for rid, m in res:
                delivered[rid].append(m)
            for tid, (_, status) in st.items():
                if status != Status.in_progress:
                    final[tid] = status
                    running.discard(tid)          # Tuner.run never polls this trial again
            time.sleep(0.02)
        if running:
            ctx.notes.append("gated stream: trials did not end (environment); skipped")
            return
        for tid, sync, plan in trials:
            made = sum(1 for i in range(len(plan["reports"])) if os.path.exists(os.path.join(sync, "made_%d" % i)))
            sent = plan["reports"][:made]
            got = [{k: v for k, v in m.items() if k not in RESERVED} for m in delivered[tid]]
            ctx.count(("gated", plan), nontrivial=True)
            ctx.traces_validated += 1
            ctx.h("gated", "exit_%d" % plan["exit_code"])
            if got != sent:
                ctx.violation("property", "LocalBackend trial wrote its last reports and exited while its std.out was being read inside "
                              "a fetch_status_results call: the script made %r, but the polls up to and including the one reporting the "
                              "trial as %s delivered %r (the tuner never polls the trial again)" % (sent, final[tid], got), case=case,
                              signature=dict(component="LocalBackend", defect="final_status_with_incomplete_reports"))
        ctx.sample(dict(kind="gated_stream", plans=plans, final={str(k): str(v) for k, v in final.items()}))
    finally:
        for tid, sync, _ in trials:
            open(os.path.join(sync, "gate"), "w").close()
            proc = backend.trial_subprocess.get(tid) if backend else None
            if proc is not None and proc.poll() is None:
                try:
                    proc.wait(timeout=10)
                except Exception:  # noqa
                    proc.kill()
        shutil.rmtree(tmp, ignore_errors=True)


# --------------------------------------------------------------------------
# non-ASCII keys / values through streams with an explicit encoding
# --------------------------------------------------------------------------
UNI = ["ä", "café", "中文", "\U0001F600", "\ud800", "bad \udfff x", "✓", "naïve \U0001F600", "€",
       "\u0081", "ÿ}", "{日本", "[tune-metric]: {é", " ", "plain"]


def gen_enc_case(rng):
    reports = []
    for _ in range(rng.randint(1, 3)):
        items = []
        for k in rng.sample(["name", "tags", rng.choice(UNI), "k " + rng.choice(UNI)], rng.randint(1, 3)):
            v = rng.choice([["str", rng.choice(UNI)], ["str", rng.choice(UNI) + rng.choice(UNI)],
                            ["list", [["str", rng.choice(UNI)], ["int", 1]]],
                            ["dict", [[rng.choice(UNI), ["str", rng.choice(UNI)]]]], ["np", "str_", rng.choice(UNI)],
                            ["float", "nan"]])
            items.append([k, v])
        reports.append(items)
    w = rng.choice(["ascii", "latin-1", "utf-8", "cp1252"])
    return dict(reports=reports, w=w, r=rng.choice([w, "utf-8"]))


def encoded_stream(ctx, cases):
    """Reporter writes to a real encoding text stream (what sys.stdout of a training script is); the tuner decodes
    the bytes; the other output is plain ASCII. Every report must arrive unchanged whatever the two encodings."""
    from syne_tune.report import Reporter, retrieve
    for c in cases:
        case = dict(kind="enc", enc=c)
        raw = io.BytesIO()
        stream = io.TextIOWrapper(raw, encoding=c["w"], newline="\n")
        err = None
        sent = []
        with contextlib.redirect_stdout(stream):
            rep = Reporter()
            for items in c["reports"]:
                print("some other output { ... ")
                try:
                    rep(**{k: build(v) for k, v in items})
                    sent.append({k: expect(v) for k, v in items})
                except Exception as e:  # noqa
                    err = (items, e)
                    break
            try:
                stream.flush()
            except Exception as e:  # noqa
                err = err or (c["reports"][-1], e)
        ctx.count(("enc", c), nontrivial=True)
        ctx.traces_validated += 1
        ctx.h("enc_stream", "%s->%s" % (c["w"], c["r"]))
        sig = dict(component="Reporter", defect="report_depends_on_stream_encoding", write_encoding=c["w"])
        if err is not None:
            ctx.violation("property", "a JSON-serialisable report %r could not be written to a stdout with encoding %s: %s: %s"
                          % (err[0], c["w"], type(err[1]).__name__, str(err[1])[:160]), case=case,
                          signature=dict(sig, exception=type(err[1]).__name__))
            continue
        try:
            text = raw.getvalue().decode(c["r"])
            got = [{k: v for k, v in d.items() if k not in RESERVED} for d in retrieve(text.splitlines(True))]
        except Exception as e:  # noqa
            ctx.violation("property", "reports %r written with encoding %s cannot be read back with encoding %s: %s: %s"
                          % (c["reports"], c["w"], c["r"], type(e).__name__, str(e)[:160]), case=case,
                          signature=dict(sig, read_encoding=c["r"], exception=type(e).__name__))
            continue
        if not (len(got) == len(sent) and all(same(a, b) for a, b in zip(got, sent))):
            ctx.violation("property", "reports written with encoding %s and read with %s arrive changed: sent %r, received %r"
                          % (c["w"], c["r"], sent, got), case=case, signature=dict(sig, read_encoding=c["r"]))
    if cases:
        ctx.sample(dict(kind="encoded_stream", case=cases[0]))


ASCII_SCRIPT = r"""
import json, sys
from syne_tune import Reporter
args = dict(zip(sys.argv[1::2], sys.argv[2::2]))
report = Reporter()
print("starting")
for kw in json.load(open(args["--plan"])):
    report(**kw)
    print("in between")
"""


def ascii_stdout_backend(ctx, reports):
    """end to end: a LocalBackend trial whose stdout is ASCII (PYTHONIOENCODING=ascii, i.e. LANG=C on a cluster)"""
    import logging
    import shutil
    import time
    from syne_tune.backend import LocalBackend
    from syne_tune.backend.trial_status import Status
    case = dict(kind="ascii_backend", reports=reports)
    tmp = tempfile.mkdtemp(prefix="c18_ascii_")
    logging.getLogger("syne_tune").setLevel(logging.WARNING)
    saved = os.environ.get("PYTHONIOENCODING")
    backend = tid = None
    try:
        script = os.path.join(tmp, "train_script.py")
        open(script, "w").write(ASCII_SCRIPT)
        planf = os.path.join(tmp, "plan.json")
        json.dump(reports, open(planf, "w"))
        sink = io.StringIO()
        with contextlib.redirect_stdout(sink), contextlib.redirect_stderr(sink):
            backend = LocalBackend(entry_point=script, rotate_gpus=False)
            backend.set_path(results_root=os.path.join(tmp, "results"))
            os.environ["PYTHONIOENCODING"] = "ascii"
            try:
                tid = backend.start_trial(config={"plan": planf}).trial_id
            finally:
                if saved is None:
                    os.environ.pop("PYTHONIOENCODING", None)
                else:
                    os.environ["PYTHONIOENCODING"] = saved
        got, status, t0 = [], Status.in_progress, time.time()
        while time.time() - t0 < 90:
            st, res = backend.fetch_status_results([tid])
            got += [{k: v for k, v in m.items() if k not in RESERVED} for _, m in res]
            status = st[tid][1]
            if status != Status.in_progress:
                break
            time.sleep(0.05)
        if status == Status.in_progress:
            ctx.notes.append("ascii stdout stream: trial did not end (environment); skipped")
            return
        ctx.count(("ascii_backend", reports), nontrivial=True)
        ctx.traces_validated += 1
        if status != Status.completed or not (len(got) == len(reports) and all(same(a, b) for a, b in zip(got, reports))):
            stderr = "".join(backend.stderr(tid))[-300:]
            ctx.violation("property", "LocalBackend trial with ASCII stdout (PYTHONIOENCODING=ascii) reported %r; it ended as %s and "
                          "the tuner received %r; stderr: %s" % (reports, status, got, stderr), case=case,
                          signature=dict(component="Reporter", defect="report_depends_on_stream_encoding", write_encoding="ascii",
                                         where="LocalBackend"))
    finally:
        proc = backend.trial_subprocess.get(tid) if backend is not None and tid is not None else None
        if proc is not None and proc.poll() is None:
            proc.kill()
        shutil.rmtree(tmp, ignore_errors=True)


# --------------------------------------------------------------------------
# pause -> resume on the real LocalBackend, payloads containing the tag
# --------------------------------------------------------------------------
RESUME_SCRIPT = r"""
import json, os, sys, time
from syne_tune import Reporter

args = dict(zip(sys.argv[1::2], sys.argv[2::2]))
sync_dir = args["--sync_dir"]
plan = json.load(open(args["--plan"]))

def signal_file(name):
    open(os.path.join(sync_dir, name), "w").close()

def wait_for(name):
    t0 = time.time()
    while not os.path.exists(os.path.join(sync_dir, name)) and time.time() - t0 < 120:
        time.sleep(0.01)

report = Reporter()
if not os.path.exists(os.path.join(sync_dir, "run1_started")):
    signal_file("run1_started")
    print("starting the first run [tune-metri")
    for kw in plan["run1"]:
        report(**kw)
    signal_file("run1_reported")
    if plan["late"] is not None:
        wait_for("go_late")                 # after the tuner's last poll of this run
        report(**plan["late"])
        signal_file("late_done")
    time.sleep(120)                         # "training" until paused (killed)
else:
    print("resumed from checkpoint")
    for kw in plan["run2"]:
        report(**kw)
"""

TAGGY = ["first run [tune-metric]: {epoch 1}", "[tune-metric]: {", "x [tune-metric]: {} [tune-metric]: {\"a\": 1}",
         "tune-metric", "[tune-metric]: ", "plain", "}", "{[tune-metric]: }\n[tune-metric]: {"]


def gen_resume_plans(rng):
    plans = []
    for idx, late in enumerate((False, True, rng.random() < 0.5)):
        ep = [0]

        def rep():
            ep[0] += 1
            kw = dict(epoch=ep[0], note=rng.choice(TAGGY))
            if rng.random() < 0.4:
                kw["info"] = {rng.choice(TAGGY): [rng.choice(TAGGY)]}
            return kw
        # trial 0: paused after exactly ONE report (promotion at grace period 1): the resumed run's first report
        # carries the same counter value 0 as the last report of run 1 (the counter restarts in every process)
        run1 = [rep() for _ in range(1 if idx == 0 else rng.choice([1, 1, 2, 3]))]
        late_kw = rep() if late else None
        run2 = [rep() for _ in range(rng.randint(1, 3))]
        plans.append(dict(run1=run1, late=late_kw, run2=run2))
    return plans


def resume_stream(ctx, plans):
    """run 1 reports (string values containing the tag), poll, [a late report after the last poll], pause_trial,
    resume_trial, run 2 reports more. Independent checker: before the pause exactly run 1's reports were delivered;
    after the resume every report of run 2 is delivered, in order, once, and nothing delivered before comes again."""
    import logging
    import shutil
    import time
    from syne_tune.backend import LocalBackend
    from syne_tune.backend.trial_status import Status
    case = dict(kind="resume", plans=plans)
    tmp = tempfile.mkdtemp(prefix="c18_resume_")
    logging.getLogger("syne_tune").setLevel(logging.WARNING)
    backend, trials = None, []
    strip = lambda ms: [{k: v for k, v in m.items() if k not in RESERVED} for m in ms]  # noqa
    try:
        script = os.path.join(tmp, "train_script.py")
        open(script, "w").write(RESUME_SCRIPT)
        sink = io.StringIO()
        with contextlib.redirect_stdout(sink), contextlib.redirect_stderr(sink):
            backend = LocalBackend(entry_point=script, rotate_gpus=False)
            backend.set_path(results_root=os.path.join(tmp, "results"))
        for t, plan in enumerate(plans):
            sync = os.path.join(tmp, "sync%d" % t)
            os.makedirs(sync)
            planf = os.path.join(tmp, "plan%d.json" % t)
            json.dump(plan, open(planf, "w"))
            with contextlib.redirect_stdout(sink), contextlib.redirect_stderr(sink):
                trial = backend.start_trial(config={"sync_dir": sync, "plan": planf})
            trials.append((trial.trial_id, sync, plan))
        for tid, sync, plan in trials:
            if not _wait(os.path.join(sync, "run1_reported"), timeout=90):
                ctx.notes.append("resume stream: trial script did not reach its marker (environment); skipped")
                return
            _, res = backend.fetch_status_results([tid])
            first = [m for _, m in res]
            if plan["late"] is not None:
                open(os.path.join(sync, "go_late"), "w").close()
                if not _wait(os.path.join(sync, "late_done"), timeout=60):
                    ctx.notes.append("resume stream: late report not made (environment); skipped")
                    return
            with contextlib.redirect_stdout(sink), contextlib.redirect_stderr(sink):
                backend.pause_trial(tid)
                proc = backend.trial_subprocess.get(tid)
                if proc is not None:
                    proc.wait(timeout=60)
                backend.resume_trial(tid)
            second, status, t0 = [], Status.in_progress, time.time()
            while time.time() - t0 < 90:
                st, res = backend.fetch_status_results([tid])
                second += [m for _, m in res]
                status = st[tid][1]
                if status != Status.in_progress:
                    break
                time.sleep(0.05)
            _, res = backend.fetch_status_results([tid])
            second += [m for _, m in res]
            if status == Status.in_progress:
                ctx.notes.append("resume stream: resumed run did not end (environment); skipped")
                continue
            ctx.count(("resume", plan), nontrivial=True)
            ctx.traces_validated += 1
            ctx.h("resume", "late_report" if plan["late"] is not None else "no_late_report")
            got1, got2 = strip(first), strip(second)
            if plan["late"] is not None and got2[:1] == [plan["late"]]:
                got2 = got2[1:]     # the late report of run 1 was never delivered before; whether it may come now is C02's matter
            if got1 != plan["run1"] or got2 != plan["run2"]:
                ctx.violation("property", "LocalBackend pause/resume: run 1 reported %r (delivered before the pause: %r)%s; the resumed run "
                              "reported %r, but after resume_trial the polls delivered %r"
                              % (plan["run1"], got1, "" if plan["late"] is None else ", then %r after the last poll" % plan["late"],
                                 plan["run2"], strip(second)), case=case,
                              signature=dict(component="LocalBackend", defect="reports_lost_or_repeated_after_resume"))
        ctx.sample(dict(kind="resume_stream", plans=plans))
    finally:
        for tid, _, _ in trials:
            proc = backend.trial_subprocess.get(tid) if backend else None
            if proc is not None and proc.poll() is None:
                proc.kill()
        shutil.rmtree(tmp, ignore_errors=True)


def name_collision_probe(ctx):
    """every name of PARAM_NAMES (and 'self') as a top-level metric name: the report arrives with that entry, or is
    rejected by an exception with nothing written; the report after it arrives with the next counter value"""
    from syne_tune.report import Reporter, retrieve
    for name in PARAM_NAMES + ["self"]:
        for value in ("resnet-18", 1.5):
            case = dict(kind="name", name=name, value=value)
            buf = io.StringIO()
            err = None
            with contextlib.redirect_stdout(buf):
                rep = Reporter()
                rep(epoch=0)
                try:
                    rep(**{name: value, "epoch": 1})
                except TypeError as e:
                    err = e
                rep(epoch=2)
            ctx.count(("name", name, value), nontrivial=True)
            ctx.h("metric_name", "rejected_by_python" if err is not None else "reported")
            try:
                got = retrieve(read_like_local_backend(buf.getvalue()))
            except Exception as e:  # noqa
                ctx.violation("property", "retrieve raised %s after a report with a metric named %r" % (type(e).__name__, name),
                              case=case, signature=dict(component="Reporter", defect="metric_name_collides_with_parameter", name=name))
                continue
            user = [{k: v for k, v in d.items() if k not in RESERVED} for d in got]
            iters = [d.get("st_worker_iter") for d in got]
            if err is not None:
                want, want_iters = [dict(epoch=0), dict(epoch=2)], [0, 1]
            else:
                want, want_iters = [dict(epoch=0), {name: value, "epoch": 1}, dict(epoch=2)], [0, 1, 2]
            if user != want or iters != want_iters:
                ctx.violation("property", "report(%s=%r, epoch=1) between report(epoch=0) and report(epoch=2): %s; the stream is %r, the tuner "
                              "received %r with st_worker_iter %r" % (name, value, "raised " + type(err).__name__ if err else "no exception",
                                                                     buf.getvalue()[:300], user, iters), case=case,
                              signature=dict(component="Reporter", defect="metric_name_collides_with_parameter", name=name))


# --------------------------------------------------------------------------
# several Reporter instances (processes) appending to one stream: counters restart at 0
# --------------------------------------------------------------------------
def gen_multi_case(rng):
    procs = []
    for _ in range(rng.randint(2, 4)):
        n = rng.choice([1, 1, 1, 2, 3])
        procs.append(dict(add_time=rng.random() < 0.8,
                          reports=[[["epoch", ["int", rng.randint(0, 3)]]] + gen_call(rng, "ok")[1][:2] for _ in range(n)],
                          noise=rng.choice(["", "resumed from checkpoint\n", "x } [tune-metri", "\n"])))
    return dict(procs=procs, order=rng.choice(["sequential", "sequential", "alternating"]))


def multi_reporter_stream(ctx, cases):
    """outputs of several Reporter objects on one stream, parsed by retrieve in one go: every report of every
    instance arrives, in stream order; the counter of each instance is 0,1,2,..."""
    from syne_tune.report import Reporter, retrieve
    for c in cases:
        case = dict(kind="multi", multi=c)
        buf = io.StringIO()
        sent, counters = [], []
        with contextlib.redirect_stdout(buf):
            reps = [Reporter(add_time=p["add_time"]) for p in c["procs"]]
            todo = [list(p["reports"]) for p in c["procs"]]
            done = [0] * len(reps)

            def one(i):
                items = todo[i].pop(0)
                reps[i](**{k: build(v) for k, v in dict((k, v) for k, v in items).items()})
                sent.append({k: expect(v) for k, v in dict((k, v) for k, v in items).items()})
                counters.append(done[i])
                done[i] += 1
            if c["order"] == "sequential":
                for i, p in enumerate(c["procs"]):
                    sys.stdout.write(p["noise"])
                    while todo[i]:
                        one(i)
            else:
                while any(todo):
                    for i in range(len(reps)):
                        if todo[i]:
                            one(i)
        ctx.count(("multi", c), nontrivial=True)
        ctx.traces_validated += 1
        ctx.h("multi_reporter", "%s_%d" % (c["order"], len(c["procs"])))
        try:
            got = retrieve(read_like_local_backend(buf.getvalue()))
        except Exception as e:  # noqa
            ctx.violation("property", "retrieve raised %s on the concatenated output of %d Reporter instances" % (type(e).__name__, len(reps)),
                          case=case, signature=dict(component="retrieve", defect="multi_process_stream", exception=type(e).__name__))
            continue
        user = [{k: v for k, v in d.items() if k not in RESERVED} for d in got]
        iters = [d.get("st_worker_iter") for d in got]
        if not (len(user) == len(sent) and all(same(a, b) for a, b in zip(user, sent))) or iters != counters:
            ctx.violation("property", "%d Reporter instances (counters restart at 0) wrote %d reports with counters %r to one stream; "
                          "retrieve returned %d reports with counters %r: sent %r, received %r"
                          % (len(reps), len(sent), counters, len(user), iters, sent, user), case=case,
                          signature=dict(component="retrieve", defect="multi_process_stream_reports_lost_or_changed"))
    if cases:
        ctx.sample(dict(kind="multi_reporter_stream", case=cases[0]))


def prefix_cases(ctx, rng, lines_cases, lines_meta):
    """retrieve() on every prefix of a stream (a reader that sees the file while it grows): either exactly the
    complete reports so far, or an exception caused by the cut line — never a wrong or missing dictionary"""
    from syne_tune.report import Reporter
    buf = io.StringIO()
    sent = [dict(a=1), dict(b={"c": {"d": 2}}, s="}"), dict(t="[tune-metric]: {}", n=[1, {"x": 2}])]
    ends = []
    with contextlib.redirect_stdout(buf):
        rep = Reporter(add_time=False)
        for i, kw in enumerate(sent):
            sys.stdout.write(["noise {", "", "x}\n"][i])
            rep(**kw)
            ends.append(buf.tell() - 1)   # position of the newline of this report
    text = buf.getvalue()
    for cut in range(len(text) + 1):
        prefix = text[:cut]
        lines = prefix.splitlines(True)
        complete = [kw for kw, e in zip(sent, ends) if e <= cut]
        got, groups, err = retrieve_with_groups(lines, passthrough=False)
        try:
            from syne_tune.report import retrieve
            res = retrieve(lines)
            res = [{k: v for k, v in d.items() if k not in RESERVED} for d in res]
            ctx.h("prefix", "parsed")
            if res != complete:
                ctx.violation("property", "retrieve() on a prefix of the stream (cut at %d) returned %r, complete reports so far %r"
                              % (cut, res, complete), case=dict(kind="prefix", cut=cut),
                              signature=dict(component="retrieve", defect="prefix_parse_wrong"))
        except ValueError:
            ctx.h("prefix", "raises_on_cut_line")
        ctx.count(("prefix", cut), nontrivial=cut not in ends)
        if cut % 3 == 0 and got is not None and len(groups) == len(got):
            lines_cases.append("(%s, %s, %s)" % (tx(prefix), txs(read_like_local_backend(prefix)), txs(groups)))
            lines_meta.append(dict(kind="forged", text=prefix, lines=lines, groups=groups))


# --------------------------------------------------------------------------
def run(ctx, replay=None):
    from syne_tune.constants import ST_SAGEMAKER_METRIC_TAG
    ctx.rule = ("cases: scripts = sequences of 1..9 events, each either other output (pieces with braces, brackets, partial tags, "
                "unicode, CR, with/without trailing newline; never containing the tag) or a Reporter call (1..4 keys; nested "
                "lists/dicts, strings with braces/newlines/quotes/unicode/the tag itself, NaN/inf, numpy scalars of 14 dtypes; plus "
                "malformed: st_ keys, None, unserialisable, oversized), run on the real Reporter with stdout captured, written to a "
                "file, read back with readlines() and parsed by the real retrieve; plus forged texts for the regex semantics. "
                "non-trivial = a sequence with >= 2 delivered reports, or a rejected report, or the tag inside a payload, or other "
                "output on the same line as a report; distinct by content hash")
    if ST_SAGEMAKER_METRIC_TAG != TAGTXT:
        ctx.violation("correspondence", "ST_SAGEMAKER_METRIC_TAG is %r, the model has %r" % (ST_SAGEMAKER_METRIC_TAG, TAGTXT),
                      case={}, failing_input=False, broken="correspondence TAG (model/Report.v)")
    rng = ctx.rng
    seqs, forged = [], []
    if replay:
        if replay.get("kind") == "seq":
            seqs = [replay["seq"]]
        elif replay.get("kind") == "forged":
            forged = [replay["text"]]
        elif replay.get("kind") == "boundary":
            boundary_probe(ctx)
            return
        elif replay.get("kind") == "backend":
            backend_stream(ctx, replay["plans"])
            return
        elif replay.get("kind") == "backend_kill":
            backend_kill_stream(ctx, replay["plans"])
            return
        elif replay.get("kind") == "gated":
            gated_stream(ctx, replay["plans"])
            return
        elif replay.get("kind") == "enc":
            encoded_stream(ctx, [replay["enc"]])
            return
        elif replay.get("kind") == "ascii_backend":
            ascii_stdout_backend(ctx, replay["reports"])
            return
        elif replay.get("kind") == "resume":
            resume_stream(ctx, replay["plans"])
            return
        elif replay.get("kind") == "name":
            name_collision_probe(ctx)
            return
        elif replay.get("kind") == "multi":
            multi_reporter_stream(ctx, [replay["multi"]])
            return
        elif replay.get("kind") == "poll":
            polling_stream(ctx, [[tuple(c) for c in replay["chunks"]]])
            return
    else:
        for p in sorted(glob.glob(os.path.join(VERIF, "corpus", "C18", "*.json"))):
            c = json.load(open(p))
            c = c.get("case", c)
            if c.get("kind") == "seq":
                seqs.append(c["seq"])
            elif c.get("kind") == "forged":
                forged.append(c["text"])
        seqs += [gen_sequence(rng) for _ in range(ctx.n(400, 8000))]
        forged += [gen_forged(rng) for _ in range(ctx.n(300, 6000))]
    lines_cases, lines_meta, sender_cases, sender_meta = [], [], [], []
    json_cases, json_meta = [], []
    for seq in seqs:
        run_sequence(ctx, seq, lines_cases, lines_meta, sender_cases, sender_meta, json_cases, json_meta)
    for text in forged:
        lines = read_like_local_backend(text)
        got, groups, _ = retrieve_with_groups(lines, passthrough=False)
        ctx.count(("forged", text), nontrivial=len(groups) >= 1 and text.count(TAGTXT) >= 2)
        ctx.h("forged_groups", min(len(groups), 4))
        if got is not None and len(groups) == len(got):
            translated = text.replace("\r\n", "\n").replace("\r", "\n")
            lines_cases.append("(%s, %s, %s)" % (tx(translated), txs(lines), txs(groups)))
            lines_meta.append(dict(kind="forged", text=text, lines=lines, groups=groups))
    if forged:
        ctx.sample(dict(kind="forged_text", text=lines_meta[-1].get("text"), real_regex_groups=lines_meta[-1]["groups"]))
    if not replay:
        prefix_cases(ctx, rng, lines_cases, lines_meta)
        backend_stream(ctx, gen_backend_plans(rng))
        backend_kill_stream(ctx, gen_kill_plans(rng))
        polling_stream(ctx, gen_poll_streams(rng))
        gated_stream(ctx, gen_gate_plans(rng))
        resume_stream(ctx, gen_resume_plans(rng))
        multi_reporter_stream(ctx, [gen_multi_case(rng) for _ in range(ctx.n(80, 1500))])
        encoded_stream(ctx, [gen_enc_case(rng) for _ in range(ctx.n(120, 2000))])
        ascii_stdout_backend(ctx, [dict(epoch=1, name="caf\u00e9", tags=["\u2713", "\u4e2d\u6587"]),
                                   {"epoch": 2, "name": "na\u00efve \U0001F600", "k \u00e4": {"\u20ac": rng.choice(UNI[:4])}}])
    for i in ctx.coq_bad_cases("lines", IMPORTS, PRELUDE, "chk_lines", lines_cases, shard=150):
        ctx.violation("correspondence", "model readlines/retrieve_model differs from readlines()+re.findall of the real retrieve",
                      case=lines_meta[i], failing_input=False, broken="correspondence chk_lines (model/Report.v retrieve_model)")
    ctx.h("json_layer_cases", "payloads", len(json_cases))
    for i in ctx.coq_bad_cases("json", IMPORTS, PRELUDE, "chk_json", json_cases, shard=150):
        ctx.violation("correspondence", "model dumps / loads / report_dict / ascii_str_sizeof differs from json.dumps, json.loads, "
                      "the Reporter's fields or sys.getsizeof on payload %r" % json_meta[i]["payload"][:300],
                      case=json_meta[i], failing_input=False, broken="correspondence chk_json (model/Report.v dumps, loads, report_dict)")
    for i in ctx.coq_bad_cases("sender", IMPORTS, PRELUDE, "chk_sender", sender_cases, shard=150):
        ctx.violation("correspondence", "model Reporter (outcomes, counter, printed text) differs from the real Reporter",
                      case=sender_meta[i], failing_input=False, broken="correspondence chk_sender (model/Report.v report_call)")
    if not replay:
        boundary_probe(ctx)
        name_collision_probe(ctx)
        notes_probes(ctx)
